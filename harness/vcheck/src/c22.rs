//! C22 No input makes the library panic, abort or hang.
//!
//! Three generators, each case against a fresh database (a copy of a per-process template:
//! tables t1 t2 users orders items with a few rows; nothing is shared between cases):
//!  (1) `sql_bytes`: bytes -> lossy UTF-8 -> `prepare` (+ bind/execute/query with decoded
//!      parameters, right and wrong arity), `execute`, `execute_with_params`, `query`; the
//!      text as a whole and split at `;`. Seeds: every SQL string literal harvested from the
//!      repository's tests, examples and README (tools/harvest_sql.py -> corpus/sql/), then
//!      byte-level mutations (flip, set, delete, insert dictionary word, duplicate a range,
//!      splice from another statement, truncate).
//!  (2) `sql_gen`: a choice stream drives a grammar of the dialect (SELECT with expressions,
//!      ~100 functions, joins, subqueries, CTEs, set operations, window functions; INSERT /
//!      UPDATE / DELETE with RETURNING and ON CONFLICT; CREATE / ALTER / DROP / TRUNCATE;
//!      PRAGMA with odd values; transaction control; EXPLAIN; SET/SHOW/...), then token-level
//!      mutations: drop / duplicate / swap tokens, unbalance parentheses, extreme literals
//!      (9223372036854775807, -9223372036854775808, 1e308, ...), huge strings, nested
//!      parentheses / unary chains / JSON to a bounded depth, repeated runs.
//!  (3) `api_seq`: open again, clone, execute, prepare + bind with any arity, execute with
//!      parameter lists, batch inserts with ragged rows, pragmas, checkpoint, close, use
//!      after close, drop without close, prepared statements across handles.
//! Every case runs in a child process (childsrv.rs: RLIMIT_AS 4 GiB, 8 MiB stack).
//! O: every call returns Ok or Err. Violations: a panic (`C22|panic|<file>|<fn>|<message
//! class>`), a child death (`C22|abort|<stack_overflow|alloc_failed|sig..>|<nesting
//! feature>`). A case that does not reply within the timeout, twice, alone in a fresh child,
//! is reported as inconclusive (exit 2).
//! NT: some statement of the case got past the parser (`prepare` accepted it) or an API
//! call reached the engine.

use std::sync::{Arc, Mutex, OnceLock};
use std::time::Duration;

use proptest::prelude::*;
use serde::{Deserialize, Serialize};
use serde_json::{json, Value as J};
use vcore::{Check, Ctx, Outcome, Tier};
use vtargets::sqlrun;

use crate::c23::{hex, unhex};
use crate::childsrv::{self, Exec};

#[derive(Debug, Clone, Serialize, Deserialize, PartialEq, Eq, Hash)]
pub struct Case {
    /// sql_bytes | sql_list | api_seq (sql_gen only as the name of the libFuzzer target: its
    /// choice streams are turned into sql_list cases, i.e. text, before they are stored)
    pub target: String,
    /// hex of the input in the target's fuzz input format
    pub input: String,
    /// generator feature `deep_nesting`: nesting depths / repetitions beyond the bounded
    /// defaults (hundreds to thousands of levels)
    #[serde(default)]
    pub deep: bool,
    /// the statements the input stands for (informational; recomputed on replay)
    #[serde(default)]
    pub note: Vec<String>,
}

pub struct C22 {
    pub ctx: Option<Arc<Ctx>>,
    pub inconclusive: Mutex<Vec<String>>,
}

fn timeout() -> Duration {
    Duration::from_secs(std::env::var("VERIF_CASE_TIMEOUT_S").ok().and_then(|v| v.parse().ok()).unwrap_or(60))
}

pub fn statements_of(target: &str, input: &[u8], deep: bool) -> Vec<String> {
    match target {
        "sql_bytes" => vec![String::from_utf8_lossy(input.get(1..).unwrap_or(&[])).to_string()],
        "sql_gen" => sqlrun::gen_sql(input, deep),
        "sql_list" => input.get(1..).unwrap_or(&[]).split(|b| *b == 0).filter(|s| !s.is_empty()).map(|s| String::from_utf8_lossy(s).to_string()).collect(),
        _ => Vec::new(),
    }
}

fn short(s: &str) -> String {
    if s.len() <= 300 {
        s.to_string()
    } else {
        let mut a = 150;
        while !s.is_char_boundary(a) {
            a -= 1;
        }
        let mut b = s.len() - 100;
        while !s.is_char_boundary(b) {
            b += 1;
        }
        format!("{} ...[{} bytes]... {}", &s[..a], s.len() - a - (s.len() - b), &s[b..])
    }
}

pub fn serve_handler(req: &J) -> J {
    let target = req.get("t").and_then(|v| v.as_str()).unwrap_or("").to_string();
    let input = unhex(req.get("i").and_then(|v| v.as_str()).unwrap_or(""));
    let deep = req.get("deep").and_then(|v| v.as_bool()).unwrap_or(false);
    let (rep, panics) = vtargets::guard::run_collect(|| sqlrun::run(&target, &input, deep));
    let rep = rep.unwrap_or_default();
    let trace = sqlrun::take_trace();
    let ps: Vec<J> = panics
        .iter()
        .map(|p| {
            let mut d = vtargets::guard::detail(p);
            if !trace.is_empty() {
                d.push_str(&format!(" :: API calls: {}", trace.join("; ")));
            }
            json!({"sig": vtargets::guard::sig_c22(p), "detail": d})
        })
        .collect();
    json!({
        "r": "ok",
        "accepted": rep.accepted,
        "deep": rep.deep,
        "classes": rep.classes,
        "panics": ps,
        // state behind a panic is not trusted: the child is replaced
        "exit_after": !ps.is_empty(),
    })
}

impl C22 {
    fn known(&self, sig: &str) -> bool {
        let sig: String = sig.chars().map(|c| if c.is_whitespace() { '_' } else { c }).collect();
        self.ctx.as_ref().map(|c| c.is_known(&sig)).unwrap_or(false)
    }
}

impl Check for C22 {
    type Case = Case;
    fn run(&self, case: &Case) -> Outcome {
        let mut out = Outcome::ok();
        out.add_class(format!("t={}", case.target));
        if case.deep {
            out.add_class("deep_nesting_enabled");
        }
        let req = json!({"t": case.target, "i": case.input, "deep": case.deep});
        let stmts = || statements_of(&case.target, &unhex(&case.input), case.deep);
        match childsrv::exec("C22", &req, timeout()) {
            Exec::Reply(j) => {
                if j.get("r").and_then(|v| v.as_str()) != Some("ok") {
                    self.inconclusive.lock().unwrap().push(format!("child replied {}", j));
                    return out;
                }
                for c in j.get("classes").and_then(|v| v.as_array()).into_iter().flatten() {
                    if let Some(c) = c.as_str() {
                        out.add_class(c.to_string());
                    }
                }
                if j.get("batch_only").is_some() {
                    out.add_class("died_or_hung_in_batch_but_not_alone");
                }
                if j.get("deep").and_then(|v| v.as_bool()).unwrap_or(false) {
                    out.nontrivial = Some(vcore::hash_of(&(&case.target, &case.input, case.deep)));
                }
                let fails: Vec<(String, String)> = j
                    .get("panics")
                    .and_then(|v| v.as_array())
                    .into_iter()
                    .flatten()
                    .map(|p| (p["sig"].as_str().unwrap_or("?").to_string(), p["detail"].as_str().unwrap_or("").to_string()))
                    .collect();
                if !fails.is_empty() {
                    out.add_class("panicked");
                    let pick = fails.iter().find(|(s, _)| !self.known(s)).unwrap_or(&fails[0]).clone();
                    let text: Vec<String> = stmts().iter().map(|s| short(s)).collect();
                    out.set_fail(pick.0, format!("{} :: statements: {:?}", pick.1, text));
                }
            }
            Exec::Died { class, detail } => {
                out.add_class("child_died");
                out.nontrivial = Some(vcore::hash_of(&(&case.target, &case.input, case.deep)));
                let st = stmts();
                let feature = st.iter().map(|s| sqlrun::nesting_feature(s)).find(|f| *f != "other").unwrap_or(if case.target == "api_seq" { "api" } else { "other" });
                let text: Vec<String> = st.iter().map(|s| short(s)).collect();
                out.set_fail(format!("C22|abort|{}|{}", class, feature), format!("{} :: statements: {:?}", detail, text));
            }
            Exec::Hang(why) => {
                out.add_class("hang_inconclusive");
                let text: Vec<String> = stmts().iter().map(|s| short(s)).collect();
                self.inconclusive.lock().unwrap().push(format!("{} {}: {} :: {:?}", case.target, case.input.chars().take(60).collect::<String>(), why, text));
            }
            Exec::Infra(why) => {
                self.inconclusive.lock().unwrap().push(why);
            }
        }
        out
    }
}

// ---------------------------------------------------------------------------------------
// corpus + strategies
// ---------------------------------------------------------------------------------------

static CORPUS: OnceLock<Vec<Vec<u8>>> = OnceLock::new();

/// harvested statements (corpus/sql/*.sql), sorted by file name
pub fn sql_corpus() -> &'static Vec<Vec<u8>> {
    CORPUS.get_or_init(|| {
        let dir = vcore::verif_root().join("corpus").join("sql");
        let mut files: Vec<_> = std::fs::read_dir(&dir).map(|rd| rd.flatten().map(|e| e.path()).filter(|p| p.extension().map(|e| e == "sql").unwrap_or(false)).collect()).unwrap_or_default();
        files.sort();
        let mut v: Vec<Vec<u8>> = files.iter().filter_map(|f| std::fs::read(f).ok()).collect();
        if v.is_empty() {
            v.push(b"SELECT * FROM t1".to_vec());
        }
        v
    })
}

/// minimised fuzz artifacts committed under corpus/c22/<target>/
fn artifact_cases() -> Vec<Case> {
    let mut out = Vec::new();
    for t in sqlrun::TARGETS {
        let dir = vcore::verif_root().join("corpus").join("c22").join(t);
        let Ok(rd) = std::fs::read_dir(&dir) else { continue };
        let mut files: Vec<_> = rd.flatten().map(|e| e.path()).filter(|p| p.is_file()).collect();
        files.sort();
        for f in files {
            if let Ok(b) = std::fs::read(&f) {
                let deep = f.file_name().map(|n| n.to_string_lossy().contains("deep")).unwrap_or(false);
                out.push(mk_case(t, b, deep));
            }
        }
    }
    out
}

/// a grammar choice stream -> the case that stores the generated statements as text
fn mk_gen_case(stream: &[u8], deep: bool) -> Case {
    let stmts = sqlrun::gen_sql(stream, deep);
    let mut input = vec![stream.first().copied().unwrap_or(0)];
    for s in &stmts {
        input.extend(s.bytes().filter(|b| *b != 0));
        input.push(0);
    }
    mk_case("sql_list", input, deep)
}

fn mk_case(target: &str, input: Vec<u8>, deep: bool) -> Case {
    if target == "sql_gen" {
        return mk_gen_case(&input, deep);
    }
    let note = statements_of(target, &input, deep).iter().map(|s| short(s)).collect();
    Case { target: target.to_string(), input: hex(&input), deep, note }
}

const DICT: &[&str] = &[
    " 9223372036854775807 ", " -9223372036854775808 ", " 1e308 ", " NULL ", " (", ") ", "'", " OR 1=1 ", " UNION SELECT ", ";", " -- ", "/*", " ? ", " $1 ", " * ", " ,", " NOT ", " - ", " ABS(", " CAST(",
    " AS INT)", " IN (", " BETWEEN ", " LIKE '%' ", " GROUP BY ", " ORDER BY ", " LIMIT -1 ", " OFFSET 99999999999999999999 ", "\u{0}", "\u{FFFD}", " 0x", " 1e", " .. ", "''''", " DISTINCT ", " JOIN t1 ON ",
    " RETURNING * ", " t1 ", " t2 ", " users ", " id ", " a ", " b ",
];

#[derive(Debug, Clone)]
enum BMut {
    Flip(u16, u8),
    Set(u16, u8),
    Delete(u16, u8),
    Dict(u16, u8),
    Dup(u16, u8, u8),
    Splice(u16, u16, u16),
    Truncate(u16),
}

fn bmut() -> impl Strategy<Value = BMut> {
    prop_oneof![
        1 => (any::<u16>(), 0u8..8).prop_map(|(p, b)| BMut::Flip(p, b)),
        2 => (any::<u16>(), prop_oneof![Just(b'('), Just(b')'), Just(b'\''), Just(b','), Just(b' '), Just(b'0'), Just(b'-'), Just(0u8), Just(0xFFu8), any::<u8>()]).prop_map(|(p, v)| BMut::Set(p, v)),
        2 => (any::<u16>(), 1u8..12).prop_map(|(p, n)| BMut::Delete(p, n)),
        4 => (any::<u16>(), any::<u8>()).prop_map(|(p, d)| BMut::Dict(p, d)),
        2 => (any::<u16>(), 1u8..24, 0u8..4).prop_map(|(p, n, t)| BMut::Dup(p, n, t)),
        2 => (any::<u16>(), any::<u16>(), any::<u16>()).prop_map(|(a, b, c)| BMut::Splice(a, b, c)),
        1 => any::<u16>().prop_map(BMut::Truncate),
    ]
}

fn apply_bmuts(text: &mut Vec<u8>, muts: &[BMut], deep: bool) {
    let corpus = sql_corpus();
    for m in muts {
        let len = text.len();
        match m {
            BMut::Flip(p, b) => {
                if len > 0 {
                    text[vcore::idx(*p, len)] ^= 1 << b;
                }
            }
            BMut::Set(p, v) => {
                if len > 0 {
                    text[vcore::idx(*p, len)] = *v;
                }
            }
            BMut::Delete(p, n) => {
                if len > 0 {
                    let s = vcore::idx(*p, len);
                    let e = (s + *n as usize).min(len);
                    text.drain(s..e);
                }
            }
            BMut::Dict(p, d) => {
                let s = vcore::idx(*p, len + 1);
                let w = DICT[*d as usize % DICT.len()].as_bytes();
                text.splice(s..s, w.iter().copied());
            }
            BMut::Dup(p, n, t) => {
                if len > 0 {
                    let s = vcore::idx(*p, len);
                    let e = (s + *n as usize).min(len);
                    let chunk: Vec<u8> = text[s..e].to_vec();
                    let times = if deep { [1usize, 8, 200, 3000][*t as usize] } else { [1usize, 3, 10, 30][*t as usize] };
                    let mut rep = Vec::with_capacity(chunk.len() * times);
                    for _ in 0..times {
                        rep.extend_from_slice(&chunk);
                    }
                    text.splice(e..e, rep);
                }
            }
            BMut::Splice(a, b, c) => {
                let other = &corpus[vcore::idx(*a, corpus.len())];
                if !other.is_empty() {
                    let s = vcore::idx(*b, other.len());
                    let at = vcore::idx(*c, len + 1);
                    text.splice(at.., other[s..].iter().copied());
                }
            }
            BMut::Truncate(p) => text.truncate(vcore::idx(*p, len + 1)),
        }
    }
}

fn sql_bytes_case(deep: bool) -> BoxedStrategy<Case> {
    let n = sql_corpus().len();
    (0..n, any::<u8>(), proptest::collection::vec(bmut(), 0..4), proptest::bool::weighted(if deep { 0.3 } else { 0.0 }))
        .prop_map(|(i, p, muts, d)| {
            let mut text = sql_corpus()[i].clone();
            apply_bmuts(&mut text, &muts, d);
            let mut input = vec![p];
            input.extend(text);
            mk_case("sql_bytes", input, d)
        })
        .boxed()
}

fn raw_bytes_case() -> BoxedStrategy<Case> {
    (any::<u8>(), proptest::collection::vec(prop_oneof![3 => 0x20u8..0x7F, 1 => any::<u8>()], 0..80)).prop_map(|(p, mut v)| {
        v.insert(0, p);
        mk_case("sql_bytes", v, false)
    })
    .boxed()
}

fn sql_gen_case(deep: bool) -> BoxedStrategy<Case> {
    (proptest::collection::vec(any::<u8>(), 1..96), proptest::bool::weighted(if deep { 0.3 } else { 0.0 })).prop_map(|(v, d)| mk_gen_case(&v, d)).boxed()
}

fn api_case() -> BoxedStrategy<Case> {
    proptest::collection::vec(any::<u8>(), 2..64).prop_map(|v| mk_case("api_seq", v, false)).boxed()
}

pub fn strategy(deep: bool) -> BoxedStrategy<Case> {
    prop_oneof![
        8 => sql_bytes_case(deep),
        1 => raw_bytes_case(),
        12 => sql_gen_case(deep),
        3 => api_case(),
    ]
    .boxed()
}

/// seeds for the libFuzzer targets, in fuzz input format
pub fn emit_corpus(dir: &str) -> i32 {
    use proptest::strategy::ValueTree;
    use proptest::test_runner::{Config, TestRunner};
    let root = std::path::Path::new(dir);
    let d = root.join("sql_bytes");
    let _ = std::fs::create_dir_all(&d);
    for (i, s) in sql_corpus().iter().enumerate() {
        let mut v = vec![(i % 14) as u8];
        v.extend(s);
        let _ = std::fs::write(d.join(format!("seed-{:04}", i)), v);
    }
    let mut runner = TestRunner::new_with_rng(Config::default(), vcore::rng_from_seed(0xC22));
    let streams = proptest::collection::vec(any::<u8>(), 1..96).prop_map(|v| Case { target: "sql_gen".into(), input: hex(&v), deep: false, note: Vec::new() }).boxed();
    for (t, st) in [("sql_gen", streams), ("api_seq", api_case())] {
        let d = root.join(t);
        let _ = std::fs::create_dir_all(&d);
        for i in 0..200 {
            if let Ok(tree) = st.new_tree(&mut runner) {
                let _ = std::fs::write(d.join(format!("seed-{:03}", i)), unhex(&tree.current().input));
            }
        }
    }
    0
}

pub fn main(tier: Tier, replay: Option<String>) -> i32 {
    if let Some(p) = replay {
        let chk = C22 { ctx: None, inconclusive: Mutex::new(Vec::new()) };
        let code = vcore::replay_file("C22", &chk, &p);
        childsrv::shutdown_thread_client();
        let inc = chk.inconclusive.lock().unwrap();
        if code == 0 && !inc.is_empty() {
            println!("INCONCLUSIVE property=C22 {}", inc.join("; "));
            return 2;
        }
        return code;
    }
    let ctx = Ctx::new("C22", tier, "exploration");
    ctx.set_rule(
        "corpus replay: every harvested SQL literal (tests/, examples/, README; tools/harvest_sql.py) twice with different parameter picks, plus committed fuzz artifacts; \
         generated: 8/24 corpus statement + 0..3 byte mutations, 1/24 raw printable bytes, 12/24 grammar choice streams (1..4 statements, 0..4 token mutations; stored as the generated text), 3/24 API call sequences. \
         Non-trivial = a statement of the case got past the parser (prepare accepted it) or an API call reached the engine; distinct by hash of (target, input).",
    );
    ctx.assume("every case runs in a child process with RLIMIT_AS = 4 GiB on a thread with an 8 MiB stack against a private copy of the template database");
    ctx.assume("a case that does not reply within VERIF_CASE_TIMEOUT_S (60 s), twice, alone, is reported as inconclusive (exit 2), not as a violation");
    let chk = C22 { ctx: Some(ctx.clone()), inconclusive: Mutex::new(Vec::new()) };
    let deep = !ctx.gate_closed("deep_nesting");
    ctx.extra("deep_nesting_generated", json!(deep));
    // corpus replay
    let mut list: Vec<Case> = Vec::new();
    for (i, s) in sql_corpus().iter().enumerate() {
        for p in [0u8, 5 + (i % 9) as u8] {
            let mut v = vec![p];
            v.extend(s);
            list.push(mk_case("sql_bytes", v, false));
        }
    }
    list.extend(artifact_cases());
    ctx.extra("corpus_statements", json!(sql_corpus().len()));
    {
        let cases = crate::fuzzrun::scaled(tier.pick(8_000, 160_000));
        // (replays the witnesses of the listed findings first)
        vcore::drive(&ctx, &chk, || strategy(deep), cases, 16);
    }
    if !ctx.has_violation() {
        crate::c23::run_list(&ctx, &chk, &list, "corpus");
    }
    if !ctx.has_violation() && tier == Tier::Thorough {
        crate::fuzzrun::campaigns(&ctx, "C22", &chk, |dir| emit_corpus(dir), |target, bytes| mk_case(target.trim_start_matches("c22_"), bytes.to_vec(), false));
    }
    let inc = chk.inconclusive.lock().unwrap();
    if !inc.is_empty() {
        ctx.inconclusive(format!("{} case(s) without verdict: {}", inc.len(), inc.iter().take(3).cloned().collect::<Vec<_>>().join(" | ")));
    }
    ctx.finish()
}
