//! C30 Vectorised leaf search equals binary search.
//!
//! G: sorted key sets (0..~400 keys) written into a leaf page with `insert_at_end` (which
//! does not use the function under test); probes = every key, its neighbours and generated
//! keys. O: `LeafNode::find_key` == plain binary search over the page's keys; and the
//! bracket returned by *both* prefix-narrowing variants (AVX2 when the CPU has it, and the
//! scalar fallback) must contain the true position, which covers "regardless of CPU
//! feature availability" without needing a machine that lacks AVX2.

use proptest::prelude::*;
use serde::{Deserialize, Serialize};
use turdb::btree::simd_scan::simd_prefix_search_scalar;
use turdb::btree::{LeafNode, LeafNodeMut, SearchResult};
use vcore::{Check, Ctx, Outcome, Tier};

#[derive(Debug, Clone, Serialize, Deserialize)]
pub struct Case {
    pub keys: Vec<Vec<u8>>,
    pub probes: Vec<Vec<u8>>,
}

pub struct C30;

const PAGE: usize = 16384;

fn prefix_u32(k: &[u8]) -> u32 {
    let mut p = [0u8; 4];
    for (i, b) in k.iter().take(4).enumerate() {
        p[i] = *b;
    }
    u32::from_be_bytes(p)
}

impl Check for C30 {
    type Case = Case;
    fn run(&self, case: &Case) -> Outcome {
        let mut keys = case.keys.clone();
        keys.sort();
        keys.dedup();
        let mut page = vec![0u8; PAGE];
        {
            let mut leaf = LeafNodeMut::init(&mut page).expect("init leaf");
            let mut n = 0;
            for k in &keys {
                if leaf.insert_at_end(k, b"v").is_err() {
                    break;
                }
                n += 1;
            }
            keys.truncate(n);
        }
        let leaf = LeafNode::from_page(&page).expect("leaf page");
        let n = keys.len();
        let mut out = Outcome::ok();
        // probes: all keys, neighbours, generated
        let mut probes: Vec<Vec<u8>> = Vec::new();
        for k in &keys {
            probes.push(k.clone());
            let mut a = k.clone();
            if let Some(l) = a.last_mut() {
                *l = l.wrapping_add(1);
            }
            probes.push(a);
            let mut b = k.clone();
            if let Some(l) = b.last_mut() {
                *l = l.wrapping_sub(1);
            }
            probes.push(b);
            if k.len() > 1 {
                probes.push(k[..k.len() - 1].to_vec());
            }
            let mut e = k.clone();
            e.push(0);
            probes.push(e);
        }
        probes.extend(case.probes.iter().filter(|p| !p.is_empty()).cloned());
        let mut shared_prefix_probe = false;
        for p in &probes {
            let lb = keys.partition_point(|k| k.as_slice() < p.as_slice());
            let ub = keys.partition_point(|k| k.as_slice() <= p.as_slice());
            let expect = if lb < n && keys[lb] == *p { SearchResult::Found(lb) } else { SearchResult::NotFound(lb) };
            let got = leaf.find_key(p);
            let same = match (&expect, &got) {
                (SearchResult::Found(a), SearchResult::Found(b)) => a == b,
                (SearchResult::NotFound(a), SearchResult::NotFound(b)) => a == b,
                _ => false,
            };
            let pp = prefix_u32(p);
            let same_prefix = keys.iter().filter(|k| prefix_u32(k) == pp).count();
            if n >= 8 && same_prefix >= 2 {
                shared_prefix_probe = true;
            }
            if !same {
                let kind = match (&expect, &got) {
                    (SearchResult::Found(_), SearchResult::NotFound(_)) => "present_key_not_found",
                    (SearchResult::NotFound(_), SearchResult::Found(_)) => "absent_key_found",
                    (SearchResult::Found(_), SearchResult::Found(_)) => "wrong_position",
                    _ => "wrong_insertion_point",
                };
                out.set_fail(
                    format!("C30|find_key|{}", kind),
                    format!("n={} probe={:?} expected {:?} got {:?} (keys sharing the probe's 4-byte prefix: {})", n, p, expect, got, same_prefix),
                );
                break;
            }
            // brackets: by prefix order the true range of the probe's prefix class must be inside
            let plb = keys.partition_point(|k| prefix_u32(k) < pp);
            let pub_ = keys.partition_point(|k| prefix_u32(k) <= pp);
            let _ = (lb, ub);
            let (l, r, _) = simd_prefix_search_scalar(&page, pp, n);
            if !(l <= plb && pub_ <= r.min(n)) && plb != pub_ || (plb == pub_ && !(l <= plb && plb <= r)) {
                out.set_fail(
                    "C30|bracket|scalar",
                    format!("n={} probe={:?} scalar bracket [{},{}) does not contain prefix class [{},{})", n, p, l, r, plb, pub_),
                );
                break;
            }
            #[cfg(target_arch = "x86_64")]
            if is_x86_feature_detected!("avx2") {
                // SAFETY: feature checked; page is a full well-formed page
                let (l, r, _) = unsafe { turdb::btree::simd_scan::simd_prefix_search_avx2(&page, pp, n) };
                let bad = if plb != pub_ { !(l <= plb && pub_ <= r.min(n)) } else { !(l <= plb && plb <= r) };
                if bad {
                    out.set_fail(
                        "C30|bracket|avx2",
                        format!("n={} probe={:?} avx2 bracket [{},{}) does not contain prefix class [{},{})", n, p, l, r, plb, pub_),
                    );
                    break;
                }
            }
        }
        out.add_class(match n {
            0 => "n=0",
            1..=7 => "n=1..7",
            8..=63 => "n=8..63",
            _ => "n>=64",
        });
        if shared_prefix_probe {
            out.nontrivial = Some(vcore::hash_of(&keys));
            out.add_class("shared_prefix_ge8");
        }
        out
    }
}

fn key_strategy() -> impl Strategy<Value = Vec<u8>> {
    prop_oneof![
        // 8-byte big-endian integers in a narrow band: all share the first 4+ bytes
        4 => (0u64..600).prop_map(|v| v.to_be_bytes().to_vec()),
        // SQL-shaped int keys: type byte then BE value
        3 => (0u32..3000).prop_map(|v| { let mut k = vec![0x16u8]; k.extend_from_slice(&(v as u64).to_be_bytes()); k }),
        // few distinct prefixes, random tails
        3 => (0u8..4, proptest::collection::vec(any::<u8>(), 0..6)).prop_map(|(p, t)| { let mut k = vec![b'a', b'b', b'c', p]; k.extend(t); k }),
        // keys shorter than 4 bytes (zero padded prefix)
        2 => proptest::collection::vec(prop_oneof![Just(0u8), Just(1u8), Just(0x7F), Just(0x80), Just(0xFF), any::<u8>()], 1..4),
        // high-bit prefixes (signed/unsigned comparison)
        2 => (any::<u8>(), any::<u8>()).prop_map(|(a, b)| vec![0xFF, 0x80 | a, b, 0x7F, 1]),
        1 => proptest::collection::vec(any::<u8>(), 1..12),
    ]
}

pub fn strategy(max_keys: usize) -> BoxedStrategy<Case> {
    (0usize..=max_keys)
        .prop_flat_map(|n| (proptest::collection::vec(key_strategy(), n), proptest::collection::vec(key_strategy(), 0..8)))
        .prop_map(|(keys, probes)| Case { keys, probes })
        .boxed()
}

pub fn main(tier: Tier, replay: Option<String>) -> i32 {
    if let Some(p) = replay {
        return vcore::replay_file("C30", &C30, &p);
    }
    let ctx = Ctx::new("C30", tier, "exploration");
    ctx.set_rule(
        "proptest-generated sorted key sets of 0..400 keys (narrow-band 8-byte integers, SQL-shaped int keys, few-prefix random tails, \
         keys shorter than 4 bytes, high-bit prefixes) built with insert_at_end; probes = every key, +-1 in the last byte, the key minus its last byte, \
         the key plus a 0 byte, and generated keys. Non-trivial = page holds >= 8 cells and some probe shares its 4-byte prefix with >= 2 cells; \
         distinct by hash of the key set.",
    );
    ctx.assume("well-formed pages only (built through LeafNodeMut); the NEON variant is not compiled on this x86_64 sandbox");
    let cases = tier.pick(40_000, 1_500_000);
    vcore::drive(&ctx, &C30, || strategy(400), cases, 16);
    ctx.finish()
}
