//! C28 The B-tree behaves as an ordered map.
//!
//! G: operation sequences of `btree_engine` (insert, insert_if_not_exists, insert_append only
//! with a key above the stored maximum, update same/shorter/longer, delete, get/search,
//! cursor scans) over six key shapes. O: `std::collections::BTreeMap` — every return value,
//! a `get` after every mutation, forward scans from `cursor_first`, scans from
//! `cursor_seek(k)` for stored and absent k, reverse scans from `cursor_last`, all on a tree
//! re-instantiated for every step from the persisted root page and (in half of the cases) the
//! persisted rightmost-leaf hint; at the end of each case the same observations again plus
//! `BTreeReader` over a memory-mapped copy of the pages (on a fixed sixth of the cases).

use vcore::{Check, Ctx, Outcome, Tier};

use crate::btree_engine::{run_case, strategy, Case, GenCfg, Mode, RunCfg};

pub struct C28 {
    /// run the BTreeReader-over-mmap observations on one case in `reader_every` (creating and
    /// mapping a file per case costs more than the rest of the case); 1 = every case
    reader_every: u64,
}

impl Check for C28 {
    type Case = Case;
    fn run(&self, case: &Case) -> Outcome {
        let reader = vcore::hash_of(case) % self.reader_every == 0;
        run_case("C28", case, &RunCfg { mode: Mode::Map, reader })
    }
}

pub fn main(tier: Tier, replay: Option<String>) -> i32 {
    if let Some(p) = replay {
        return vcore::replay_file("C28", &C28 { reader_every: 1 }, &p);
    }
    let check = C28 { reader_every: tier.pick(6, 3) };
    let ctx = Ctx::new("C28", tier, "exploration");
    ctx.set_rule(
        "proptest-generated operation sequences (quick: <= 400 executed steps, thorough: <= 20000) over BTree<MemStorage>: runs of sorted / reverse inserts \
         through insert, insert_if_not_exists or insert_append (append only when the key exceeds every stored key), single inserts incl. of stored keys, \
         updates with the same / a shorter / a longer value, deletes, runs of deletes of consecutive stored keys (emptying whole leaves), get/search, \
         cursor_first scans, cursor_seek scans for stored keys and their absent neighbours, cursor_last+prev scans; key shapes: 8-byte big-endian ints \
         (shared 4-byte prefix), random 1-64 bytes, 60-byte common prefix with proper-prefix siblings, 500-2000-byte keys differing at the head / at the tail, \
         mixed; values 0-3000 bytes, cell <= 4096 bytes; tree re-instantiated per step from the persisted root (and rightmost hint in half of the cases). \
         Non-trivial = the sequence caused >= 1 split and >= 1 successful delete; distinct by hash of the case.",
    );
    ctx.assume("BTreeMap<Vec<u8>,Vec<u8>> with bytewise key order is the reference; insert of a stored key must fail and change nothing (callers rely on the error); \
                update may answer false for a stored key only when the value grows (callers then delete + insert, which the engine does too) and must then leave the entry untouched");
    ctx.assume("cells stay <= 4096 bytes (TOAST threshold 1000 / chunk 4000) and keys <= 2100 bytes; root page is page 1 as in every table/index file");
    let g = GenCfg { max_steps: tier.pick(400, 20_000), max_top_ops: tier.pick(40, 400) };
    let cases = crate::btree_engine::case_count(tier.pick(20_000, 30_000));
    vcore::drive(&ctx, &check, move || strategy(g), cases, 16);
    ctx.finish()
}
