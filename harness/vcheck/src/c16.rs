//! C16 Aggregates and GROUP BY follow SQL semantics.
//!
//! G: one generated table (0–40 rows, NULLs, duplicates), optional WHERE, 0–2 grouping keys
//! (columns of any type or numeric expressions), 1–3 aggregates out of COUNT(*), COUNT(x),
//! COUNT(DISTINCT x), SUM, AVG, MIN, MAX over numeric columns / expressions and (MIN/MAX,
//! COUNT) text columns, optional HAVING over an aggregate or a key. O: differential against
//! bundled SQLite on identical data, restricted to where the dialects coincide (SUM/AVG of
//! an empty or all-NULL input is NULL in both; AVG is a float in both; no bare columns; sums
//! cannot overflow; doubles are multiples of 0.5 so sums are exact in any order). Results are
//! compared as bags, floats at relative 1e-9.

use std::collections::BTreeSet;

use proptest::prelude::*;
use serde::{Deserialize, Serialize};
use vcore::{Check, Ctx, Outcome, Tier};

use crate::equery::*;

#[derive(Debug, Clone, Serialize, Deserialize)]
pub struct Case {
    pub table: Table,
    pub q: Select,
}

pub struct C16 {
    pub gates: BTreeSet<String>,
    pub all_tags: bool,
}

/// trigger tags of this property's listed findings (see KNOWN_FINDINGS.txt)
pub const TRIGGERS: &[&str] = &[
    "agg.arg_not_plain_column",
    "agg.count_column_null_input",
    "agg.count_distinct",
    "agg.min_max_text",
    "having.aggregate_not_in_select_list",
    "group_by.expression",
    "text.toasted_value",
];

pub fn agg_tags(case: &Case, schema: &Schema, tags: &mut BTreeSet<&'static str>) -> (bool, u64) {
    // data-dependent facts, computed with the scalar evaluator over the single table
    let q = &case.q;
    let scope = q.top_scope(schema);
    let rows = case.table.data();
    let pass: Vec<&Row> = rows.iter().filter(|r| q.filter.as_ref().map(|f| matches!(eval(f, &scope, r), Ok(Val::Bool(true)))).unwrap_or(true)).collect();
    let mut nt = false;
    let grouped = !q.group_by.is_empty();
    // group keys
    let key_of = |r: &Row| -> Vec<Val> { q.group_by.iter().map(|g| eval(g, &scope, r).unwrap_or(Val::Null)).collect() };
    let mut groups: Vec<(Vec<Val>, Vec<&Row>)> = Vec::new();
    for r in &pass {
        let k = key_of(r);
        match groups.iter_mut().find(|(gk, _)| row_eq(gk, &k) ) {
            Some((_, v)) => v.push(r),
            None => groups.push((k, vec![r])),
        }
    }
    if !grouped {
        groups = vec![(vec![], pass.clone())];
    }
    if grouped && groups.iter().any(|(k, _)| k.iter().any(|v| v.is_null())) {
        tags.insert("group_by.null_key");
        nt = true;
    }
    if !grouped && pass.is_empty() {
        tags.insert("agg.no_group_empty_input");
        nt = true;
    }
    if q.filter.is_some() {
        tags.insert(if grouped { "group_by.with_where" } else { "agg.with_where" });
    }
    if q.group_by.len() >= 2 {
        tags.insert("group_by.two_keys");
    }
    for g in &q.group_by {
        if g.cls() == Cls::Bool {
            tags.insert("group_by.bool_key");
        }
        if let E::NCol { sel, .. } = g {
            if let Some((_, c, _)) = scope.pick(Cls::Num, *sel) {
                if c > 0 && case.table.cols[c - 1] == Ty::Double {
                    tags.insert("group_by.double_key");
                }
            }
        }
    }
    // select list shape
    let mut seen_agg = false;
    let mut fns: Vec<AggFn> = Vec::new();
    let mut nkeys_selected = 0;
    for it in &q.items {
        if it.e.has_agg() {
            seen_agg = true;
        } else {
            nkeys_selected += 1;
            if seen_agg {
                tags.insert("group_by.key_not_first");
            }
        }
    }
    if nkeys_selected < q.group_by.len() {
        tags.insert("group_by.key_not_selected");
    }
    if !seen_agg {
        tags.insert("agg.no_aggregate");
    }
    let mut all: Vec<&E> = q.items.iter().map(|i| &i.e).collect();
    if let Some(h) = &q.having {
        all.push(h);
        let mut listed = true;
        h.walk(&mut |n| {
            if matches!(n, E::Agg(..)) && !q.items.iter().any(|i| &i.e == n) {
                listed = false;
            }
        });
        if !listed {
            tags.insert("having.aggregate_not_in_select_list");
        }
    }
    let mut arg_kinds: BTreeSet<&'static str> = BTreeSet::new();
    for e in all {
        e.walk(&mut |n| {
            if let E::Agg(f, arg, distinct) = n {
                if fns.contains(f) {
                    tags.insert("agg.same_function_twice");
                }
                fns.push(*f);
                let Some(a) = arg else { return };
                if matches!(f, AggFn::CountStar) {
                    return;
                }
                let plain = match &**a {
                    E::NCol { .. } => true,
                    E::TCol { sel, .. } => scope.pick(Cls::Text, *sel).is_some(),
                    _ => false,
                };
                if !plain {
                    tags.insert("agg.arg_not_plain_column");
                }
                if let E::NCol { sel, .. } = &**a {
                    if let Some((_, c, _)) = scope.pick(Cls::Num, *sel) {
                        if c == 0 {
                            tags.insert("agg.arg_is_id");
                            arg_kinds.insert("int");
                        } else {
                            match case.table.cols[c - 1] {
                                Ty::Double => {
                                    arg_kinds.insert("float");
                                }
                                Ty::BigInt => {
                                    tags.insert("agg.bigint");
                                    arg_kinds.insert("int");
                                }
                                _ => {
                                    arg_kinds.insert("int");
                                }
                            }
                        }
                    }
                }
                if a.cls() == Cls::Text && matches!(f, AggFn::Min | AggFn::Max) {
                    tags.insert("agg.min_max_text");
                }
                if *distinct {
                    tags.insert("agg.count_distinct");
                }
                for (_, rs) in &groups {
                    let vals: Vec<Val> = rs.iter().map(|r| eval(a, &scope, r).unwrap_or(Val::Null)).collect();
                    let nulls = vals.iter().filter(|v| v.is_null()).count();
                    if nulls > 0 {
                        tags.insert("agg.null_input");
                        nt = true;
                        if matches!(f, AggFn::Count) {
                            tags.insert("agg.count_column_null_input");
                        }
                    }
                    if matches!(f, AggFn::Sum | AggFn::Avg | AggFn::Min | AggFn::Max) && nulls == vals.len() {
                        if matches!(f, AggFn::Sum) {
                            tags.insert("agg.sum_no_non_null_input");
                        }
                        tags.insert("agg.no_non_null_input");
                        nt = true;
                    }
                    if matches!(f, AggFn::Sum | AggFn::Avg) && nulls < vals.len() {
                        let s: f64 = vals
                            .iter()
                            .map(|v| match v {
                                Val::Int(i) => *i as f64,
                                Val::Float(f) => *f,
                                _ => 0.0,
                            })
                            .sum();
                        if s == 0.0 {
                            tags.insert(if matches!(f, AggFn::Sum) { "agg.sum_is_zero" } else { "agg.avg_sum_zero" });
                        }
                    }
                }
            }
        });
    }
    if arg_kinds.len() > 1 {
        tags.insert("agg.mixed_int_float_args");
    }
    if case.table.long_text && rows.iter().any(|r| r.iter().any(|v| matches!(v, Val::Text(s) if s.len() > 1000))) {
        let mut refs_text = false;
        let mut visit = |e: &E| {
            e.walk(&mut |n| {
                if matches!(n, E::TCol { .. }) {
                    refs_text = true;
                }
            })
        };
        q.items.iter().for_each(|i| visit(&i.e));
        q.group_by.iter().for_each(&mut visit);
        q.filter.iter().for_each(&mut visit);
        q.having.iter().for_each(&mut visit);
        if refs_text {
            tags.insert("text.toasted_value");
        }
    }
    (nt, groups.len() as u64)
}

impl C16 {
    fn go(&self, case: &Case, gates: &BTreeSet<String>) -> Outcome {
        let mut out = Outcome::ok();
        let schema = Schema { tables: vec![case.table.clone()] };
        let (sql, mut tags) = render(&schema, &case.q, Dialect::Turdb, false);
        let (lite, _) = render(&schema, &case.q, Dialect::Sqlite, false);
        let (nt, ngroups) = agg_tags(case, &schema, &mut tags);
        if let Some(g) = tags.iter().find(|t| gates.contains(**t)) {
            out.add_class(format!("gated:{}", g));
            return out;
        }
        let sigtags = tagstr(tags.iter().copied().filter(|t| self.all_tags || TRIGGERS.contains(t)));
        let w = match World::setup("C16", &schema) {
            Ok(w) => w,
            Err(_) => {
                out.add_class("setup_rejected");
                return out;
            }
        };
        let exp = match w.sqlite(&lite) {
            Ok(r) => r,
            Err(e) => {
                out.add_class("oracle_rejected");
                if std::env::var("VERIF_DEV_ORACLE").is_ok() {
                    eprintln!("sqlite rejects: {} -> {}", lite, e);
                }
                return out;
            }
        };
        for t in &tags {
            out.add_class(format!("tag:{}", t));
        }
        out.add_class(match ngroups {
            0 => "groups=0",
            1 => "groups=1",
            _ => "groups>1",
        });
        match w.turdb(&sql) {
            Ok(got) => {
                if let Some((kind, d)) = bag_mismatch(&exp, &got) {
                    let facet = if exp.len() != got.len() { "group_count" } else { "aggregate_value" };
                    out.set_fail(format!("C16|{}|{}|{}", facet, kind, sigtags), format!("{}\n  {}", sql, d));
                    return out;
                }
                out.add_class("checked");
            }
            Err(e) => {
                out.add_class(format!("rejected:{}", construct_of(&tags)));
                if std::env::var("VERIF_DEV_REJECTS").is_ok() {
                    eprintln!("rejected: {} -> {}", sql, e);
                }
                return out;
            }
        }
        if nt {
            out.add_class("nontrivial");
            out.nontrivial = Some(vcore::hash_of(&(sql, format!("{:?}", case.table))));
        }
        out
    }
}

impl Check for C16 {
    type Case = Case;
    fn run(&self, case: &Case) -> Outcome {
        self.go(case, &self.gates)
    }
    fn run_strict(&self, case: &Case) -> Outcome {
        self.go(case, &BTreeSet::new())
    }
}

pub fn agg_strategy(cfg: &GenCfg) -> BoxedStrategy<E> {
    let num = num_strategy(cfg, 1);
    let numcol = (any::<u8>()).prop_map(|sel| E::NCol { up: 0, sel });
    let textcol = (any::<u8>()).prop_map(|sel| E::TCol { up: 0, sel });
    let arg = if cfg.on("agg.arg_not_plain_column") { prop_oneof![5 => numcol.clone(), 1 => num.clone()].boxed() } else { numcol.clone().boxed() };
    let mut alts: Vec<(u32, BoxedStrategy<E>)> = vec![
        (3, Just(E::Agg(AggFn::CountStar, None, false)).boxed()),
        (3, prop_oneof![3 => arg.clone(), 1 => textcol.clone()].prop_map(|a| E::Agg(AggFn::Count, Some(Box::new(a)), false)).boxed()),
        (3, arg.clone().prop_map(|a| E::Agg(AggFn::Sum, Some(Box::new(a)), false)).boxed()),
        (2, arg.clone().prop_map(|a| E::Agg(AggFn::Avg, Some(Box::new(a)), false)).boxed()),
        (2, prop_oneof![3 => arg.clone(), 1 => textcol.clone()].prop_map(|a| E::Agg(AggFn::Min, Some(Box::new(a)), false)).boxed()),
        (2, prop_oneof![3 => arg.clone(), 1 => textcol.clone()].prop_map(|a| E::Agg(AggFn::Max, Some(Box::new(a)), false)).boxed()),
    ];
    if cfg.on("agg.count_distinct") {
        alts.push((1, prop_oneof![3 => numcol, 1 => textcol].prop_map(|a| E::Agg(AggFn::Count, Some(Box::new(a)), true)).boxed()));
    }
    proptest::strategy::Union::new_weighted(alts).boxed()
}

pub fn key_strategy(cfg: &GenCfg) -> BoxedStrategy<E> {
    let mut alts: Vec<(u32, BoxedStrategy<E>)> = vec![
        (6, any::<u8>().prop_map(|sel| E::NCol { up: 0, sel }).boxed()),
        (3, any::<u8>().prop_map(|sel| E::TCol { up: 0, sel }).boxed()),
        (1, any::<u8>().prop_map(|sel| E::BCol { up: 0, sel }).boxed()),
    ];
    if cfg.on("group_by.expression") {
        alts.push((2, (any::<u8>(), any::<i8>()).prop_map(|(sel, k)| E::Add(Box::new(E::NCol { up: 0, sel }), Box::new(E::ILit(k)))).boxed()));
    }
    proptest::strategy::Union::new_weighted(alts).boxed()
}

/// grouped / aggregated select over table 0
pub fn agg_select_strategy(cfg: &GenCfg) -> BoxedStrategy<Select> {
    let mut wcfg = cfg.clone();
    wcfg.depth = 2;
    let filter = if cfg.on("where") { prop_oneof![3 => Just(None), 2 => pred_strategy(&wcfg).prop_map(Some)].boxed() } else { Just(None).boxed() };
    // HAVING <aggregate> <op> <literal>: the aggregate is one of the select list's (by index) or a fresh one
    let fresh_ok = cfg.on("having.aggregate_not_in_select_list");
    let having = if cfg.on("having") {
        prop_oneof![
            4 => Just(None),
            2 => (any::<u8>(), prop_oneof![3 => Just(None), 1 => agg_strategy(cfg).prop_map(Some)], cmpop_strategy(), any::<i8>())
                .prop_map(move |(idx, fresh, op, k)| Some((idx, if fresh_ok { fresh } else { None }, op, k))),
        ]
        .boxed()
    } else {
        Just(None).boxed()
    };
    (
        proptest::collection::vec(key_strategy(cfg), 0..=2),
        proptest::collection::vec(agg_strategy(cfg), 1..=3),
        filter,
        having,
        any::<u8>(),
    )
        .prop_map(|(keys, aggs, filter, having, shape)| {
            let mut q = Select::table(0);
            q.filter = filter;
            // the bool key falls back to a constant when the table has no bool column: keep the
            // GROUP BY list and the select list in step by construction (same expressions)
            let mut items: Vec<Item> = Vec::new();
            let keys_in_list = shape % 8 != 7; // rarely: keys not selected
            let keys_first = shape % 4 != 3;
            if keys_in_list && keys_first {
                items.extend(keys.iter().map(|k| Item { e: k.clone(), alias: false }));
            }
            items.extend(aggs.into_iter().map(|a| Item { e: a, alias: false }));
            if keys_in_list && !keys_first {
                items.extend(keys.iter().map(|k| Item { e: k.clone(), alias: false }));
            }
            q.having = having.map(|(idx, fresh, op, k)| {
                let a = match fresh {
                    Some(a) => a,
                    None => {
                        let aggs: Vec<&Item> = items.iter().filter(|i| i.e.has_agg()).collect();
                        aggs[idx as usize % aggs.len()].e.clone()
                    }
                };
                let rhs = if a.cls() == Cls::Text { E::TLit(k as u8) } else { E::ILit(k) };
                E::Cmp(op, Box::new(a), Box::new(rhs))
            });
            q.items = items;
            q.group_by = keys;
            q
        })
        .boxed()
}

pub fn strategy(gates: &BTreeSet<String>, max_rows: usize) -> BoxedStrategy<Case> {
    let mut cfg = GenCfg::new(2);
    cfg.off = gates.clone();
    (table_strategy(max_rows, true), agg_select_strategy(&cfg)).prop_map(|(table, q)| Case { table, q }).boxed()
}

pub fn main(tier: Tier, replay: Option<String>) -> i32 {
    let findings = vcore::Findings::load_default();
    let gates: BTreeSet<String> = findings.closed_gates("C16").into_iter().collect();
    let check = C16 { gates: gates.clone(), all_tags: std::env::var("VERIF_DEV_ALLTAGS").is_ok() };
    if let Some(p) = replay {
        return vcore::replay_file("C16", &check, &p);
    }
    let ctx = Ctx::new("C16", tier, "exploration");
    ctx.set_rule(
        "one proptest-generated table (id + 1-5 columns INT/BIGINT/DOUBLE/TEXT/BOOLEAN, 0-40 rows from small pools, 20% NULLs) and one aggregate query: 0-2 GROUP BY keys \
         (columns of any type, col+k), 1-3 aggregates of COUNT(*), COUNT(x), COUNT(DISTINCT x), SUM, AVG, MIN, MAX over numeric columns / expressions or text columns, optional WHERE, \
         optional HAVING <aggregate> <op> <literal>; compared with SQLite as bags. Non-trivial = an aggregate argument is NULL for >= 1 input row, or the (ungrouped) input is empty, \
         or a group key is NULL; distinct by hash of (SQL text, table).",
    );
    ctx.assume("bundled SQLite implements SQL aggregate semantics on the generated subset (SUM/AVG/MIN/MAX of no non-NULL input is NULL, COUNT ignores NULLs, NULL keys form one group)");
    ctx.assume("sums cannot overflow; doubles are multiples of 0.5, so float sums are exact in any order; Bool is compared as 0/1");
    let cases = dev_cases(tier.pick(8000, 300_000));
    let g = gates.clone();
    vcore::drive(&ctx, &check, move || strategy(&g, 40), cases, 16);
    ctx.finish()
}
