//! refdb: the relational reference model for E-hist histories, and the renderer that turns
//! an `Op` into concrete SQL against the model's current schema.
//!
//! Only constructs whose SQL meaning is unambiguous are resolved to a statement; anything
//! else (`resolve` returns None) is skipped and counted by the caller.

use crate::hist::*;

#[derive(Debug, Clone, PartialEq, serde::Serialize, serde::Deserialize)]
pub struct MTable {
    /// rows were inserted at some point (tombstones may remain physically)
    pub ever_had_rows: bool,
    pub name: String,
    pub cols: Vec<ColSpec>,
    pub indexes: Vec<IndexSpec>,
    pub rows: Vec<Row>,
    /// largest value the AUTO_INCREMENT column has ever held (None: no such column)
    pub auto_hwm: i64,
}

impl MTable {
    pub fn from_spec(s: &TableSpec) -> MTable {
        let n = s.cols.len();
        let indexes = s
            .indexes
            .iter()
            .filter(|ix| !ix.cols.is_empty() && ix.cols.iter().all(|c| !matches!(s.cols[*c as usize % n].ty, Ty::Bool | Ty::Double)))
            .cloned()
            .collect();
        MTable { ever_had_rows: false, name: s.name.clone(), cols: s.cols.clone(), indexes, rows: vec![], auto_hwm: 0 }
    }
    pub fn col_names(&self) -> Vec<String> {
        self.cols.iter().map(|c| c.name.clone()).collect()
    }
    /// is column `ci` part of any index (any position)?
    pub fn indexed_any(&self, ci: usize) -> bool {
        self.cols[ci].pk || self.cols[ci].unique || self.indexes.iter().any(|ix| ix.cols.iter().any(|c| *c as usize % self.cols.len() == ci))
    }
    pub fn auto_col(&self) -> Option<usize> {
        self.cols.iter().position(|c| c.auto_inc)
    }
    /// columns that have an index of any kind (pk, unique, secondary leading column)
    pub fn indexed_cols(&self) -> Vec<usize> {
        let mut v: Vec<usize> = Vec::new();
        for (i, c) in self.cols.iter().enumerate() {
            if c.pk || c.unique {
                v.push(i);
            }
        }
        for ix in &self.indexes {
            if let Some(c) = ix.cols.first() {
                let c = *c as usize;
                if c < self.cols.len() {
                    v.push(c);
                }
            }
        }
        v.sort();
        v.dedup();
        v
    }
}

#[derive(Debug, Clone, PartialEq)]
pub enum Expect {
    /// statement succeeds; affected rows; RETURNING rows if requested (as a multiset)
    Ok { affected: Option<usize>, returning: Option<Vec<Row>> },
    /// statement must fail (constraint class for the report)
    Err(&'static str),
}

#[derive(Debug, Clone)]
pub struct Resolved {
    pub sql: String,
    pub kind: &'static str,
    pub expect: Expect,
    /// model tables after the statement if it succeeds
    pub after: Vec<MTable>,
    pub table: Option<String>,
    /// feature tags used for gates / signatures
    pub tags: Vec<&'static str>,
    /// txn-control effect
    pub txn: TxnEffect,
    /// lifecycle action instead of SQL
    pub lifecycle: Option<Lifecycle>,
    pub rows_touched: usize,
    /// INSERT only: the rows as written in the statement (all columns; NULL where the
    /// statement passes NULL or omits the column), and whether every column was listed
    pub input_rows: Vec<Row>,
    pub input_full: bool,
}

#[derive(Debug, Clone, Copy, PartialEq)]
pub enum Lifecycle {
    Checkpoint,
    Reopen,
    DropReopen,
}

#[derive(Debug, Clone, PartialEq)]
pub enum TxnEffect {
    None,
    Begin,
    Commit,
    Rollback,
    Savepoint(String),
    RollbackTo(String),
    Release(String),
}

#[derive(Debug, Clone)]
pub struct TxnState {
    pub at_begin: Vec<MTable>,
    pub savepoints: Vec<(String, Vec<MTable>)>,
    /// kinds of row-changing statements executed so far in this transaction, in order,
    /// with the savepoint depth at which they ran
    pub did: Vec<(&'static str, usize)>,
}

#[derive(Debug, Clone)]
pub struct Model {
    pub tables: Vec<MTable>,
    pub txn: Option<TxnState>,
    pub name_seq: u32,
    pub big: bool,
    /// names freed by DROP INDEX / DROP TABLE (table, index name): re-creating an object under a name that was
    /// used before is ordinary usage and exercises stale per-name state (open-file cache, catalog entries)
    pub dropped_indexes: Vec<(String, String)>,
    pub dropped_tables: Vec<String>,
}

/// value of a column DEFAULT selector. `neg_ok == false` keeps defaults non-negative
/// (gate `negative_default`).
pub fn default_val(ty: Ty, d: u8, neg_ok: bool) -> Val {
    let v = pool(ty, d, false);
    if !neg_ok {
        match &v {
            Val::Float(f) if *f < 0.0 => return Val::Float(-*f),
            Val::Int(i) if *i < 0 => return Val::Int(-*i),
            _ => {}
        }
    }
    v
}

thread_local! {
    /// set by the check's run() from its closed gates
    pub static NEG_DEFAULT_OK: std::cell::Cell<bool> = const { std::cell::Cell::new(true) };
}
fn neg_ok() -> bool {
    NEG_DEFAULT_OK.with(|c| c.get())
}

fn is_long(v: &Val) -> bool {
    matches!(v, Val::Text(s) if s.len() > 1000)
}

fn where_cols(w: &RWhere, out: &mut Vec<usize>) {
    match w {
        RWhere::All => {}
        RWhere::Cmp(c, _, _) | RWhere::IsNull(c, _) => out.push(*c),
        RWhere::And(a, b) | RWhere::Or(a, b) => {
            where_cols(a, out);
            where_cols(b, out);
        }
    }
}

fn where_has_long_literal(w: &RWhere) -> bool {
    match w {
        RWhere::Cmp(_, _, v) => is_long(v),
        RWhere::And(a, b) | RWhere::Or(a, b) => where_has_long_literal(a) || where_has_long_literal(b),
        _ => false,
    }
}

fn where_tags(tab: &MTable, w: &RWhere, tags: &mut Vec<&'static str>) {
    if where_has_long_literal(w) {
        tags.push("where_long_literal");
    }
    if !matches!(w, RWhere::All) && tab.rows.iter().any(|r| r.iter().all(|v| matches!(v, Val::Text(s) if s.is_empty()))) {
        tags.push("dml_where_over_row_of_only_empty_strings");
    }
    let mut cols = Vec::new();
    where_cols(w, &mut cols);
    if cols.iter().any(|c| tab.rows.iter().any(|r| is_long(&r[*c]))) {
        tags.push("where_on_column_holding_long_value");
    }
}

fn cmp_vals(a: &Val, b: &Val) -> Option<std::cmp::Ordering> {
    match (a, b) {
        (Val::Null, _) | (_, Val::Null) => None,
        (Val::Int(x), Val::Int(y)) => Some(x.cmp(y)),
        (Val::Float(x), Val::Float(y)) => x.partial_cmp(y),
        (Val::Int(x), Val::Float(y)) => (*x as f64).partial_cmp(y),
        (Val::Float(x), Val::Int(y)) => x.partial_cmp(&(*y as f64)),
        (Val::Text(x), Val::Text(y)) => Some(x.as_bytes().cmp(y.as_bytes())),
        (Val::Bool(x), Val::Bool(y)) => Some(x.cmp(y)),
        _ => None,
    }
}

/// three-valued evaluation: Some(true/false) or None (UNKNOWN)
pub fn eval_where(w: &RWhere, row: &Row) -> Option<bool> {
    match w {
        RWhere::All => Some(true),
        RWhere::Cmp(c, op, v) => {
            let o = cmp_vals(&row[*c], v)?;
            Some(match op {
                CmpOp::Eq => o.is_eq(),
                CmpOp::Ne => o.is_ne(),
                CmpOp::Lt => o.is_lt(),
                CmpOp::Le => o.is_le(),
                CmpOp::Gt => o.is_gt(),
                CmpOp::Ge => o.is_ge(),
            })
        }
        RWhere::IsNull(c, want_null) => Some(row[*c].is_null() == *want_null),
        RWhere::And(a, b) => match (eval_where(a, row), eval_where(b, row)) {
            (Some(false), _) | (_, Some(false)) => Some(false),
            (Some(true), Some(true)) => Some(true),
            _ => None,
        },
        RWhere::Or(a, b) => match (eval_where(a, row), eval_where(b, row)) {
            (Some(true), _) | (_, Some(true)) => Some(true),
            (Some(false), Some(false)) => Some(false),
            _ => None,
        },
    }
}

/// WHERE resolved against a table: column indices and concrete values
#[derive(Debug, Clone, PartialEq)]
pub enum RWhere {
    All,
    Cmp(usize, CmpOp, Val),
    IsNull(usize, bool),
    And(Box<RWhere>, Box<RWhere>),
    Or(Box<RWhere>, Box<RWhere>),
}

impl RWhere {
    pub fn sql(&self, t: &MTable) -> String {
        match self {
            RWhere::All => String::new(),
            RWhere::Cmp(c, op, v) => format!("{} {} {}", t.cols[*c].name, op.sql(), v.sql()),
            RWhere::IsNull(c, n) => format!("{} IS {}NULL", t.cols[*c].name, if *n { "" } else { "NOT " }),
            RWhere::And(a, b) => format!("({} AND {})", a.sql(t), b.sql(t)),
            RWhere::Or(a, b) => format!("({} OR {})", a.sql(t), b.sql(t)),
        }
    }
    pub fn has_or(&self) -> bool {
        match self {
            RWhere::Or(..) => true,
            RWhere::And(a, b) => a.has_or() || b.has_or(),
            _ => false,
        }
    }
}

/// Values above the TOAST threshold only go into columns that carry no index: index keys
/// of several KiB are a different property (key size limits), not what these histories target.
fn fit(tab: &MTable, ci: usize, v: Val, alt: &str) -> Val {
    if let Val::Text(s) = &v {
        if s.len() > 1000 && tab.indexed_any(ci) {
            return Val::Text(alt.into());
        }
    }
    v
}

impl Model {
    pub fn new(tables: &[TableSpec], big: bool) -> Model {
        let mut ts: Vec<MTable> = tables.iter().map(MTable::from_spec).collect();
        // FOREIGN KEYs reference the first table's integer primary key `id`; drop the
        // declaration where that does not exist (or on the first table itself)
        let parent_ok = ts.first().map(|t| t.cols.iter().any(|c| c.pk && c.ty == Ty::Int && !c.auto_inc)).unwrap_or(false);
        for (i, t) in ts.iter_mut().enumerate() {
            for c in t.cols.iter_mut() {
                if c.fk.is_some() && (i == 0 || !parent_ok || c.pk) {
                    c.fk = None;
                }
            }
        }
        Model { tables: ts, txn: None, name_seq: 0, big, dropped_indexes: vec![], dropped_tables: vec![] }
    }

    fn parent_keys(&self) -> Vec<i64> {
        let Some(p) = self.tables.first() else { return vec![] };
        let Some(ci) = p.cols.iter().position(|c| c.pk) else { return vec![] };
        p.rows.iter().filter_map(|r| if let Val::Int(i) = &r[ci] { Some(*i) } else { None }).collect()
    }

    /// CHECK and FOREIGN KEY verdict for a row written into table `ti`
    fn check_row_semantic(&self, ti: usize, row: &Row, tags: &mut Vec<&'static str>) -> Result<(), &'static str> {
        let tab = &self.tables[ti];
        for (i, c) in tab.cols.iter().enumerate() {
            if let Some(ch) = &c.check {
                tags.push("check_column_written");
                if ch.has_eq_ne() {
                    tags.push("check_with_eq_or_ne");
                }
                if ch.has_or() {
                    tags.push("check_with_or");
                }
                if c.ty == Ty::Text {
                    tags.push("check_on_text_column");
                }
                if ch.eval(c.ty, &row[i]) == Some(false) {
                    return Err("check");
                }
            }
            if c.fk.is_some() {
                tags.push("fk_child_written");
                if let Val::Int(v) = &row[i] {
                    if !self.parent_keys().contains(v) {
                        return Err("foreign_key");
                    }
                }
            }
        }
        Ok(())
    }

    fn has_fk(&self) -> bool {
        self.tables.iter().any(|t| t.cols.iter().any(|c| c.fk.is_some()))
    }

    pub fn create_sql(t: &MTable) -> Vec<String> {
        let mut cols = Vec::new();
        for c in &t.cols {
            let mut s = format!("{} {}", c.name, c.ty.sql());
            if c.pk {
                s.push_str(" PRIMARY KEY");
            }
            if c.auto_inc {
                s.push_str(" AUTO_INCREMENT");
            }
            if c.not_null {
                s.push_str(" NOT NULL");
            }
            if c.unique {
                s.push_str(" UNIQUE");
            }
            if let Some(d) = c.default {
                s.push_str(&format!(" DEFAULT {}", default_val(c.ty, d, neg_ok()).sql()));
            }
            if let Some(ch) = &c.check {
                s.push_str(&format!(" CHECK ({})", ch.sql(&c.name, c.ty)));
            }
            if let Some(a) = c.fk {
                s.push_str(" REFERENCES t0(id)");
                match a {
                    FkAction::NoAction => {}
                    FkAction::Restrict => s.push_str(" ON DELETE RESTRICT"),
                    FkAction::Cascade => s.push_str(" ON DELETE CASCADE"),
                }
            }
            cols.push(s);
        }
        let mut out = vec![format!("CREATE TABLE {} ({})", t.name, cols.join(", "))];
        for ix in &t.indexes {
            out.push(Self::index_sql(t, ix));
        }
        out
    }

    pub fn index_sql(t: &MTable, ix: &IndexSpec) -> String {
        let cols: Vec<String> = ix.cols.iter().map(|c| t.cols[*c as usize % t.cols.len()].name.clone()).collect();
        format!("CREATE {}INDEX {} ON {} ({})", if ix.unique { "UNIQUE " } else { "" }, ix.name, t.name, cols.join(", "))
    }

    fn resolve_where(&self, t: &MTable, w: &Where) -> RWhere {
        let n = t.cols.len();
        match w {
            Where::All => RWhere::All,
            Where::Cmp(c, op, v) => {
                let ci = *c as usize % n;
                let ty = t.cols[ci].ty;
                let op = if ty == Ty::Bool && !matches!(op, CmpOp::Eq | CmpOp::Ne) { CmpOp::Eq } else { *op };
                RWhere::Cmp(ci, op, pool(ty, *v, self.big))
            }
            Where::IsNull(c, nn) => RWhere::IsNull(*c as usize % n, *nn),
            Where::And(a, b) => match (self.resolve_where(t, a), self.resolve_where(t, b)) {
                (RWhere::All, x) | (x, RWhere::All) => x,
                (x, y) => RWhere::And(Box::new(x), Box::new(y)),
            },
            Where::Or(a, b) => match (self.resolve_where(t, a), self.resolve_where(t, b)) {
                (RWhere::All, _) | (_, RWhere::All) => RWhere::All,
                (x, y) => RWhere::Or(Box::new(x), Box::new(y)),
            },
        }
    }

    fn table_index(&self, sel: u8) -> Option<usize> {
        if self.tables.is_empty() {
            None
        } else {
            Some(sel as usize % self.tables.len())
        }
    }

    /// unique key sets of a table: (column index list) for pk, unique columns, unique indexes
    fn unique_keys(t: &MTable) -> Vec<Vec<usize>> {
        let mut v = Vec::new();
        for (i, c) in t.cols.iter().enumerate() {
            if c.pk || c.unique {
                v.push(vec![i]);
            }
        }
        for ix in &t.indexes {
            if ix.unique {
                v.push(ix.cols.iter().map(|c| *c as usize % t.cols.len()).collect());
            }
        }
        v
    }

    fn check_row_local(t: &MTable, row: &Row) -> Result<(), &'static str> {
        for (i, c) in t.cols.iter().enumerate() {
            if (c.not_null || c.pk) && row[i].is_null() {
                return Err(if c.pk { "pk_null" } else { "not_null" });
            }
        }
        Ok(())
    }

    fn violates_unique(t: &MTable, rows: &[Row]) -> bool {
        for key in Self::unique_keys(t) {
            let mut seen: Vec<Vec<&Val>> = Vec::new();
            for r in rows {
                let k: Vec<&Val> = key.iter().map(|i| &r[*i]).collect();
                if k.iter().any(|v| v.is_null()) {
                    continue;
                }
                if seen.iter().any(|s| *s == k) {
                    return true;
                }
                seen.push(k);
            }
        }
        false
    }

    pub fn in_txn(&self) -> bool {
        self.txn.is_some()
    }

    /// Resolve an op against the current model state. None = not applicable in this state.
    pub fn resolve(&mut self, op: &Op) -> Option<Resolved> {
        let mut r = Resolved {
            sql: String::new(),
            kind: op.kind(),
            expect: Expect::Ok { affected: None, returning: None },
            after: self.tables.clone(),
            table: None,
            tags: vec![],
            txn: TxnEffect::None,
            lifecycle: None,
            rows_touched: 0,
            input_rows: vec![],
            input_full: false,
        };
        match op {
            Op::Insert { t, with_cols, skip, rows, returning } => {
                let ti = self.table_index(*t)?;
                let tab = &self.tables[ti];
                let n = tab.cols.len();
                // column list: all columns, or all but one (which then takes DEFAULT/NULL/auto)
                let mut listed: Vec<usize> = (0..n).collect();
                let auto = tab.auto_col();
                if *with_cols {
                    let s = *skip as usize % (n + 1);
                    // a PRIMARY KEY column is only omitted when it is generated (NULL primary keys are
                    // dialect-dependent and the property does not speak about them)
                    if s < n && n > 1 && (!tab.cols[s].pk || tab.cols[s].auto_inc) {
                        listed.remove(s);
                    }
                } else if let Some(a) = auto {
                    // auto column is normally omitted
                    if *skip % 4 != 0 && n > 1 {
                        listed.retain(|c| *c != a);
                    }
                }
                let use_list = listed.len() != n || *with_cols;
                let mut new_rows: Vec<Row> = Vec::new();
                let mut rendered_rows: Vec<String> = Vec::new();
                let mut hwm = tab.auto_hwm;
                let mut explicit_seen = false;
                for vs in rows {
                    let mut row: Row = Vec::with_capacity(n);
                    let mut rendered: Vec<String> = Vec::new();
                    for (ci, c) in tab.cols.iter().enumerate() {
                        if listed.contains(&ci) {
                            let mut v = pool(c.ty, vs[ci % vs.len()], self.big);
                            if c.pk && !c.auto_inc && v.is_null() {
                                v = pool(c.ty, 0, false);
                            }
                            if v.is_null() && c.default.is_some() && !c.auto_inc {
                                r.tags.push("explicit_null_into_default_column");
                            }
                            v = fit(tab, ci, v, "a");
                            if matches!(&v, Val::Text(s) if s.is_empty()) && tab.indexed_any(ci) {
                                r.tags.push("empty_string_in_indexed_column");
                            }
                            if matches!(&v, Val::Text(s) if s.len() > 1000) {
                                r.tags.push("long_value");
                            }
                            if c.auto_inc {
                                // explicit ids for an AUTO_INCREMENT column stay positive (TurDB documents
                                // by its error message that negative ids are refused; not part of the property)
                                if let Val::Int(i) = &v {
                                    if *i <= 0 {
                                        v = Val::Int(1 - *i);
                                    }
                                }
                                match &v {
                                    Val::Null => {
                                        if explicit_seen {
                                            r.tags.push("auto_inc_generated_after_explicit_id_in_same_statement");
                                        }
                                        hwm += 1;
                                        v = Val::Int(hwm);
                                        rendered.push("NULL".into());
                                        row.push(v);
                                        r.tags.push("auto_inc_explicit_null");
                                        continue;
                                    }
                                    Val::Int(i) => {
                                        if *i > hwm {
                                            hwm = *i;
                                        }
                                        explicit_seen = true;
                                        r.tags.push("auto_inc_explicit");
                                    }
                                    _ => {}
                                }
                            }
                            rendered.push(v.sql());
                            row.push(v);
                        } else if c.auto_inc {
                            hwm += 1;
                            row.push(Val::Int(hwm));
                            r.tags.push("auto_inc_generated");
                        } else if let Some(d) = c.default {
                            let dv = default_val(c.ty, d, neg_ok());
                            if matches!(&dv, Val::Float(f) if *f < 0.0) || matches!(&dv, Val::Int(i) if *i < 0) {
                                r.tags.push("negative_default");
                            }
                            row.push(dv);
                            r.tags.push("default_used");
                        } else {
                            row.push(Val::Null);
                        }
                    }
                    rendered_rows.push(format!("({})", rendered.join(", ")));
                    if listed.len() == n {
                        // input row = what the statement passes (NULL for a generated id)
                        let mut inp = row.clone();
                        for (ci, c) in tab.cols.iter().enumerate() {
                            if c.auto_inc && rendered[ci] == "NULL" {
                                inp[ci] = Val::Null;
                            }
                        }
                        r.input_rows.push(inp);
                    }
                    new_rows.push(row);
                }
                let col_list = if use_list {
                    format!(" ({})", listed.iter().map(|c| tab.cols[*c].name.clone()).collect::<Vec<_>>().join(", "))
                } else {
                    String::new()
                };
                r.input_full = listed.len() == n;
                r.sql = format!("INSERT INTO {}{} VALUES {}{}", tab.name, col_list, rendered_rows.join(", "), if *returning { " RETURNING *" } else { "" });
                r.table = Some(tab.name.clone());
                if new_rows.len() > 1 {
                    r.tags.push("multi_row");
                }
                if *returning && new_rows.iter().any(|row| row.iter().any(is_long)) {
                    r.tags.push("returning_long_value");
                }
                // verdict
                let mut err: Option<&'static str> = None;
                let mut fail_at = 0usize;
                let mut all = tab.rows.clone();
                let mut sem_tags: Vec<&'static str> = Vec::new();
                for (k, row) in new_rows.iter().enumerate() {
                    if let Err(e) = Self::check_row_local(tab, row).and_then(|_| self.check_row_semantic(ti, row, &mut sem_tags)) {
                        err = Some(e);
                        fail_at = k;
                        break;
                    }
                    all.push(row.clone());
                    if Self::violates_unique(tab, &all) {
                        err = Some("unique");
                        fail_at = k;
                        break;
                    }
                }
                r.tags.extend(sem_tags);
                if ti == 0 && self.has_fk() && new_rows.len() > 1 {
                    r.tags.push("fk_parent_multi_row_insert");
                }
                if let Some(e) = err {
                    r.expect = Expect::Err(e);
                    if fail_at >= 1 {
                        r.tags.push("fails_after_first_row");
                    }
                } else {
                    r.expect = Expect::Ok { affected: Some(new_rows.len()), returning: if *returning { Some(new_rows.clone()) } else { None } };
                    r.after[ti].rows = all;
                    r.after[ti].auto_hwm = hwm;
                    r.after[ti].ever_had_rows = true;
                }
                r.rows_touched = new_rows.len();
                Some(r)
            }
            Op::Update { t, sets, wh, returning } => {
                let ti = self.table_index(*t)?;
                let tab = &self.tables[ti];
                let n = tab.cols.len();
                let w = self.resolve_where(tab, wh);
                // resolve SET list (distinct columns)
                let mut rsets: Vec<(usize, Option<Val>, i8)> = Vec::new(); // (col, literal | None=AddK, k)
                for (c, e) in sets {
                    let ci = *c as usize % n;
                    if rsets.iter().any(|s| s.0 == ci) {
                        continue;
                    }
                    let col = &tab.cols[ci];
                    if col.auto_inc {
                        continue;
                    }
                    match e {
                        SetExpr::Lit(v) => {
                            let mut val = pool(col.ty, *v, self.big);
                            if col.pk && val.is_null() {
                                val = pool(col.ty, 1, false);
                            }
                            val = fit(tab, ci, val, "b");
                            if matches!(&val, Val::Text(s) if s.len() > 1000) {
                                r.tags.push("long_value");
                                r.tags.push("update_sets_long_value");
                            }
                            if matches!(&val, Val::Text(s) if s.is_empty()) && tab.indexed_any(ci) {
                                r.tags.push("empty_string_in_indexed_column");
                            }
                            rsets.push((ci, Some(val), 0))
                        }
                        SetExpr::AddK(k) => {
                            if matches!(col.ty, Ty::Int | Ty::BigInt | Ty::Double) {
                                rsets.push((ci, None, *k));
                                r.tags.push("set_arith");
                            } else {
                                rsets.push((ci, Some(pool(col.ty, (*k as u8) % 10, self.big)), 0));
                            }
                        }
                    }
                }
                if rsets.is_empty() {
                    return None;
                }
                if rsets.iter().any(|s| tab.cols[s.0].pk || tab.cols[s.0].unique) {
                    r.tags.push("set_key_column");
                }
                if rsets.iter().any(|s| matches!(&s.1, Some(Val::Text(t)) if t.is_empty()) && tab.indexed_any(s.0)) {
                    r.tags.push("empty_string_in_indexed_column");
                }
                if rsets.iter().any(|s| tab.indexed_cols().contains(&s.0)) {
                    r.tags.push("set_indexed_column");
                }
                let set_sql: Vec<String> = rsets
                    .iter()
                    .map(|(ci, lit, k)| {
                        let name = &tab.cols[*ci].name;
                        match lit {
                            Some(v) => format!("{} = {}", name, v.sql()),
                            None => {
                                let kk = if tab.cols[*ci].ty == Ty::Double { format!("{}.0", k.abs()) } else { k.abs().to_string() };
                                format!("{} = {} {} {}", name, name, if *k < 0 { "-" } else { "+" }, kk)
                            }
                        }
                    })
                    .collect();
                let wsql = w.sql(tab);
                r.sql = format!(
                    "UPDATE {} SET {}{}{}",
                    tab.name,
                    set_sql.join(", "),
                    if wsql.is_empty() { String::new() } else { format!(" WHERE {}", wsql) },
                    if *returning { " RETURNING *" } else { "" }
                );
                r.table = Some(tab.name.clone());
                if w.has_or() {
                    r.tags.push("where_or");
                }
                where_tags(tab, &w, &mut r.tags);
                let mut rows = tab.rows.clone();
                let mut touched: Vec<usize> = Vec::new();
                let mut arith_null = false;
                for (i, row) in rows.iter_mut().enumerate() {
                    if eval_where(&w, row) == Some(true) {
                        touched.push(i);
                        let old = row.clone();
                        for (ci, lit, k) in &rsets {
                            row[*ci] = match lit {
                                Some(v) => v.clone(),
                                None => match &old[*ci] {
                                    Val::Int(x) => Val::Int(x + *k as i64),
                                    Val::Float(x) => Val::Float(x + *k as f64),
                                    Val::Null => {
                                        arith_null = true;
                                        Val::Null
                                    }
                                    o => o.clone(),
                                },
                            };
                        }
                    }
                }
                if arith_null {
                    r.tags.push("arith_on_null");
                }
                if touched.len() > 1 {
                    r.tags.push("multi_row");
                }
                if *returning {
                    if touched.iter().any(|i| rows[*i].iter().any(is_long)) {
                        r.tags.push("returning_long_value");
                    }
                    if tab.cols.iter().any(|c| c.ty == Ty::Bool) && !touched.is_empty() {
                        r.tags.push("returning_bool_from_update_or_delete");
                    }
                }
                // arithmetic on a unique key where a new value equals another touched row's old value
                for (ci, lit, _) in &rsets {
                    if lit.is_none() && (tab.cols[*ci].pk || tab.cols[*ci].unique) && touched.len() > 1 {
                        let olds: Vec<&Val> = touched.iter().map(|i| &tab.rows[*i][*ci]).collect();
                        if touched.iter().any(|i| !rows[*i][*ci].is_null() && olds.contains(&&rows[*i][*ci]) && rows[*i][*ci] != tab.rows[*i][*ci]) {
                            r.tags.push("key_shift_overlaps_old_keys");
                        }
                    }
                }
                r.rows_touched = touched.len();
                // verdict: end-of-statement semantics; statements whose verdict differs between
                // end-of-statement and row-at-a-time checking are not generated (ambiguous)
                let mut final_err: Option<&'static str> = None;
                let mut sem_tags: Vec<&'static str> = Vec::new();
                for i in &touched {
                    if let Err(e) = Self::check_row_local(tab, &rows[*i]).and_then(|_| self.check_row_semantic(ti, &rows[*i], &mut sem_tags)) {
                        final_err = Some(e);
                    }
                }
                if sem_tags.contains(&"fk_child_written") {
                    r.tags.push("fk_child_updated");
                }
                r.tags.extend(sem_tags);
                // the parent key of a referenced row may not change (ON UPDATE NO ACTION)
                if ti == 0 && self.has_fk() {
                    if let Some(pk) = tab.cols.iter().position(|c| c.pk) {
                        let referenced: Vec<i64> = self
                            .tables
                            .iter()
                            .skip(1)
                            .flat_map(|t| {
                                t.cols.iter().enumerate().filter(|(_, c)| c.fk.is_some()).flat_map(move |(ci, _)| t.rows.iter().filter_map(move |r| if let Val::Int(v) = &r[ci] { Some(*v) } else { None })).collect::<Vec<_>>()
                            })
                            .collect();
                        for i in &touched {
                            if tab.rows[*i][pk] != rows[*i][pk] {
                                r.tags.push("update_parent_key_with_fk_children");
                                if let Val::Int(old) = &tab.rows[*i][pk] {
                                    if referenced.contains(old) && final_err.is_none() {
                                        final_err = Some("fk_parent_update");
                                    }
                                }
                            }
                        }
                    }
                }
                if final_err.is_none() && Self::violates_unique(tab, &rows) {
                    final_err = Some("unique");
                }
                // row-at-a-time simulation
                #[allow(unused_assignments)]
                let mut seq_err = false;
                {
                    let mut cur = tab.rows.clone();
                    for i in &touched {
                        cur[*i] = rows[*i].clone();
                        if Self::check_row_local(tab, &cur[*i]).is_err() || Self::violates_unique(tab, &cur) {
                            seq_err = true;
                            break;
                        }
                    }
                }
                if matches!(final_err, Some("check") | Some("foreign_key") | Some("fk_parent_update")) {
                    seq_err = true;
                }
                if seq_err != final_err.is_some() {
                    return None; // ambiguous between checking disciplines
                }
                if let Some(e) = final_err {
                    r.expect = Expect::Err(e);
                    if touched.len() >= 2 {
                        r.tags.push("fails_after_first_row");
                    }
                } else {
                    let ret: Vec<Row> = touched.iter().map(|i| rows[*i].clone()).collect();
                    r.expect = Expect::Ok { affected: Some(touched.len()), returning: if *returning { Some(ret) } else { None } };
                    r.after[ti].rows = rows;
                }
                Some(r)
            }
            Op::Delete { t, wh, returning } => {
                let ti = self.table_index(*t)?;
                let tab = &self.tables[ti];
                let w = self.resolve_where(tab, wh);
                let wsql = w.sql(tab);
                r.sql = format!("DELETE FROM {}{}{}", tab.name, if wsql.is_empty() { String::new() } else { format!(" WHERE {}", wsql) }, if *returning { " RETURNING *" } else { "" });
                r.table = Some(tab.name.clone());
                if w.has_or() {
                    r.tags.push("where_or");
                }
                where_tags(tab, &w, &mut r.tags);
                let mut kept = Vec::new();
                let mut gone = Vec::new();
                for row in &tab.rows {
                    if eval_where(&w, row) == Some(true) {
                        gone.push(row.clone());
                    } else {
                        kept.push(row.clone());
                    }
                }
                r.rows_touched = gone.len();
                let mut fk_err = false;
                if ti == 0 && self.has_fk() && !gone.is_empty() {
                    if let Some(pk) = tab.cols.iter().position(|c| c.pk) {
                        let gone_keys: Vec<i64> = gone.iter().filter_map(|row| if let Val::Int(v) = &row[pk] { Some(*v) } else { None }).collect();
                        // restrict / no action first
                        for t in self.tables.iter().skip(1) {
                            for (ci, c) in t.cols.iter().enumerate() {
                                if matches!(c.fk, Some(FkAction::NoAction) | Some(FkAction::Restrict)) && t.rows.iter().any(|row| matches!(&row[ci], Val::Int(v) if gone_keys.contains(v))) {
                                    fk_err = true;
                                    r.tags.push("fk_parent_delete_restricted");
                                }
                            }
                        }
                        if !fk_err {
                            for (tj, t) in self.tables.iter().enumerate().skip(1) {
                                for (ci, c) in t.cols.iter().enumerate() {
                                    if c.fk == Some(FkAction::Cascade) {
                                        let before = r.after[tj].rows.len();
                                        r.after[tj].rows.retain(|row| !matches!(&row[ci], Val::Int(v) if gone_keys.contains(v)));
                                        if r.after[tj].rows.len() != before {
                                            r.tags.push("fk_parent_delete_cascades");
                                        }
                                    }
                                }
                            }
                        }
                    }
                }
                if fk_err {
                    r.after = self.tables.clone();
                    r.expect = Expect::Err("fk_restrict");
                    return Some(r);
                }
                if *returning && !gone.is_empty() {
                    if gone.iter().any(|row| row.iter().any(is_long)) {
                        r.tags.push("returning_long_value");
                    }
                    if tab.cols.iter().any(|c| c.ty == Ty::Bool) {
                        r.tags.push("returning_bool_from_update_or_delete");
                    }
                }
                r.expect = Expect::Ok { affected: Some(gone.len()), returning: if *returning { Some(gone) } else { None } };
                r.after[ti].rows = kept;
                Some(r)
            }
            Op::Truncate { t } => {
                let ti = self.table_index(*t)?;
                if self.in_txn() {
                    return None;
                }
                let tab = &self.tables[ti];
                if self.has_fk() {
                    return None;
                }
                if tab.ever_had_rows {
                    r.tags.push("truncate_table_with_rows");
                }
                r.sql = format!("TRUNCATE TABLE {}", tab.name);
                r.table = Some(tab.name.clone());
                r.rows_touched = tab.rows.len();
                r.expect = Expect::Ok { affected: None, returning: None };
                r.after[ti].rows.clear();
                Some(r)
            }
            Op::Begin => {
                if self.in_txn() {
                    return None;
                }
                r.sql = "BEGIN".into();
                r.txn = TxnEffect::Begin;
                Some(r)
            }
            Op::Commit => {
                if !self.in_txn() {
                    return None;
                }
                r.sql = "COMMIT".into();
                r.txn = TxnEffect::Commit;
                Some(r)
            }
            Op::Rollback => {
                let t = self.txn.as_ref()?;
                r.sql = "ROLLBACK".into();
                r.txn = TxnEffect::Rollback;
                r.after = t.at_begin.clone();
                for (tag, _) in &t.did {
                    r.tags.push(tag);
                }
                Some(r)
            }
            Op::Savepoint(n) => {
                let t = self.txn.as_ref()?;
                let name = format!("sp{}", n);
                if t.savepoints.iter().any(|s| s.0 == name) {
                    return None;
                }
                r.sql = format!("SAVEPOINT {}", name);
                r.txn = TxnEffect::Savepoint(name);
                Some(r)
            }
            Op::RollbackTo(n) => {
                let t = self.txn.as_ref()?;
                let name = format!("sp{}", n);
                let pos = t.savepoints.iter().position(|s| s.0 == name)?;
                let sp = &t.savepoints[pos];
                r.sql = format!("ROLLBACK TO SAVEPOINT {}", name);
                r.after = sp.1.clone();
                for (tag, depth) in &t.did {
                    if *depth > pos {
                        r.tags.push(tag);
                    }
                }
                r.txn = TxnEffect::RollbackTo(name);
                Some(r)
            }
            Op::Release(n) => {
                let t = self.txn.as_ref()?;
                let name = format!("sp{}", n);
                t.savepoints.iter().find(|s| s.0 == name)?;
                r.sql = format!("RELEASE SAVEPOINT {}", name);
                r.txn = TxnEffect::Release(name);
                Some(r)
            }
            Op::CreateIndex { t, cols, unique } => {
                if self.in_txn() {
                    return None;
                }
                let ti = self.table_index(*t)?;
                let tab = &self.tables[ti];
                let n = tab.cols.len();
                let mut cs: Vec<u8> = cols.iter().map(|c| (*c as usize % n) as u8).collect();
                cs.dedup();
                if cs.len() == 2 && cs[0] == cs[1] {
                    cs.pop();
                }
                // double / bool index keys are outside the generated subset
                if cs.iter().any(|c| matches!(tab.cols[*c as usize].ty, Ty::Bool | Ty::Double)) {
                    return None;
                }
                if tab.rows.iter().any(|row| cs.iter().any(|c| matches!(&row[*c as usize], Val::Text(s) if s.len() > 1000))) {
                    return None;
                }
                // every other CREATE INDEX takes a name that a DROP INDEX on this table freed, if there is one
                let reuse = if cols.first().map(|c| c % 2 == 1).unwrap_or(false) { self.dropped_indexes.iter().rposition(|(t, _)| *t == tab.name) } else { None };
                let name = match reuse {
                    Some(i) => {
                        r.tags.push("reuses_dropped_index_name");
                        self.dropped_indexes[i].1.clone()
                    }
                    None => {
                        self.name_seq += 1;
                        format!("ix_{}_n{}", tab.name, self.name_seq)
                    }
                };
                let ix = IndexSpec { name, cols: cs, unique: *unique };
                r.sql = Self::index_sql(tab, &ix);
                r.table = Some(tab.name.clone());
                r.after[ti].indexes.push(ix);
                if !tab.rows.is_empty() {
                    r.tags.push("index_backfill");
                }
                Some(r)
            }
            Op::DropIndex { t, i } => {
                if self.in_txn() {
                    return None;
                }
                let ti = self.table_index(*t)?;
                let tab = &self.tables[ti];
                if tab.indexes.is_empty() {
                    return None;
                }
                let ii = *i as usize % tab.indexes.len();
                r.sql = format!("DROP INDEX {}", tab.indexes[ii].name);
                r.table = Some(tab.name.clone());
                r.after[ti].indexes.remove(ii);
                Some(r)
            }
            Op::AddColumn { t, ty, default } => {
                if self.in_txn() {
                    return None;
                }
                let ti = self.table_index(*t)?;
                let tab = &self.tables[ti];
                if tab.cols.len() >= 8 {
                    return None;
                }
                if tab.ever_had_rows {
                    r.tags.push("add_column_to_table_with_rows");
                }
                self.name_seq += 1;
                let name = format!("n{}", self.name_seq);
                let col = ColSpec { name: name.clone(), ty: *ty, pk: false, unique: false, not_null: false, auto_inc: false, default: *default, check: None, fk: None };
                r.sql = format!("ALTER TABLE {} ADD COLUMN {} {}{}", tab.name, name, ty.sql(), match default {
                    Some(d) => format!(" DEFAULT {}", default_val(*ty, *d, neg_ok()).sql()),
                    None => String::new(),
                });
                r.table = Some(tab.name.clone());
                if default.is_some() && !tab.rows.is_empty() {
                    // "read as their default or NULL": which of the two existing rows show is not
                    // fixed by the property, so the model cannot predict it -> not generated
                    return None;
                }
                let dv = match default {
                    Some(d) => default_val(*ty, *d, neg_ok()),
                    None => Val::Null,
                };
                r.after[ti].cols.push(col);
                for row in r.after[ti].rows.iter_mut() {
                    row.push(dv.clone());
                }
                Some(r)
            }
            Op::DropColumn { t, c } => {
                if self.in_txn() {
                    return None;
                }
                let ti = self.table_index(*t)?;
                let tab = &self.tables[ti];
                if tab.cols.len() <= 1 {
                    return None;
                }
                let ci = *c as usize % tab.cols.len();
                let col = &tab.cols[ci];
                // dropping key or indexed columns is outside the generated subset
                if col.fk.is_some() || col.check.is_some() || col.pk || col.unique || col.auto_inc || tab.indexes.iter().any(|ix| ix.cols.iter().any(|x| *x as usize % tab.cols.len() == ci)) {
                    return None;
                }
                if tab.ever_had_rows {
                    r.tags.push("drop_column_with_rows");
                }
                r.sql = format!("ALTER TABLE {} DROP COLUMN {}", tab.name, col.name);
                r.table = Some(tab.name.clone());
                r.after[ti].cols.remove(ci);
                for row in r.after[ti].rows.iter_mut() {
                    row.remove(ci);
                }
                // index column selectors are positions: re-map the ones after the dropped column
                let ncols_old = tab.cols.len();
                for ix in r.after[ti].indexes.iter_mut() {
                    for x in ix.cols.iter_mut() {
                        let old = *x as usize % ncols_old;
                        *x = if old > ci { (old - 1) as u8 } else { old as u8 };
                    }
                }
                Some(r)
            }
            Op::RenameColumn { t, c } => {
                if self.in_txn() {
                    return None;
                }
                let ti = self.table_index(*t)?;
                let tab = &self.tables[ti];
                let ci = *c as usize % tab.cols.len();
                if tab.cols[ci].fk.is_some() || tab.cols[ci].check.is_some() || (ti == 0 && tab.cols[ci].pk && self.has_fk()) {
                    return None;
                }
                self.name_seq += 1;
                let new = format!("r{}", self.name_seq);
                r.sql = format!("ALTER TABLE {} RENAME COLUMN {} TO {}", tab.name, tab.cols[ci].name, new);
                r.table = Some(tab.name.clone());
                if tab.indexed_any(ci) {
                    r.tags.push("rename_indexed_column");
                }
                r.after[ti].cols[ci].name = new;
                Some(r)
            }
            Op::CreateTable(spec) => {
                if self.in_txn() || self.tables.len() >= 4 {
                    return None;
                }
                let mut s = spec.clone();
                if spec.cols.len() % 2 == 1 && !self.dropped_tables.is_empty() {
                    s.name = self.dropped_tables.last().cloned().unwrap();
                    r.tags.push("reuses_dropped_table_name");
                } else {
                    self.name_seq += 1;
                    s.name = format!("tn{}", self.name_seq);
                }
                for (k, ix) in s.indexes.iter_mut().enumerate() {
                    ix.name = format!("ix_{}_{}", s.name, k);
                }
                let mt = MTable::from_spec(&s);
                let sqls = Self::create_sql(&mt);
                r.sql = sqls.join(";\n");
                r.table = Some(s.name.clone());
                r.after.push(mt);
                Some(r)
            }
            Op::DropTable { t } => {
                if self.in_txn() || self.tables.len() <= 1 || self.has_fk() {
                    return None;
                }
                let ti = self.table_index(*t)?;
                r.sql = format!("DROP TABLE {}", self.tables[ti].name);
                r.table = Some(self.tables[ti].name.clone());
                r.after.remove(ti);
                Some(r)
            }
            Op::Checkpoint | Op::PragmaCheckpoint => {
                if self.in_txn() {
                    return None;
                }
                if matches!(op, Op::PragmaCheckpoint) {
                    r.sql = "PRAGMA wal_checkpoint".into();
                } else {
                    r.lifecycle = Some(Lifecycle::Checkpoint);
                }
                Some(r)
            }
            Op::Reopen => {
                if self.in_txn() {
                    return None;
                }
                r.lifecycle = Some(Lifecycle::Reopen);
                Some(r)
            }
            Op::DropReopen => {
                if let Some(t) = &self.txn {
                    // dropping the handle with an open transaction = implicit rollback
                    r.lifecycle = Some(Lifecycle::DropReopen);
                    r.txn = TxnEffect::Rollback;
                    r.after = t.at_begin.clone();
                    r.tags.push("drop_handle_in_txn");
                    for (tag, _) in &t.did {
                        r.tags.push(tag);
                    }
                    return Some(r);
                }
                r.lifecycle = Some(Lifecycle::DropReopen);
                Some(r)
            }
        }
    }

    /// adopt the effects of a resolved statement that succeeded
    pub fn commit(&mut self, r: &Resolved) {
        match &r.txn {
            TxnEffect::None => {
                // UPDATE / DELETE drop the TOAST chunks of the rows they touch at once; a rollback cannot bring
                // them back (listed finding): tag the transaction when the table held a toasted value
                for t in &self.tables {
                    match r.after.iter().find(|a| a.name == t.name) {
                        None => {
                            if !self.dropped_tables.contains(&t.name) {
                                self.dropped_tables.push(t.name.clone());
                            }
                        }
                        Some(a) => {
                            for ix in &t.indexes {
                                if !a.indexes.iter().any(|x| x.name == ix.name) {
                                    self.dropped_indexes.push((t.name.clone(), ix.name.clone()));
                                }
                            }
                        }
                    }
                }
                // a name that is live again is no longer free
                self.dropped_tables.retain(|n| !r.after.iter().any(|a| &a.name == n));
                self.dropped_indexes.retain(|(t, n)| !r.after.iter().any(|a| &a.name == t && a.indexes.iter().any(|x| &x.name == n)));
                let had_long = matches!(r.kind, "UPDATE" | "DELETE")
                    && r.table.as_ref().and_then(|n| self.tables.iter().find(|t| &t.name == n)).map(|t| t.rows.iter().any(|row| row.iter().any(is_long))).unwrap_or(false);
                self.tables = r.after.clone();
                if let Some(t) = self.txn.as_mut() {
                    if had_long && r.rows_touched > 0 {
                        let depth = t.savepoints.len();
                        t.did.push(("rollback_of_update_or_delete_on_table_with_toasted_value", depth));
                    }
                    if r.rows_touched > 0 {
                        let tag = match r.kind {
                            "INSERT" => "rollback_of_insert",
                            "UPDATE" => "rollback_of_update",
                            "DELETE" => "rollback_of_delete",
                            _ => "",
                        };
                        if !tag.is_empty() {
                            let depth = t.savepoints.len();
                            t.did.push((tag, depth));
                        }
                    }
                }
            }
            TxnEffect::Begin => {
                self.txn = Some(TxnState { at_begin: self.tables.clone(), savepoints: vec![], did: vec![] });
            }
            TxnEffect::Commit => {
                self.txn = None;
            }
            TxnEffect::Rollback => {
                self.tables = r.after.clone();
                self.txn = None;
            }
            TxnEffect::Savepoint(n) => {
                let snap = self.tables.clone();
                if let Some(t) = self.txn.as_mut() {
                    t.savepoints.push((n.clone(), snap));
                }
            }
            TxnEffect::RollbackTo(n) => {
                self.tables = r.after.clone();
                if let Some(t) = self.txn.as_mut() {
                    if let Some(pos) = t.savepoints.iter().position(|s| &s.0 == n) {
                        t.savepoints.truncate(pos + 1);
                        t.did.retain(|(_, d)| *d <= pos);
                    }
                }
            }
            TxnEffect::Release(n) => {
                if let Some(t) = self.txn.as_mut() {
                    if let Some(pos) = t.savepoints.iter().position(|s| &s.0 == n) {
                        t.savepoints.truncate(pos);
                    }
                }
            }
        }
    }
}
