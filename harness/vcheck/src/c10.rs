//! C10 Indexes never change query results.
//!
//! Differential, no model: one history is applied to database A (generated schema with
//! PRIMARY KEY / UNIQUE / secondary / composite indexes, some created or dropped
//! mid-history) and to database B (same columns, every index-creating declaration removed).
//! Uniqueness in B is kept by construction: a statement runs on B only if A accepted it.
//! After every statement the same point / range / IN / prefix / ORDER BY+LIMIT queries on
//! indexed columns are run on both and must return equal multisets.

use std::collections::BTreeSet;

use proptest::prelude::*;
use vcore::{Check, Ctx, Outcome, Tier};

use crate::hist::*;
use crate::histchecks::gates_for;
use crate::refdb::*;
use crate::world::*;

#[derive(Debug, Clone, serde::Serialize, serde::Deserialize)]
pub struct Case {
    pub big: bool,
    pub h: History,
}

pub struct C10 {
    pub gates: BTreeSet<String>,
}

fn plain(t: &MTable) -> MTable {
    let mut p = t.clone();
    p.indexes.clear();
    for c in p.cols.iter_mut() {
        c.pk = false;
        c.unique = false;
        c.auto_inc = false;
    }
    p
}

fn queries(t: &MTable, rows: &Result<Vec<Row>, String>) -> Vec<(String, bool)> {
    // (sql, ordered?)
    let mut out = Vec::new();
    for ci in 0..t.cols.len() {
        if !t.indexed_any(ci) {
            continue;
        }
        let c = &t.cols[ci];
        if matches!(c.ty, Ty::Bool | Ty::Double) {
            continue;
        }
        let mut vals: Vec<Val> = (0u8..12).map(|s| pool(c.ty, s, false)).collect();
        if let Ok(rs) = rows {
            for r in rs.iter().take(30) {
                if let Some(v) = r.get(ci) {
                    if !v.is_null() {
                        vals.push(v.clone());
                    }
                }
            }
        }
        vals.retain(|v| !matches!(v, Val::Text(s) if s.len() > 1000));
        vals.sort_by(|a, b| a.sort_key().partial_cmp(&b.sort_key()).unwrap());
        vals.dedup();
        for v in &vals {
            out.push((format!("SELECT * FROM {} WHERE {} = {}", t.name, c.name, v.sql()), false));
        }
        if vals.len() >= 3 {
            let (lo, mid, hi) = (&vals[vals.len() / 4], &vals[vals.len() / 2], &vals[(3 * vals.len()) / 4]);
            out.push((format!("SELECT * FROM {} WHERE {} >= {} AND {} <= {}", t.name, c.name, lo.sql(), c.name, hi.sql()), false));
            out.push((format!("SELECT * FROM {} WHERE {} > {}", t.name, c.name, mid.sql()), false));
            out.push((format!("SELECT * FROM {} WHERE {} < {}", t.name, c.name, mid.sql()), false));
            out.push((format!("SELECT * FROM {} WHERE {} IN ({}, {}, {})", t.name, c.name, lo.sql(), mid.sql(), hi.sql()), false));
            out.push((format!("SELECT {} FROM {} WHERE {} IS NOT NULL ORDER BY {} LIMIT 3", c.name, t.name, c.name, c.name), true));
            out.push((format!("SELECT {} FROM {} WHERE {} IS NOT NULL ORDER BY {} DESC LIMIT 2", c.name, t.name, c.name, c.name), true));
        }
        if c.ty == Ty::Text {
            out.push((format!("SELECT * FROM {} WHERE {} LIKE 'a%'", t.name, c.name), false));
        }
        out.push((format!("SELECT * FROM {} WHERE {} IS NULL", t.name, c.name), false));
    }
    out.push((format!("SELECT * FROM {}", t.name), false));
    out.push((format!("SELECT COUNT(*) FROM {}", t.name), false));
    out
}

impl C10 {
    fn go(&self, case: &Case, gates: &BTreeSet<String>) -> Outcome {
        let mut out = Outcome::ok();
        NEG_DEFAULT_OK.with(|c| c.set(!gates.contains("negative_default")));
        let a = Db::create("C10a");
        let b = Db::create("C10b");
        let mut model = Model::new(&case.h.tables, case.big);
        for t in model.tables.clone() {
            for sql in Model::create_sql(&t) {
                if let Exec::Err(_) = a.exec(&sql) {
                    return out.class("schema_rejected");
                }
            }
            for sql in Model::create_sql(&plain(&t)) {
                if let Exec::Err(e) = b.exec(&sql) {
                    return out.fail("C10|plain_schema_rejected", format!("{} -> {}", sql, e));
                }
            }
        }
        let mut log: Vec<String> = Vec::new();
        // pre-load (multi-page tables and indexes; the chunks are large enough for an index root to split in the
        // middle of one statement): identical statements on both twins
        for (ti, spec) in case.h.tables.iter().enumerate() {
            if ti >= model.tables.len() {
                continue;
            }
            for (sql, rows) in crate::hist::prefill_statements(spec, 120) {
                let ea = a.exec(&sql);
                let eb = b.exec(&sql);
                match (&ea, &eb) {
                    (Exec::Ok { .. }, Exec::Ok { .. }) => {
                        model.tables[ti].rows.extend(rows);
                        model.tables[ti].ever_had_rows = true;
                    }
                    (Exec::Err(e), Exec::Ok { .. }) => {
                        return out.fail("C10|outcome|rejected_only_with_indexes|INSERT|prefill", format!("pre-load statement accepted by the twin without indexes, rejected with them: {} ({})", e, Model::create_sql(&model.tables[ti]).join("; ")));
                    }
                    _ => return out.class("prefill_rejected"),
                }
            }
            if model.tables[ti].ever_had_rows && spec.prefill > 0 {
                log.push(format!("-- {} rows pre-loaded into {}", spec.prefill, spec.name));
                out.add_class(if spec.prefill >= 300 { "prefill:600" } else { "prefill:70" });
            }
        }
        let mut index_plans = 0usize;
        let mut max_rows = 0usize;
        let mut compared = 0usize;
        let mut kinds: BTreeSet<&'static str> = BTreeSet::new();
        for op in &case.h.ops {
            let Some(r) = model.resolve(op) else { continue };
            if let Some(g) = r.tags.iter().find(|t| gates.contains(**t)) {
                out.add_class(format!("gated:{}", g));
                continue;
            }
            if r.lifecycle.is_some() {
                continue;
            }
            let is_index_ddl = matches!(r.kind, "CREATE_INDEX" | "DROP_INDEX");
            log.push(r.sql.clone());
            kinds.insert(r.kind);
            let ea = a.exec(&r.sql);
            let a_ok = matches!(ea, Exec::Ok { .. });
            if a_ok {
                if !is_index_ddl {
                    // CREATE TABLE mid-history: B gets the index-free twin
                    let sql_b = if r.kind == "CREATE_TABLE" { Model::create_sql(&plain(r.after.last().unwrap())).join(";\n") } else { r.sql.clone() };
                    if let Exec::Err(e) = b.exec(&sql_b) {
                        let tail: Vec<String> = log.iter().rev().take(10).rev().cloned().map(|s| crate::histrun::short(&s)).collect();
                        return out.fail(
                            format!("C10|accepted_with_indexes_rejected_without|{}", r.kind),
                            format!("{} succeeded on the indexed database but failed on the index-free twin: {}\n  last statements:\n    {}", crate::histrun::short(&r.sql), e, tail.join("\n    ")),
                        );
                    }
                }
                model.commit(&r);
            } else if matches!(r.expect, Expect::Ok { .. }) && matches!(r.kind, "INSERT" | "UPDATE" | "DELETE") {
                // A refused a statement the model considers valid: would it have been fine without indexes?
                // (not executed on B, so the twins stay comparable) — counted only
                out.add_class("a_rejected_valid_statement");
            }
            max_rows = max_rows.max(model.tables.iter().map(|t| t.rows.len()).max().unwrap_or(0));
            // compare
            for t in &model.tables {
                let rows_a = a.query(&format!("SELECT * FROM {}", t.name));
                for (sql, ordered) in queries(t, &rows_a) {
                    let (ra, rb) = (a.query(&sql), b.query(&sql));
                    compared += 1;
                    match (ra, rb) {
                        (Ok(mut x), Ok(mut y)) => {
                            if !ordered {
                                sort_rows(&mut x);
                                sort_rows(&mut y);
                            }
                            if x != y {
                                let shape = if sql.contains(" IN (") {
                                    "in_list"
                                } else if sql.contains(" LIKE ") {
                                    "prefix"
                                } else if sql.contains("ORDER BY") {
                                    "order_limit"
                                } else if sql.contains(">=") || sql.contains(" > ") || sql.contains(" < ") {
                                    "range"
                                } else if sql.contains("IS NULL") {
                                    "is_null"
                                } else if sql.contains("COUNT(*)") {
                                    "count_star"
                                } else if sql.contains(" = ") {
                                    "point"
                                } else {
                                    "scan"
                                };
                                let kind = if x.len() < y.len() { "rows_missing_with_index" } else if x.len() > y.len() { "rows_extra_with_index" } else { "rows_differ" };
                                let mut tags: Vec<&str> = r.tags.clone();
                                if case.h.tables.iter().any(|t| !crate::hist::prefill_rows(t).is_empty()) {
                                    tags.push("multi_page_table");
                                }
                                tags.sort();
                                tags.dedup();
                                let tail: Vec<String> = log.iter().rev().take(10).rev().cloned().map(|s| crate::histrun::short(&s)).collect();
                                return out.fail(
                                    format!("C10|{}|{}|after:{}|{}", shape, kind, r.kind, if tags.is_empty() { "-".to_string() } else { tags.join("+") }),
                                    format!("{}\n  with indexes:    {} rows {:?}\n  without indexes: {} rows {:?}\n  last statements:\n    {}", sql, x.len(), x.iter().take(4).collect::<Vec<_>>(), y.len(), y.iter().take(4).collect::<Vec<_>>(), tail.join("\n    ")),
                                );
                            }
                        }
                        (Err(e), Ok(_)) => {
                            return out.fail(format!("C10|query_fails_with_index|after:{}", r.kind), format!("{} fails on the indexed database: {}", sql, e));
                        }
                        _ => {}
                    }
                }
                // sample the plan
                if let Some(ci) = t.indexed_cols().first() {
                    let c = &t.cols[*ci];
                    if !matches!(c.ty, Ty::Bool | Ty::Double) {
                        if let Ok(turdb::ExecuteResult::Explain { plan }) = a.h().execute(&format!("EXPLAIN SELECT * FROM {} WHERE {} = {}", t.name, c.name, pool(c.ty, 1, false).sql())) {
                            if plan.contains("Index") {
                                index_plans += 1;
                            }
                        }
                    }
                }
            }
        }
        for k in kinds {
            out.add_class(format!("op:{}", k));
        }
        if index_plans > 0 {
            out.add_class("index_plan_seen");
        }
        if max_rows >= 8 {
            out.add_class("rows>=8");
        }
        if max_rows >= 8 && index_plans > 0 && compared > 0 {
            out.nontrivial = Some(vcore::hash_of(&format!("{:?}{:?}", case.h.tables, case.h.ops)));
        }
        out
    }
}

impl Check for C10 {
    type Case = Case;
    fn run(&self, case: &Case) -> Outcome {
        self.go(case, &self.gates)
    }
    fn run_strict(&self, case: &Case) -> Outcome {
        let f = vcore::Findings::load_default();
        let own: BTreeSet<String> = f.closed_gates("C10").into_iter().collect();
        let inherited: BTreeSet<String> = self.gates.iter().filter(|g| !own.contains(*g)).cloned().collect();
        self.go(case, &inherited)
    }
}

pub fn strategy() -> BoxedStrategy<Case> {
    let p = Profile { max_ops: 30, dml: 10, ddl: 2, txn: 1, truncate: 0, ..Profile::default() };
    let pb = Profile { max_ops: 50, dml: 12, ddl: 2, txn: 1, truncate: 0, big_keys: true, max_insert_rows: 12, prefill: true, ..Profile::default() };
    prop_oneof![
        2 => history_strategy(&p).prop_map(|h| Case { big: false, h }),
        2 => history_strategy(&pb).prop_map(|h| Case { big: true, h }),
    ]
    .boxed()
}

pub fn main(tier: Tier, replay: Option<String>) -> i32 {
    let check = C10 { gates: gates_for("C10") };
    if let Some(p) = replay {
        return vcore::replay_file("C10", &check, &p);
    }
    let ctx = Ctx::new("C10", tier, "exploration");
    ctx.set_rule(
        "E-hist histories (inserts in any key order incl. wide keys filling several index leaves, deletes, updates of indexed columns, rollbacks, CREATE/DROP INDEX mid-history) applied \
         to an indexed database and to its index-free twin; after every statement point, range, IN, prefix (LIKE 'a%'), IS NULL, ORDER BY+LIMIT queries on every indexed column plus \
         the full scan and COUNT(*) are compared as multisets (sequences when ordered). Non-trivial = some table reached >= 8 rows and EXPLAIN showed an index plan for a probe; \
         distinct by hash of schema+ops.",
    );
    ctx.assume("a statement runs on the twin only when the indexed database accepted it (keeps uniqueness by construction); close/reopen is not part of this differential");
    let cases = tier.pick(2000, 20_000);
    vcore::drive(&ctx, &check, strategy, cases, 16);
    ctx.finish()
}
