//! C24 Vector distance ordering is exact.
//!
//! (a) Kernel cases: a pair of equal-length f32 vectors; every public function of
//! `turdb::hnsw::distance` (scalar, AVX2+FMA when the CPU has them, the dispatched
//! `select_distance_fn` / `select_squared_distance_fn` / `euclidean_squared`) is compared
//! with the definition evaluated in f64 from the same f32 inputs. Stated tolerance, for n
//! components (a rigorous first-order bound for any summation order, with or without FMA):
//!   squared L2 / dot / inner product:  |got - ref| <= (n+4)·eps_f32·Σ|term_i| + n·2^-149
//!   L2:      sqrt(max(S-t,0))·(1-2eps) <= got <= sqrt(S+t)·(1+2eps),  t the bound above
//!   cosine:  |got - ref| <= (n+4)·eps_f32·(Σ|a_i b_i|/(|a||b|) + |cos|) + 4·eps_f32,
//!            and exactly 1.0 when either vector is all zero (the scalar definition's value)
//! (b) SQL cases: a table of 1..200 vectors (optionally with an HNSW index on the column),
//! `SELECT .. ORDER BY v <-> q` / `v <=> q`, with and without LIMIT, through
//! `turdb::Database`. The f64 distances of the returned rows must be non-decreasing, the
//! LIMIT-k rows must be no farther than any omitted row (both within the per-row kernel
//! tolerance, so rows whose exact distances differ by less than f32 rounding may swap), the
//! row count must be min(k, n), and every row appears at most once (exactly once without LIMIT).

use std::sync::atomic::{AtomicU64, Ordering};

use proptest::prelude::*;
use serde::{Deserialize, Serialize};
use turdb::hnsw::distance as dk;
use turdb::hnsw::DistanceFunction;
use turdb::{Database, OwnedValue};
use vcore::{Check, Ctx, Outcome, Tier};

#[derive(Debug, Clone, Serialize, Deserialize)]
pub enum Case {
    /// f32 bit patterns
    Kernel { a: Vec<u32>, b: Vec<u32> },
    Sql {
        rows: Vec<Vec<u32>>,
        q: Vec<u32>,
        cosine: bool,
        limit: Option<u32>,
        /// 0: SELECT id   1: SELECT id, v   2: SELECT *
        proj: u8,
        hnsw_index: bool,
        /// rows per INSERT statement
        batch: u8,
    },
}

pub struct C24;

const EPS: f64 = f32::EPSILON as f64; // 2^-23 (>= 2u, conservative)
const TINY: f64 = 1.401298464324817e-45; // 2^-149

static DIMS_SEEN: [AtomicU64; 1100] = [const { AtomicU64::new(0) }; 1100];

fn f(v: &[u32]) -> Vec<f32> {
    v.iter().map(|b| f32::from_bits(*b)).collect()
}

struct Ref {
    n: f64,
    s: f64,      // Σ (a-b)^2
    dot: f64,    // Σ a b
    absdot: f64, // Σ |a b|
    na: f64,     // Σ a^2
    nb: f64,
}

fn reference(a: &[f32], b: &[f32]) -> Ref {
    let mut r = Ref { n: a.len() as f64, s: 0.0, dot: 0.0, absdot: 0.0, na: 0.0, nb: 0.0 };
    for (x, y) in a.iter().zip(b.iter()) {
        let (x, y) = (*x as f64, *y as f64);
        r.s += (x - y) * (x - y);
        r.dot += x * y;
        r.absdot += (x * y).abs();
        r.na += x * x;
        r.nb += y * y;
    }
    r
}

impl Ref {
    fn sum_tol(&self, sum_abs: f64) -> f64 {
        (self.n + 4.0) * EPS * sum_abs + self.n * TINY
    }
    /// (lo, hi) admissible values of the L2 distance
    fn l2_bounds(&self) -> (f64, f64) {
        let t = self.sum_tol(self.s);
        ((self.s - t).max(0.0).sqrt() * (1.0 - 2.0 * EPS), (self.s + t).sqrt() * (1.0 + 2.0 * EPS))
    }
    fn l2(&self) -> f64 {
        self.s.sqrt()
    }
    /// None = undefined (a zero vector)
    fn cosine(&self) -> Option<(f64, f64)> {
        if self.na == 0.0 || self.nb == 0.0 {
            return None;
        }
        let den = self.na.sqrt() * self.nb.sqrt();
        let cos = self.dot / den;
        let tol = (self.n + 4.0) * EPS * (self.absdot / den + cos.abs()) + 4.0 * EPS;
        Some((1.0 - cos, tol))
    }
}

fn close(got: f32, want: f64, tol: f64) -> bool {
    let g = got as f64;
    g.is_finite() && (g - want).abs() <= tol
}

fn kernel_case(a: &[f32], b: &[f32], out: &mut Outcome) {
    let n = a.len();
    let r = reference(a, b);
    let (lo, hi) = r.l2_bounds();
    let cos = r.cosine();
    let fail = |out: &mut Outcome, name: &str, kind: &str, got: f32, want: f64, tol: f64| {
        let tail = if n % 8 == 0 { "dim%8=0" } else { "dim%8!=0" };
        out.set_fail(
            format!("C24|kernel|{}|{}|{}", name, kind, tail),
            format!("dim={} {}: got {:e}, f64 definition {:e}, tolerance {:e}\n a={:?}\n b={:?}", n, name, got, want, tol, a, b),
        );
    };
    // name, function, kind: 0 squared, 1 l2, 2 dot, 3 inner, 4 cosine
    let mut fns: Vec<(&'static str, Box<dyn Fn(&[f32], &[f32]) -> f32>, u8)> = vec![
        ("euclidean_squared_scalar", Box::new(dk::euclidean_squared_scalar), 0),
        ("euclidean_scalar", Box::new(dk::euclidean_scalar), 1),
        ("dot_product_scalar", Box::new(dk::dot_product_scalar), 2),
        ("inner_product_scalar", Box::new(dk::inner_product_scalar), 3),
        ("cosine_scalar", Box::new(dk::cosine_scalar), 4),
        ("euclidean_squared", Box::new(dk::euclidean_squared), 0),
        ("select_distance_fn(L2)", Box::new(dk::select_distance_fn(DistanceFunction::L2)), 1),
        ("select_distance_fn(Cosine)", Box::new(dk::select_distance_fn(DistanceFunction::Cosine)), 4),
        ("select_distance_fn(InnerProduct)", Box::new(dk::select_distance_fn(DistanceFunction::InnerProduct)), 3),
        ("select_squared_distance_fn(L2)", Box::new(dk::select_squared_distance_fn(DistanceFunction::L2)), 0),
        ("select_squared_distance_fn(Cosine)", Box::new(dk::select_squared_distance_fn(DistanceFunction::Cosine)), 4),
        ("select_squared_distance_fn(InnerProduct)", Box::new(dk::select_squared_distance_fn(DistanceFunction::InnerProduct)), 3),
    ];
    #[cfg(target_arch = "x86_64")]
    if is_x86_feature_detected!("avx2") && is_x86_feature_detected!("fma") {
        // SAFETY: CPU features checked; slices have equal length
        fns.push(("euclidean_squared_avx2", Box::new(|a, b| unsafe { dk::euclidean_squared_avx2(a, b) }), 0));
        fns.push(("euclidean_avx2", Box::new(|a, b| unsafe { dk::euclidean_avx2(a, b) }), 1));
        fns.push(("dot_product_avx2", Box::new(|a, b| unsafe { dk::dot_product_avx2(a, b) }), 2));
        fns.push(("inner_product_avx2", Box::new(|a, b| unsafe { dk::inner_product_avx2(a, b) }), 3));
        fns.push(("cosine_avx2", Box::new(|a, b| unsafe { dk::cosine_avx2(a, b) }), 4));
    }
    for (name, func, kind) in &fns {
        let got = func(a, b);
        match kind {
            0 => {
                let t = r.sum_tol(r.s);
                if !close(got, r.s, t) {
                    fail(out, name, "squared_l2", got, r.s, t);
                }
            }
            1 => {
                let g = got as f64;
                if !(g.is_finite() && lo <= g && g <= hi) {
                    fail(out, name, "l2", got, r.l2(), hi - lo);
                }
            }
            2 | 3 => {
                let want = if *kind == 2 { r.dot } else { -r.dot };
                let t = r.sum_tol(r.absdot);
                if !close(got, want, t) {
                    fail(out, name, "dot", got, want, t);
                }
            }
            _ => match cos {
                None => {
                    if got != 1.0 {
                        fail(out, name, "cosine_zero_vector", got, 1.0, 0.0);
                    }
                }
                Some((want, t)) => {
                    if !close(got, want, t) {
                        let mag = a.iter().chain(b.iter()).fold(0f32, |m, x| m.max(x.abs()));
                        let k = if mag >= 1e9 { "cosine_large_components" } else { "cosine" };
                        fail(out, name, k, got, want, t);
                    }
                }
            },
        }
        if out.failure.is_some() {
            return;
        }
    }
}

fn fmt_vec(v: &[f32]) -> String {
    let parts: Vec<String> = v.iter().map(|x| format!("{}", x)).collect();
    format!("[{}]", parts.join(","))
}

#[allow(clippy::too_many_arguments)]
fn sql_case(rows: &[Vec<f32>], q: &[f32], cosine: bool, limit: Option<u32>, proj: u8, hnsw_index: bool, batch: u8, out: &mut Outcome) {
    let dim = q.len();
    let n = rows.len();
    let dir = vcore::tmp::TempDir::new("c24");
    let db = match Database::create(dir.join("db")) {
        Ok(d) => d,
        Err(e) => {
            out.set_fail("C24|sql|create_database_failed", format!("{}", e));
            return;
        }
    };
    let feature = if hnsw_index { "hnsw_index" } else { "no_index" };
    if let Err(e) = db.execute(&format!("CREATE TABLE t (id BIGINT PRIMARY KEY, v VECTOR({}))", dim)) {
        out.set_fail("C24|sql|create_table_failed", format!("dim={}: {}", dim, e));
        return;
    }
    if hnsw_index {
        if let Err(e) = db.execute("CREATE INDEX t_v ON t USING HNSW (v)") {
            out.set_fail("C24|sql|create_index_failed", format!("dim={}: {}", dim, e));
            return;
        }
    }
    let batch = (batch as usize).max(1);
    let mut i = 0;
    while i < n {
        let j = (i + batch).min(n);
        let vals: Vec<String> = (i..j).map(|k| format!("({}, '{}')", k + 1, fmt_vec(&rows[k]))).collect();
        let sql = format!("INSERT INTO t (id, v) VALUES {}", vals.join(", "));
        if let Err(e) = db.execute(&sql) {
            out.set_fail(
                format!("C24|sql|insert_failed|{}", feature),
                format!("dim={} rows {}..{} of {}: {}\n{}", dim, i, j, n, e, sql.chars().take(300).collect::<String>()),
            );
            return;
        }
        i = j;
    }
    let op = if cosine { "<=>" } else { "<->" };
    let cols = match proj {
        0 => "id",
        1 => "id, v",
        _ => "*",
    };
    let mut sql = format!("SELECT {} FROM t ORDER BY v {} '{}'", cols, op, fmt_vec(q));
    if let Some(k) = limit {
        sql.push_str(&format!(" LIMIT {}", k));
    }
    let got = match db.query(&sql) {
        Ok(r) => r,
        Err(e) => {
            out.set_fail(format!("C24|sql|query_failed|{}", op), format!("{} -> {}", sql.chars().take(300).collect::<String>(), e));
            return;
        }
    };
    let mut ids: Vec<usize> = Vec::with_capacity(got.len());
    for r in &got {
        match r.values.first() {
            Some(OwnedValue::Int(i)) if *i >= 1 && (*i as usize) <= n => ids.push(*i as usize - 1),
            other => {
                out.set_fail(format!("C24|sql|row_not_in_table|{}", op), format!("first column {:?} is not an id of the table (n={})", other, n));
                return;
            }
        }
    }
    let want_len = limit.map(|k| (k as usize).min(n)).unwrap_or(n);
    let lim = if limit.is_some() { "limit" } else { "no_limit" };
    if ids.len() != want_len {
        out.set_fail(
            format!("C24|sql|row_count|{}|{}", op, lim),
            format!("{} rows in the table, {:?} as LIMIT: expected {} rows, got {}", n, limit, want_len, ids.len()),
        );
        return;
    }
    let mut seen = vec![false; n];
    for id in &ids {
        if seen[*id] {
            out.set_fail(format!("C24|sql|row_returned_twice|{}|{}", op, lim), format!("id {} appears twice in the result of {}", id + 1, sql.chars().take(200).collect::<String>()));
            return;
        }
        seen[*id] = true;
    }
    // exact distances (f64) with the per-row tolerance
    let dist: Vec<Option<(f64, f64)>> = rows
        .iter()
        .map(|r| {
            let rf = reference(r, q);
            if cosine {
                rf.cosine()
            } else {
                let (lo, hi) = rf.l2_bounds();
                Some((rf.l2(), (hi - lo).max(0.0)))
            }
        })
        .collect();
    let null_tag = if dist.iter().any(|d| d.is_none()) { "|null_distance_rows" } else { "" };
    // non-decreasing along the output: max over earlier rows of (d - tol) <= d_j + tol_j
    let mut run: Option<(f64, usize)> = None;
    for (pos, id) in ids.iter().enumerate() {
        if let Some((d, t)) = dist[*id] {
            if let Some((m, mid)) = run {
                if m > d + t {
                    out.set_fail(
                        format!("C24|sql|order|{}|{}{}", op, lim, null_tag),
                        format!(
                            "row id {} (distance {:e}) is returned at position {} after row id {} (distance {:e}); n={} dim={} limit={:?}\n{}",
                            id + 1, d, pos, mid + 1, dist[mid].unwrap().0, n, dim, limit, sql.chars().take(200).collect::<String>()
                        ),
                    );
                    return;
                }
            }
            if run.map(|(m, _)| d - t > m).unwrap_or(true) {
                run = Some((d - t, *id));
            }
        }
    }
    // top-k: no omitted row is strictly nearer than a returned row
    let mut tie_at_boundary = false;
    if limit.is_some() && ids.len() < n {
        let far = ids.iter().filter_map(|id| dist[*id].map(|(d, t)| (d - t, d, *id))).fold(None, |m: Option<(f64, f64, usize)>, x| match m {
            Some(y) if y.0 >= x.0 => Some(y),
            _ => Some(x),
        });
        let near = (0..n).filter(|i| !seen[*i]).filter_map(|i| dist[i].map(|(d, t)| (d + t, d, i))).fold(None, |m: Option<(f64, f64, usize)>, x| match m {
            Some(y) if y.0 <= x.0 => Some(y),
            _ => Some(x),
        });
        if let (Some(fr), Some(nr)) = (far, near) {
            if fr.0 > nr.0 {
                out.set_fail(
                    format!("C24|sql|topk|{}{}", op, null_tag),
                    format!(
                        "LIMIT {} of {} rows returned id {} at distance {:e} but omitted id {} at distance {:e}; dim={}\n{}",
                        limit.unwrap(), n, fr.2 + 1, fr.1, nr.2 + 1, nr.1, dim, sql.chars().take(200).collect::<String>()
                    ),
                );
                return;
            }
            if fr.1 == nr.1 {
                tie_at_boundary = true;
            }
        }
    }
    out.add_class(format!("sql:{}", op));
    out.add_class(format!("sql:{}", lim));
    out.add_class(format!("sql:{}", feature));
    out.add_class(match n {
        1 => "sql:n=1",
        2..=9 => "sql:n=2..9",
        10..=99 => "sql:n=10..99",
        _ => "sql:n>=100",
    });
    if tie_at_boundary {
        out.add_class("sql:tie_at_limit_boundary");
    }
    if dist.iter().any(|d| d.is_none()) {
        out.add_class("sql:cosine_with_zero_vector");
    }
    if dim % 8 != 0 || tie_at_boundary {
        out.nontrivial = Some(vcore::hash_of(&(sql, rows.iter().map(|r| r.iter().map(|x| x.to_bits()).collect::<Vec<_>>()).collect::<Vec<_>>())));
    }
}

impl Check for C24 {
    type Case = Case;
    fn run(&self, case: &Case) -> Outcome {
        let mut out = Outcome::ok();
        match case {
            Case::Kernel { a, b } => {
                let n = a.len().min(b.len());
                let (a, b) = (f(&a[..n]), f(&b[..n]));
                if n == 0 {
                    return out;
                }
                DIMS_SEEN[n.min(1099)].fetch_add(1, Ordering::Relaxed);
                kernel_case(&a, &b, &mut out);
                out.add_class(format!("kernel:dim%8={}", n % 8));
                if a.iter().all(|x| *x == 0.0) || b.iter().all(|x| *x == 0.0) {
                    out.add_class("kernel:zero_vector");
                }
                if a == b {
                    out.add_class("kernel:identical");
                }
                if a.iter().chain(b.iter()).any(|x| x.abs() >= 1e17) {
                    out.add_class("kernel:large_components");
                }
                if n % 8 != 0 {
                    out.nontrivial = Some(vcore::hash_of(&(a.iter().map(|x| x.to_bits()).collect::<Vec<_>>(), b.iter().map(|x| x.to_bits()).collect::<Vec<_>>())));
                }
            }
            Case::Sql { rows, q, cosine, limit, proj, hnsw_index, batch } => {
                let dim = q.len();
                if dim == 0 || rows.is_empty() {
                    return out;
                }
                let rows: Vec<Vec<f32>> = rows.iter().filter(|r| r.len() == dim).map(|r| f(r)).collect();
                if rows.is_empty() {
                    return out;
                }
                sql_case(&rows, &f(q), *cosine, *limit, *proj, *hnsw_index, *batch, &mut out);
            }
        }
        out
    }
}

// ---------------------------------------------------------------------------------------
// generators
// ---------------------------------------------------------------------------------------

/// One component: zero, small integers and eighths (ties), unit range, moderate, large
/// (up to 1e18 in magnitude: squares and 70-term sums stay below f32::MAX), small (>= 1e-9).
fn component(max_large: f32) -> BoxedStrategy<f32> {
    prop_oneof![
        2 => Just(0.0f32),
        4 => (-4i32..=4).prop_map(|i| i as f32),
        3 => (-16i32..=16).prop_map(|i| i as f32 / 8.0),
        5 => (-1.0f32..1.0),
        2 => (-1000.0f32..1000.0),
        2 => (0.01f32..1.0f32, any::<bool>()).prop_map(move |(m, neg)| { let v = m * max_large; if neg { -v } else { v } }),
        1 => (1.0e-9f32..1.0e-6, any::<bool>()).prop_map(|(m, neg)| if neg { -m } else { m }),
    ]
    .boxed()
}

/// components all of one magnitude class (so that large vectors are large everywhere)
fn uniform_component(class: u8, max_large: f32) -> BoxedStrategy<f32> {
    match class {
        0 => (-4i32..=4).prop_map(|i| i as f32).boxed(),
        1 => (-1.0f32..1.0).boxed(),
        2 => (0.1f32..1.0, any::<bool>()).prop_map(move |(m, neg)| if neg { -m * max_large } else { m * max_large }).boxed(),
        3 => (1.0e-9f32..1.0e-6, any::<bool>()).prop_map(|(m, neg)| if neg { -m } else { m }).boxed(),
        _ => component(max_large),
    }
}

fn vector(dim: usize, max_large: f32) -> BoxedStrategy<Vec<f32>> {
    prop_oneof![
        1 => Just(vec![0.0f32; dim]),
        6 => (0u8..6).prop_flat_map(move |c| proptest::collection::vec(uniform_component(c, max_large), dim)),
    ]
    .boxed()
}

fn bits(v: &[f32]) -> Vec<u32> {
    v.iter().map(|x| x.to_bits()).collect()
}

fn kernel_strategy(dims: Vec<usize>) -> BoxedStrategy<Case> {
    proptest::sample::select(dims)
        .prop_flat_map(|dim| {
            // keep n·(2·max)^2 below f32::MAX: 1e18 up to 70 components, 1e17 beyond
            let max_large = if dim <= 70 { 1.0e18f32 } else { 1.0e17f32 };
            (vector(dim, max_large), vector(dim, max_large), 0u8..8, -3i32..=3)
        })
        .prop_map(|(a, b, rel, k)| {
            // related pairs: identical, negated, scaled, one component changed
            let b = match rel {
                0 => a.clone(),
                1 => a.iter().map(|x| -x).collect(),
                // scaled down only, so that magnitudes stay within the stated bound
                2 => a.iter().map(|x| x * (2.0f32).powi(-k.abs() - 1)).collect(),
                3 => {
                    let mut c = a.clone();
                    let last = c.len() - 1;
                    c[last] = b[last];
                    c
                }
                _ => b,
            };
            Case::Kernel { a: bits(&a), b: bits(&b) }
        })
        .boxed()
}

/// Gate `sql.cosine_zero_vector` (open finding: a NULL sort key compares Equal to everything,
/// so rows whose cosine distance is undefined scramble the order of the other rows): while
/// closed, `<=>` cases contain no all-zero row and no all-zero query.
fn sql_strategy(max_rows: usize, gate_zero_cos: Option<std::sync::Arc<Ctx>>) -> BoxedStrategy<Case> {
    let dim = prop_oneof![3 => 1usize..=8, 2 => 1usize..=70, 1 => Just(3usize), 1 => Just(16usize)];
    (dim, prop_oneof![3 => 1usize..=12, 2 => 1usize..=max_rows])
        .prop_flat_map(|(dim, n)| {
            // a pool smaller than the table makes duplicates (ties) common
            let pool = proptest::collection::vec(vector(dim, 1.0e18), 1..=n.min(24).max(1));
            (
                pool,
                proptest::collection::vec(any::<u16>(), n),
                prop_oneof![3 => vector(dim, 1.0e18).prop_map(Some), 1 => Just(None)],
                any::<u16>(),
                any::<bool>(),
                prop_oneof![2 => Just(None), 3 => (0u32..=(n as u32 + 2)).prop_map(Some)],
                0u8..3,
                prop_oneof![3 => Just(false), 1 => Just(true)],
                prop_oneof![Just(1u8), Just(7u8), Just(50u8)],
                proptest::collection::vec(vector(dim, 1.0e18), n),
                any::<bool>(),
            )
        })
        .prop_map(move |(pool, picks, q, qsel, cosine, limit, proj, hnsw_index, batch, fresh, use_pool)| {
            let mut rows: Vec<Vec<u32>> = picks
                .iter()
                .zip(fresh.iter())
                .map(|(p, fr)| if use_pool || p % 3 == 0 { bits(&pool[vcore::idx(*p, pool.len())]) } else { bits(fr) })
                .collect();
            // the query is a fresh vector or one of the rows
            let q = match q {
                Some(v) => bits(&v),
                None => rows[vcore::idx(qsel, rows.len())].clone(),
            };
            let mut q = q;
            if let (true, Some(ctx)) = (cosine, gate_zero_cos.as_ref()) {
                let mut n = 0;
                for v in rows.iter_mut().chain(std::iter::once(&mut q)) {
                    if v.iter().all(|b| f32::from_bits(*b) == 0.0) {
                        v[0] = 1.0f32.to_bits();
                        n += 1;
                    }
                }
                if n > 0 {
                    ctx.gated_out("sql.cosine_zero_vector", 1);
                }
            }
            Case::Sql { rows, q, cosine, limit, proj, hnsw_index, batch }
        })
        .boxed()
}

pub fn strategy(tier: Tier, sql_weight: u32, gate_zero_cos: Option<std::sync::Arc<Ctx>>) -> BoxedStrategy<Case> {
    let mut dims: Vec<usize> = (1..=70).collect();
    if tier == Tier::Thorough {
        dims.extend_from_slice(&[127, 128, 129, 1024]);
    }
    if sql_weight == 0 {
        return kernel_strategy(dims);
    }
    if sql_weight >= 100 {
        return sql_strategy(200, gate_zero_cos);
    }
    prop_oneof![
        100 - sql_weight => kernel_strategy(dims),
        sql_weight => sql_strategy(200, gate_zero_cos),
    ]
    .boxed()
}

pub fn main(tier: Tier, replay: Option<String>) -> i32 {
    if let Some(p) = replay {
        return vcore::replay_file("C24", &C24, &p);
    }
    let ctx = Ctx::new("C24", tier, "exploration");
    ctx.set_rule(
        "kernel cases: dim drawn uniformly from 1..70 (plus 127/128/129/1024 in thorough), vector pairs with components from {0, small integers, eighths, (-1,1), +-1000, +-1e16..1e18, +-1e-9..1e-6}, \
         whole-zero vectors, identical / negated / scaled / one-component-different pairs; every public kernel compared with the f64 definition. \
         SQL cases: tables of 1..200 vectors of dim 1..70 drawn from a small pool (duplicates => ties), query fresh or equal to a row, <-> or <=>, no LIMIT or LIMIT 0..n+2, \
         projection id / id,v / *, optional HNSW index on the column, 1/7/50 rows per INSERT. \
         Non-trivial = dim not a multiple of 8 (kernel tail path) or a tie exactly at the LIMIT boundary; distinct by hash of the inputs.",
    );
    ctx.assume("vectors of equal length, finite components, non-zero magnitudes within [1e-9, 1e18] (1e17 above 70 dims) so that no f32 sum of squares overflows or underflows; NaN/inf inputs not generated");
    ctx.assume("cosine distance involving an all-zero vector: kernels must return the scalar definition's 1.0; in SQL the distance is undefined and such rows may appear anywhere in the order");
    ctx.assume("the NEON kernels are not compiled on this x86_64 sandbox; AVX2 kernels are called directly only when the CPU reports avx2+fma");
    let cases = tier.pick(24_000, 400_000);
    // share of SQL cases in percent (development knob for sensitivity runs: 0 = kernels only, 100 = SQL only)
    let sql_weight: u32 = std::env::var("VERIF_C24_SQL_PERCENT").ok().and_then(|s| s.parse().ok()).unwrap_or(12).min(100);
    let gate = if ctx.gate_closed("sql.cosine_zero_vector") { Some(ctx.clone()) } else { None };
    vcore::drive(&ctx, &C24, || strategy(tier, sql_weight, gate.clone()), cases, 16);
    let seen: Vec<usize> = (0..1100).filter(|d| DIMS_SEEN[*d].load(Ordering::Relaxed) > 0).collect();
    let min_per_dim = seen.iter().map(|d| DIMS_SEEN[*d].load(Ordering::Relaxed)).min().unwrap_or(0);
    ctx.extra("kernel_dims_covered", serde_json::json!({"count": seen.len(), "dims": seen, "min_cases_per_dim": min_per_dim}));
    ctx.finish()
}
