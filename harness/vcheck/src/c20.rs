//! C20 Scalar functions and arithmetic match their definitions.
//!
//! G: one application per case — a documented function (README tables: string, numeric,
//! date/time, control flow, system) on generated literal arguments, an arithmetic expression
//! tree over `+ - * / %` and unary minus, the same arithmetic through `UPDATE .. SET`, a
//! CAST, or a CASE expression — evaluated by `SELECT <expr>` on a scratch `turdb::Database`.
//! Arguments: Unicode strings (accents, Cyrillic, Greek, CJK, astral, combining), boundary
//! integers, exactly representable floats, NULL in every position, every valid date of years
//! 1..9999 for the date functions.
//!
//! O: reference implementations written from the README descriptions (MySQL reading of the
//! MySQL-named functions where the README only names them). Where the README is silent the
//! generator stays inside the unambiguous part of the domain (documented next to each
//! function below) or the expectation is only "does not crash". NULL in gives NULL out for
//! the strict functions; integer overflow must be an `Err`; division by zero NULL or `Err`.
//!
//! Signatures: `C20|<FUNCTION or operator>|<kind>`.

use std::cell::RefCell;

use proptest::prelude::*;
use serde::{Deserialize, Serialize};
use turdb::{Database, OwnedValue};
use vcore::{Check, Ctx, Outcome, Tier};

use crate::c41::{civil_of, day_number};

// ---------------------------------------------------------------------------- case model

#[derive(Debug, Clone, Serialize, Deserialize, PartialEq, Hash)]
pub enum A {
    Null,
    Int(i64),
    /// f64 bits (finite values only)
    Float(u64),
    Text(String),
}

#[derive(Debug, Clone, Serialize, Deserialize, Hash)]
pub enum X {
    Lit(A),
    Neg(Box<X>),
    Bin(char, Box<X>, Box<X>),
}

#[derive(Debug, Clone, Serialize, Deserialize, Hash)]
pub enum Case {
    Call { name: String, args: Vec<A> },
    Arith { x: X },
    UpdateSet { x: X },
    Cast { v: A, ty: String },
    CaseSimple { operand: A, whens: Vec<(A, A)>, else_: Option<A> },
    /// WHEN l = r THEN result
    CaseSearched { whens: Vec<(A, A, A)>, else_: Option<A> },
}

pub struct C20;

fn fl(f: f64) -> A {
    A::Float(f.to_bits())
}

fn tx(s: &str) -> A {
    A::Text(s.to_string())
}

// ---------------------------------------------------------------------------- SQL rendering

fn sql_lit(a: &A) -> String {
    match a {
        A::Null => "NULL".into(),
        A::Int(i) => {
            if *i == i64::MIN {
                "(-9223372036854775807 - 1)".into()
            } else if *i < 0 {
                format!("({})", i)
            } else {
                i.to_string()
            }
        }
        A::Float(b) => {
            let f = f64::from_bits(*b);
            let s = if f == f.trunc() && f.abs() < 1e15 { format!("{:.1}", f) } else { format!("{:?}", f) };
            if f.is_sign_negative() {
                format!("({})", s)
            } else {
                s
            }
        }
        A::Text(s) => format!("'{}'", s.replace('\'', "''")),
    }
}

fn sql_x(x: &X) -> String {
    match x {
        X::Lit(a) => sql_lit(a),
        X::Neg(e) => format!("(-{})", sql_x(e)),
        X::Bin(op, l, r) => format!("({} {} {})", sql_x(l), op, sql_x(r)),
    }
}

fn sql_of(case: &Case) -> String {
    match case {
        Case::Call { name, args } => format!("{}({})", name, args.iter().map(sql_lit).collect::<Vec<_>>().join(", ")),
        Case::Arith { x } | Case::UpdateSet { x } => sql_x(x),
        Case::Cast { v, ty } => format!("CAST({} AS {})", sql_lit(v), ty),
        Case::CaseSimple { operand, whens, else_ } => {
            let mut s = format!("CASE {}", sql_lit(operand));
            for (w, r) in whens {
                s.push_str(&format!(" WHEN {} THEN {}", sql_lit(w), sql_lit(r)));
            }
            if let Some(e) = else_ {
                s.push_str(&format!(" ELSE {}", sql_lit(e)));
            }
            s + " END"
        }
        Case::CaseSearched { whens, else_ } => {
            let mut s = String::from("CASE");
            for (l, r, res) in whens {
                s.push_str(&format!(" WHEN {} = {} THEN {}", sql_lit(l), sql_lit(r), sql_lit(res)));
            }
            if let Some(e) = else_ {
                s.push_str(&format!(" ELSE {}", sql_lit(e)));
            }
            s + " END"
        }
    }
}

// ---------------------------------------------------------------------------- expectations

#[derive(Debug, Clone)]
pub enum Expect {
    Null,
    /// exactly this integer (an integral float of the same value is accepted when it is exact)
    Int(i64),
    /// this number, relative tolerance
    Float(f64, f64),
    Text(String),
    /// text that parses to this f64
    TextOfFloat(f64),
    /// division by zero, out-of-domain argument: NULL or an error, never a number
    NullOrErr,
    /// integer overflow: must be an error
    MustErr,
    /// only "does not crash" is promised
    NoCrash,
    FloatIn(f64, f64),
    IntIn(i64, i64),
    /// non-empty text matching a shape, described
    TextShape(fn(&str) -> bool, &'static str),
    /// outside the asserted domain (counted, not evaluated)
    Skip,
}

#[derive(Debug)]
enum Obs {
    Val(OwnedValue),
    Err(String),
    Panic(String),
    Shape(String),
}

fn as_f64(v: &OwnedValue) -> Option<f64> {
    match v {
        OwnedValue::Int(i) => Some(*i as f64),
        OwnedValue::Float(f) => Some(*f),
        _ => None,
    }
}

/// None = agrees; Some((kind, explanation))
fn judge(exp: &Expect, obs: &Obs) -> Option<(&'static str, String)> {
    if let Obs::Panic(p) = obs {
        return Some(("panic", p.clone()));
    }
    if let Obs::Shape(s) = obs {
        return Some(("result_shape", s.clone()));
    }
    match exp {
        Expect::Skip | Expect::NoCrash => None,
        Expect::MustErr => match obs {
            Obs::Err(_) => None,
            Obs::Val(OwnedValue::Null) => Some(("overflow_gives_null", "integer overflow gave NULL, expected an error".into())),
            Obs::Val(v) => Some(("overflow_gives_value", format!("integer overflow gave {:?}, expected an error", v))),
            _ => None,
        },
        Expect::NullOrErr => match obs {
            Obs::Err(_) | Obs::Val(OwnedValue::Null) => None,
            Obs::Val(v) => Some(("value_where_null_or_error", format!("got {:?}, expected NULL or an error", v))),
            _ => None,
        },
        _ => {
            let v = match obs {
                Obs::Val(v) => v,
                Obs::Err(e) => return Some(("unexpected_error", format!("error {:?}, expected {:?}", e, exp))),
                _ => unreachable!(),
            };
            let ok = match exp {
                Expect::Null => *v == OwnedValue::Null,
                Expect::Int(i) => match v {
                    OwnedValue::Int(g) => g == i,
                    OwnedValue::Float(f) => i.unsigned_abs() <= (1u64 << 53) && *f == *i as f64,
                    _ => false,
                },
                Expect::Float(want, tol) => match as_f64(v) {
                    Some(g) => {
                        if want.is_nan() {
                            g.is_nan()
                        } else if want.is_infinite() {
                            g == *want
                        } else {
                            (g - want).abs() <= tol * want.abs().max(1.0)
                        }
                    }
                    None => false,
                },
                Expect::Text(t) => matches!(v, OwnedValue::Text(g) if g == t),
                Expect::TextOfFloat(f) => matches!(v, OwnedValue::Text(g) if g.trim().parse::<f64>().ok() == Some(*f)),
                Expect::FloatIn(lo, hi) => matches!(v, OwnedValue::Float(g) if g >= lo && g < hi),
                Expect::IntIn(lo, hi) => matches!(v, OwnedValue::Int(g) if g >= lo && g <= hi),
                Expect::TextShape(f, _) => matches!(v, OwnedValue::Text(g) if f(g)),
                _ => true,
            };
            if ok {
                None
            } else if matches!(exp, Expect::Null) {
                Some(("null_in_not_null_out", format!("got {:?}, expected NULL", v)))
            } else {
                Some(("wrong_value", format!("got {:?}, expected {:?}", v, exp)))
            }
        }
    }
}

// ---------------------------------------------------------------------------- references: helpers

fn chars(s: &str) -> Vec<char> {
    s.chars().collect()
}

fn text(a: &A) -> Option<&str> {
    match a {
        A::Text(s) => Some(s),
        _ => None,
    }
}

fn int(a: &A) -> Option<i64> {
    match a {
        A::Int(i) => Some(*i),
        _ => None,
    }
}

fn num(a: &A) -> Option<f64> {
    match a {
        A::Int(i) => Some(*i as f64),
        A::Float(b) => Some(f64::from_bits(*b)),
        _ => None,
    }
}

fn any_null(args: &[A]) -> bool {
    args.iter().any(|a| *a == A::Null)
}

/// one-to-one case mapping only (the generator never produces characters whose mapping
/// expands or depends on context)
fn map_case(s: &str, upper: bool) -> String {
    s.chars()
        .map(|c| {
            let mut it: Box<dyn Iterator<Item = char>> = if upper { Box::new(c.to_uppercase()) } else { Box::new(c.to_lowercase()) };
            let first = it.next().unwrap_or(c);
            if it.next().is_some() {
                c
            } else {
                first
            }
        })
        .collect()
}

const MONTHS: [&str; 12] = ["January", "February", "March", "April", "May", "June", "July", "August", "September", "October", "November", "December"];
const DAYS: [&str; 7] = ["Sunday", "Monday", "Tuesday", "Wednesday", "Thursday", "Friday", "Saturday"];

/// 'YYYY-MM-DD' or 'YYYY-MM-DD HH:MM:SS' as produced by the generator
fn parse_dt(s: &str) -> Option<((i32, u32, u32), Option<(u32, u32, u32)>)> {
    let (d, t) = match s.split_once(' ') {
        Some((d, t)) => (d, Some(t)),
        None => (s, None),
    };
    let p: Vec<&str> = d.split('-').collect();
    if p.len() != 3 {
        return None;
    }
    let date = (p[0].parse().ok()?, p[1].parse().ok()?, p[2].parse().ok()?);
    let time = match t {
        Some(t) => {
            let q: Vec<&str> = t.split(':').collect();
            if q.len() != 3 {
                return None;
            }
            Some((q[0].parse().ok()?, q[1].parse().ok()?, q[2].parse().ok()?))
        }
        None => None,
    };
    Some((date, time))
}

fn parse_t(s: &str) -> Option<(u32, u32, u32)> {
    let q: Vec<&str> = s.split(':').collect();
    if q.len() != 3 {
        return None;
    }
    Some((q[0].parse().ok()?, q[1].parse().ok()?, q[2].parse().ok()?))
}

fn dtext(n: i64) -> String {
    let (y, m, d) = civil_of(n);
    format!("{:04}-{:02}-{:02}", y, m, d)
}

fn in_range_day(n: i64) -> bool {
    (-719_162..=2_932_896).contains(&n)
}

fn weekday(n: i64) -> usize {
    (((n + 4) % 7 + 7) % 7) as usize
}

fn date_format(date: (i32, u32, u32), time: (u32, u32, u32), fmt: &str) -> Option<String> {
    let (y, m, d) = date;
    let n = day_number(y, m, d);
    let mut out = String::new();
    let mut it = fmt.chars();
    while let Some(c) = it.next() {
        if c != '%' {
            out.push(c);
            continue;
        }
        match it.next()? {
            'Y' => out.push_str(&format!("{:04}", y)),
            'y' => out.push_str(&format!("{:02}", y % 100)),
            'm' => out.push_str(&format!("{:02}", m)),
            'c' => out.push_str(&m.to_string()),
            'd' => out.push_str(&format!("{:02}", d)),
            'e' => out.push_str(&d.to_string()),
            'H' => out.push_str(&format!("{:02}", time.0)),
            'i' => out.push_str(&format!("{:02}", time.1)),
            's' | 'S' => out.push_str(&format!("{:02}", time.2)),
            'T' => out.push_str(&format!("{:02}:{:02}:{:02}", time.0, time.1, time.2)),
            'M' => out.push_str(MONTHS[(m - 1) as usize]),
            'b' => out.push_str(&MONTHS[(m - 1) as usize][..3]),
            'W' => out.push_str(DAYS[weekday(n)]),
            'a' => out.push_str(&DAYS[weekday(n)][..3]),
            'j' => out.push_str(&format!("{:03}", n - day_number(y, 1, 1) + 1)),
            '%' => out.push('%'),
            _ => return None,
        }
    }
    Some(out)
}

const TOL: f64 = 1e-12;

/// decimal text `[-]iii.fff` cut or rounded to `d` decimals by digit arithmetic
fn decimal_round(s: &str, d: usize, round: bool) -> Option<f64> {
    let neg = s.starts_with('-');
    let body = s.trim_start_matches('-');
    let (ip, fp) = body.split_once('.')?;
    if fp.len() <= d {
        return s.parse().ok();
    }
    let mut digits: Vec<u8> = ip.bytes().chain(fp.bytes().take(d)).map(|b| b - b'0').collect();
    let next = fp.as_bytes()[d] - b'0';
    if round && next >= 5 {
        let mut i = digits.len();
        loop {
            if i == 0 {
                digits.insert(0, 1);
                break;
            }
            i -= 1;
            if digits[i] == 9 {
                digits[i] = 0;
            } else {
                digits[i] += 1;
                break;
            }
        }
    }
    let split = digits.len() - d;
    let mut t = String::new();
    if neg {
        t.push('-');
    }
    t.extend(digits[..split].iter().map(|x| (b'0' + x) as char));
    if t.is_empty() || t == "-" {
        t.push('0');
    }
    if d > 0 {
        t.push('.');
        t.extend(digits[split..].iter().map(|x| (b'0' + x) as char));
    }
    t.parse().ok()
}

// ---------------------------------------------------------------------------- references: functions

/// The strict functions: any NULL argument gives NULL.
fn is_strict(name: &str) -> bool {
    !matches!(name, "CONCAT_WS" | "COALESCE" | "IFNULL" | "IF" | "NULLIF" | "GREATEST" | "LEAST" | "TYPEOF" | "VERSION" | "DATABASE" | "PI" | "RAND" | "NOW" | "CURDATE" | "CURTIME")
}

pub fn reference(name: &str, args: &[A]) -> Expect {
    use Expect as E;
    if is_strict(name) && any_null(args) {
        return E::Null;
    }
    let t = |i: usize| args.get(i).and_then(text);
    let n = |i: usize| args.get(i).and_then(int);
    let f = |i: usize| args.get(i).and_then(num);
    match name {
        // ---- string ----
        "UPPER" | "UCASE" => t(0).map(|s| E::Text(map_case(s, true))).unwrap_or(E::Skip),
        "LOWER" | "LCASE" => t(0).map(|s| E::Text(map_case(s, false))).unwrap_or(E::Skip),
        "LENGTH" | "LEN" => t(0).map(|s| E::Int(s.len() as i64)).unwrap_or(E::Skip),
        "CHAR_LENGTH" => t(0).map(|s| E::Int(s.chars().count() as i64)).unwrap_or(E::Skip),
        // README: SUBSTR(str, pos, len); asserted for pos >= 1 and len >= 0 (characters)
        "SUBSTR" => match (t(0), n(1), n(2)) {
            (Some(s), Some(p), Some(l)) if p >= 1 && l >= 0 => {
                let c = chars(s);
                E::Text(c.iter().skip((p - 1) as usize).take(l as usize).collect())
            }
            (Some(_), Some(_), Some(_)) => E::NoCrash,
            _ => E::Skip,
        },
        "LEFT" => match (t(0), n(1)) {
            (Some(s), Some(l)) if l >= 0 => E::Text(s.chars().take(l as usize).collect()),
            (Some(_), Some(_)) => E::NoCrash,
            _ => E::Skip,
        },
        "RIGHT" => match (t(0), n(1)) {
            (Some(s), Some(l)) if l >= 0 => {
                let c = chars(s);
                E::Text(c[c.len().saturating_sub(l as usize)..].iter().collect())
            }
            (Some(_), Some(_)) => E::NoCrash,
            _ => E::Skip,
        },
        "CONCAT" => {
            let mut out = String::new();
            for a in args {
                match text(a) {
                    Some(s) => out.push_str(s),
                    None => return E::Skip,
                }
            }
            E::Text(out)
        }
        // separator NULL gives NULL (MySQL); the other arguments are generated non-NULL
        "CONCAT_WS" => {
            if args.first() == Some(&A::Null) {
                return E::Null;
            }
            if any_null(args) {
                return E::Skip;
            }
            let sep = match t(0) {
                Some(s) => s,
                None => return E::Skip,
            };
            let parts: Vec<&str> = args[1..].iter().filter_map(text).collect();
            E::Text(parts.join(sep))
        }
        // "Trim whitespace": the generator only puts ASCII spaces around a core without
        // whitespace at its ends
        "TRIM" => t(0).map(|s| E::Text(s.trim_matches(' ').to_string())).unwrap_or(E::Skip),
        "LTRIM" => t(0).map(|s| E::Text(s.trim_start_matches(' ').to_string())).unwrap_or(E::Skip),
        "RTRIM" => t(0).map(|s| E::Text(s.trim_end_matches(' ').to_string())).unwrap_or(E::Skip),
        // asserted for len >= current length and a non-empty pad; otherwise only no crash
        "LPAD" | "RPAD" => match (t(0), n(1), t(2)) {
            (Some(s), Some(l), Some(p)) => {
                let c = chars(s);
                let pc = chars(p);
                if l < 0 || (l as usize) < c.len() || pc.is_empty() {
                    return E::NoCrash;
                }
                let need = l as usize - c.len();
                let pad: String = (0..need).map(|i| pc[i % pc.len()]).collect();
                E::Text(if name == "LPAD" { format!("{}{}", pad, s) } else { format!("{}{}", s, pad) })
            }
            _ => E::Skip,
        },
        "REPLACE" => match (t(0), t(1), t(2)) {
            (Some(s), Some(from), Some(to)) if !from.is_empty() => {
                // leftmost non-overlapping occurrences
                let (sc, fc) = (chars(s), chars(from));
                let mut out = String::new();
                let mut i = 0;
                while i < sc.len() {
                    if i + fc.len() <= sc.len() && sc[i..i + fc.len()] == fc[..] {
                        out.push_str(to);
                        i += fc.len();
                    } else {
                        out.push(sc[i]);
                        i += 1;
                    }
                }
                E::Text(out)
            }
            (Some(_), Some(_), Some(_)) => E::NoCrash,
            _ => E::Skip,
        },
        "REVERSE" => t(0).map(|s| E::Text(s.chars().rev().collect())).unwrap_or(E::Skip),
        "REPEAT" => match (t(0), n(1)) {
            (Some(s), Some(k)) if k >= 0 => E::Text((0..k).map(|_| s).collect()),
            (Some(_), Some(_)) => E::NoCrash,
            _ => E::Skip,
        },
        // "Find position": 1-based position of the first occurrence, in characters (the unit
        // SUBSTR/LEFT take), 0 when absent; INSTR(str, sub) and LOCATE(sub, str) are documented alike
        "INSTR" | "LOCATE" => {
            let (s, sub) = if name == "INSTR" { (t(0), t(1)) } else { (t(1), t(0)) };
            match (s, sub) {
                (Some(s), Some(sub)) if !sub.is_empty() => {
                    let (sc, bc) = (chars(s), chars(sub));
                    let pos = (0..sc.len()).find(|&i| i + bc.len() <= sc.len() && sc[i..i + bc.len()] == bc[..]).map(|i| i + 1).unwrap_or(0);
                    E::Int(pos as i64)
                }
                (Some(_), Some(_)) => E::NoCrash,
                _ => E::Skip,
            }
        }
        // "ASCII code of first char": asserted when the first character is ASCII
        "ASCII" => match t(0).and_then(|s| s.chars().next()) {
            Some(c) if c.is_ascii() => E::Int(c as i64),
            _ => E::NoCrash,
        },
        // collation is not documented: asserted on strings of [a-z0-9] only
        "STRCMP" => match (t(0), t(1)) {
            (Some(a), Some(b)) if a.chars().chain(b.chars()).all(|c| c.is_ascii_lowercase() || c.is_ascii_digit()) => E::Int(match a.cmp(b) {
                std::cmp::Ordering::Less => -1,
                std::cmp::Ordering::Equal => 0,
                std::cmp::Ordering::Greater => 1,
            }),
            _ => E::NoCrash,
        },
        // ---- numeric ----
        "ABS" => match &args[0] {
            A::Int(i) => i.checked_abs().map(E::Int).unwrap_or(E::MustErr),
            A::Float(b) => E::Float(f64::from_bits(*b).abs(), 0.0),
            _ => E::Skip,
        },
        "SIGN" => f(0).map(|x| E::Int(if x > 0.0 { 1 } else if x < 0.0 { -1 } else { 0 })).unwrap_or(E::Skip),
        "CEIL" | "CEILING" | "FLOOR" => match &args[0] {
            A::Int(i) => E::Int(*i),
            A::Float(b) => {
                let x = f64::from_bits(*b);
                let r = if name == "FLOOR" { x.floor() } else { x.ceil() };
                if r.abs() < 9.0e18 {
                    E::Int(r as i64)
                } else {
                    // does not fit a 64-bit integer: the exact value as a float, NULL or an error - not a clamped integer
                    E::Float(r, 0.0)
                }
            }
            _ => E::Skip,
        },
        // ROUND(n, d) / TRUNCATE(n, d) on decimal text arguments so that the expected value is
        // computed on digits; ties only at exactly .5 with d = 0 (away from zero)
        "ROUND" | "TRUNCATE" => {
            let d = match args.get(1) {
                None => 0,
                Some(A::Int(d)) if (0..=6).contains(d) => *d as usize,
                _ => return E::NoCrash,
            };
            match &args[0] {
                A::Int(i) => E::Int(*i),
                A::Float(b) => {
                    let x = f64::from_bits(*b);
                    if x.abs() >= 9.0e15 {
                        // integral already: the exact value (as an integer when it fits, else as a float), NULL or an error
                        return E::Float(x, 0.0);
                    }
                    let s = format!("{:?}", x);
                    if s.contains('e') {
                        return E::Skip;
                    }
                    match decimal_round(&s, d, name == "ROUND") {
                        Some(w) => E::Float(w, 1e-9),
                        None => E::Skip,
                    }
                }
                _ => E::Skip,
            }
        }
        // MOD(n, m): remainder with the sign of the dividend; m = 0 gives NULL
        "MOD" => match (&args[0], &args[1]) {
            (A::Int(_), A::Int(0)) => E::NullOrErr,
            (A::Int(a), A::Int(b)) => E::Int(a.checked_rem(*b).unwrap_or(0)),
            (a, b) => match (num(a), num(b)) {
                (Some(_), Some(y)) if y == 0.0 => E::NullOrErr,
                (Some(x), Some(y)) => E::Float(x % y, TOL),
                _ => E::Skip,
            },
        },
        "SQRT" => f(0).map(|x| if x < 0.0 { E::NullOrErr } else { E::Float(x.sqrt(), TOL) }).unwrap_or(E::Skip),
        "POW" | "POWER" => match (f(0), f(1)) {
            (Some(x), Some(y)) => {
                let r = x.powf(y);
                if r.is_finite() {
                    E::Float(r, TOL)
                } else {
                    E::NoCrash
                }
            }
            _ => E::Skip,
        },
        "EXP" => f(0).map(|x| if x.exp().is_finite() { E::Float(x.exp(), TOL) } else { E::NoCrash }).unwrap_or(E::Skip),
        "LOG" | "LN" if args.len() == 1 => f(0).map(|x| if x <= 0.0 { E::NullOrErr } else { E::Float(x.ln(), TOL) }).unwrap_or(E::Skip),
        "LOG10" => f(0).map(|x| if x <= 0.0 { E::NullOrErr } else { E::Float(x.log10(), TOL) }).unwrap_or(E::Skip),
        "LOG2" => f(0).map(|x| if x <= 0.0 { E::NullOrErr } else { E::Float(x.log2(), TOL) }).unwrap_or(E::Skip),
        "SIN" => f(0).map(|x| E::Float(x.sin(), TOL)).unwrap_or(E::Skip),
        "COS" => f(0).map(|x| E::Float(x.cos(), TOL)).unwrap_or(E::Skip),
        "TAN" => f(0).map(|x| E::Float(x.tan(), 1e-9)).unwrap_or(E::Skip),
        "ASIN" => f(0).map(|x| if x.abs() > 1.0 { E::NullOrErr } else { E::Float(x.asin(), TOL) }).unwrap_or(E::Skip),
        "ACOS" => f(0).map(|x| if x.abs() > 1.0 { E::NullOrErr } else { E::Float(x.acos(), TOL) }).unwrap_or(E::Skip),
        "ATAN" => f(0).map(|x| E::Float(x.atan(), TOL)).unwrap_or(E::Skip),
        "DEGREES" => f(0).map(|x| E::Float(x * 180.0 / std::f64::consts::PI, 1e-11)).unwrap_or(E::Skip),
        "RADIANS" => f(0).map(|x| E::Float(x * std::f64::consts::PI / 180.0, 1e-11)).unwrap_or(E::Skip),
        "PI" => E::Float(std::f64::consts::PI, 1e-15),
        "RAND" => E::FloatIn(0.0, 1.0),
        // all arguments of one kind (integers, floats, or [a-z0-9] strings); NULL handling is not documented
        "GREATEST" | "LEAST" => {
            if args.is_empty() || any_null(args) {
                return E::NoCrash;
            }
            let g = name == "GREATEST";
            if args.iter().all(|a| matches!(a, A::Int(_))) {
                let it = args.iter().filter_map(int);
                E::Int(if g { it.max().unwrap() } else { it.min().unwrap() })
            } else if args.iter().all(|a| matches!(a, A::Float(_))) {
                let it = args.iter().filter_map(num);
                E::Float(if g { it.fold(f64::MIN, f64::max) } else { it.fold(f64::MAX, f64::min) }, 0.0)
            } else if args.iter().all(|a| matches!(a, A::Text(_))) {
                let it = args.iter().filter_map(text);
                E::Text((if g { it.max() } else { it.min() }).unwrap().to_string())
            } else {
                E::NoCrash
            }
        }
        // ---- date / time (text in, text or integer out) ----
        "DATE" => t(0).and_then(parse_dt).map(|(d, _)| E::Text(format!("{:04}-{:02}-{:02}", d.0, d.1, d.2))).unwrap_or(E::Skip),
        "TIME" => match t(0).and_then(parse_dt) {
            Some((_, Some(tm))) => E::Text(format!("{:02}:{:02}:{:02}", tm.0, tm.1, tm.2)),
            _ => E::NoCrash,
        },
        "YEAR" => t(0).and_then(parse_dt).map(|(d, _)| E::Int(d.0 as i64)).unwrap_or(E::Skip),
        "MONTH" => t(0).and_then(parse_dt).map(|(d, _)| E::Int(d.1 as i64)).unwrap_or(E::Skip),
        "DAY" => t(0).and_then(parse_dt).map(|(d, _)| E::Int(d.2 as i64)).unwrap_or(E::Skip),
        "HOUR" | "MINUTE" | "SECOND" => {
            let tm = match t(0) {
                Some(s) => parse_t(s).or_else(|| parse_dt(s).and_then(|(_, tm)| tm)),
                None => None,
            };
            match tm {
                Some(tm) => E::Int(match name {
                    "HOUR" => tm.0,
                    "MINUTE" => tm.1,
                    _ => tm.2,
                } as i64),
                None => E::NoCrash,
            }
        }
        "DAYNAME" => t(0).and_then(parse_dt).map(|(d, _)| E::Text(DAYS[weekday(day_number(d.0, d.1, d.2))].to_string())).unwrap_or(E::Skip),
        "MONTHNAME" => t(0).and_then(parse_dt).map(|(d, _)| E::Text(MONTHS[(d.1 - 1) as usize].to_string())).unwrap_or(E::Skip),
        // "Day of week (1-7)": 1 = Sunday
        "DAYOFWEEK" => t(0).and_then(parse_dt).map(|(d, _)| E::Int(weekday(day_number(d.0, d.1, d.2)) as i64 + 1)).unwrap_or(E::Skip),
        "DAYOFYEAR" => t(0).and_then(parse_dt).map(|(d, _)| E::Int(day_number(d.0, d.1, d.2) - day_number(d.0, 1, 1) + 1)).unwrap_or(E::Skip),
        "QUARTER" => t(0).and_then(parse_dt).map(|(d, _)| E::Int(((d.1 - 1) / 3 + 1) as i64)).unwrap_or(E::Skip),
        // "Week number": the numbering mode is not documented; only the range is asserted
        "WEEK" => t(0).and_then(parse_dt).map(|_| E::IntIn(0, 54)).unwrap_or(E::Skip),
        "DATE_ADD" | "DATE_SUB" => match (t(0).and_then(parse_dt), n(1)) {
            (Some((d, None)), Some(k)) => {
                let base = day_number(d.0, d.1, d.2);
                let r = if name == "DATE_ADD" { base.checked_add(k) } else { base.checked_sub(k) };
                match r {
                    Some(r) if in_range_day(r) => E::Text(dtext(r)),
                    _ => E::NoCrash,
                }
            }
            _ => E::Skip,
        },
        // DATEDIFF(d1, d2) = d1 - d2 in days
        "DATEDIFF" => match (t(0).and_then(parse_dt), t(1).and_then(parse_dt)) {
            (Some((a, _)), Some((b, _))) => E::Int(day_number(a.0, a.1, a.2) - day_number(b.0, b.1, b.2)),
            _ => E::Skip,
        },
        "LAST_DAY" => t(0)
            .and_then(parse_dt)
            .map(|(d, _)| {
                let (ny, nm) = if d.1 == 12 { (d.0 + 1, 1) } else { (d.0, d.1 + 1) };
                let last = if ny > 9999 { 31 } else { (day_number(ny, nm, 1) - day_number(d.0, d.1, 1)) as u32 };
                E::Text(format!("{:04}-{:02}-{:02}", d.0, d.1, last))
            })
            .unwrap_or(E::Skip),
        // README: DATE_FORMAT(date, fmt)
        "DATE_FORMAT" => match (t(0).and_then(parse_dt), t(1)) {
            (Some((d, tm)), Some(fmt)) => match date_format(d, tm.unwrap_or((0, 0, 0)), fmt) {
                Some(s) => E::Text(s),
                None => E::NoCrash,
            },
            _ => E::Skip,
        },
        "NOW" => E::TextShape(|s| s.len() == 19 && s.as_bytes()[4] == b'-' && s.as_bytes()[10] == b' ' && s.as_bytes()[13] == b':', "YYYY-MM-DD HH:MM:SS"),
        "CURDATE" => E::TextShape(|s| s.len() == 10 && s.as_bytes()[4] == b'-' && s.as_bytes()[7] == b'-', "YYYY-MM-DD"),
        "CURTIME" => E::TextShape(|s| s.len() == 8 && s.as_bytes()[2] == b':' && s.as_bytes()[5] == b':', "HH:MM:SS"),
        // ---- control flow ----
        "IF" => match &args[0] {
            A::Int(c) => lit_expect(if *c != 0 { &args[1] } else { &args[2] }),
            A::Null => lit_expect(&args[2]),
            _ => E::NoCrash,
        },
        "IFNULL" => lit_expect(if args[0] == A::Null { &args[1] } else { &args[0] }),
        "NULLIF" => {
            if args[0] == A::Null {
                E::Null
            } else if args[1] != A::Null && lit_eq(&args[0], &args[1]) {
                E::Null
            } else {
                lit_expect(&args[0])
            }
        }
        "COALESCE" => args.iter().find(|a| **a != A::Null).map(lit_expect).unwrap_or(E::Null),
        // ---- system ----
        "VERSION" | "DATABASE" => E::TextShape(|s| !s.is_empty(), "non-empty text"),
        "TYPEOF" => E::TextShape(|s| !s.is_empty(), "non-empty text"),
        _ => E::Skip,
    }
}

fn lit_expect(a: &A) -> Expect {
    match a {
        A::Null => Expect::Null,
        A::Int(i) => Expect::Int(*i),
        A::Float(b) => Expect::Float(f64::from_bits(*b), 0.0),
        A::Text(s) => Expect::Text(s.clone()),
    }
}

/// SQL `=` on two non-NULL literals of the generated kinds
fn lit_eq(a: &A, b: &A) -> bool {
    match (a, b) {
        (A::Text(x), A::Text(y)) => x == y,
        (A::Int(x), A::Int(y)) => x == y,
        _ => match (num(a), num(b)) {
            (Some(x), Some(y)) => x == y,
            _ => false,
        },
    }
}

// ---------------------------------------------------------------------------- references: arithmetic

#[derive(Debug, Clone, Copy, PartialEq)]
enum RV {
    Null,
    Int(i64),
    Float(f64),
}

#[derive(Debug, Clone, Copy, PartialEq)]
enum RE {
    Overflow,
    DivZero,
    /// both somewhere in the tree: which one surfaces depends on evaluation order
    Either,
    Skip,
}

fn merge(a: RE, b: RE) -> RE {
    match (a, b) {
        (RE::Skip, _) | (_, RE::Skip) => RE::Skip,
        (x, y) if x == y => x,
        _ => RE::Either,
    }
}

fn eval_x(x: &X) -> Result<RV, RE> {
    match x {
        X::Lit(A::Null) => Ok(RV::Null),
        X::Lit(A::Int(i)) => Ok(RV::Int(*i)),
        X::Lit(A::Float(b)) => Ok(RV::Float(f64::from_bits(*b))),
        X::Lit(A::Text(_)) => Err(RE::Skip),
        X::Neg(e) => match eval_x(e)? {
            RV::Null => Ok(RV::Null),
            RV::Int(i) => i.checked_neg().map(RV::Int).ok_or(RE::Overflow),
            RV::Float(f) => Ok(RV::Float(-f)),
        },
        X::Bin(op, l, r) => {
            let (lv, rv) = match (eval_x(l), eval_x(r)) {
                (Ok(a), Ok(b)) => (a, b),
                (Err(a), Err(b)) => return Err(merge(a, b)),
                (Err(a), _) | (_, Err(a)) => return Err(a),
            };
            match (lv, rv) {
                (RV::Null, _) | (_, RV::Null) => Ok(RV::Null),
                (RV::Int(a), RV::Int(b)) => match op {
                    '+' => a.checked_add(b).map(RV::Int).ok_or(RE::Overflow),
                    '-' => a.checked_sub(b).map(RV::Int).ok_or(RE::Overflow),
                    '*' => a.checked_mul(b).map(RV::Int).ok_or(RE::Overflow),
                    '/' => {
                        if b == 0 {
                            Err(RE::DivZero)
                        } else if a == i64::MIN && b == -1 {
                            Err(RE::Overflow)
                        } else if a % b != 0 {
                            // integer / integer with a remainder: the README does not say whether `/` truncates
                            Err(RE::Skip)
                        } else {
                            Ok(RV::Int(a / b))
                        }
                    }
                    '%' => {
                        if b == 0 {
                            Err(RE::DivZero)
                        } else {
                            // the remainder of MIN % -1 is 0; an error is tolerated there too (see expectation)
                            Ok(RV::Int(a.checked_rem(b).unwrap_or(0)))
                        }
                    }
                    _ => Err(RE::Skip),
                },
                (a, b) => {
                    let (a, b) = (rv_f(a), rv_f(b));
                    match op {
                        '+' => Ok(RV::Float(a + b)),
                        '-' => Ok(RV::Float(a - b)),
                        '*' => Ok(RV::Float(a * b)),
                        '/' => {
                            if b == 0.0 {
                                Err(RE::DivZero)
                            } else {
                                Ok(RV::Float(a / b))
                            }
                        }
                        '%' => {
                            if b == 0.0 {
                                Err(RE::DivZero)
                            } else {
                                Ok(RV::Float(a % b))
                            }
                        }
                        _ => Err(RE::Skip),
                    }
                }
            }
        }
    }
}

fn rv_f(v: RV) -> f64 {
    match v {
        RV::Int(i) => i as f64,
        RV::Float(f) => f,
        RV::Null => f64::NAN,
    }
}

fn has_min_rem(x: &X) -> bool {
    // MIN % -1 somewhere: mathematically 0, but an overflow error is a defensible answer
    match x {
        X::Lit(_) => false,
        X::Neg(e) => has_min_rem(e),
        X::Bin(op, l, r) => (*op == '%' && eval_x(l) == Ok(RV::Int(i64::MIN)) && eval_x(r) == Ok(RV::Int(-1))) || has_min_rem(l) || has_min_rem(r),
    }
}

fn arith_expect(x: &X) -> Expect {
    if has_min_rem(x) {
        return Expect::NoCrash;
    }
    match eval_x(x) {
        Ok(RV::Null) => Expect::Null,
        Ok(RV::Int(i)) => Expect::Int(i),
        Ok(RV::Float(f)) => {
            if f.is_finite() {
                Expect::Float(f, 1e-15)
            } else {
                // float overflow to infinity / NaN: IEEE result, NULL or an error are all defensible
                Expect::NoCrash
            }
        }
        Err(RE::Overflow) => {
            // a NULL operand may make the evaluator skip the overflowing sub-expression
            if tree_has_null(x) {
                Expect::NullOrErr
            } else {
                Expect::MustErr
            }
        }
        Err(RE::DivZero) | Err(RE::Either) => Expect::NullOrErr,
        Err(RE::Skip) => Expect::Skip,
    }
}

fn tree_has_null(x: &X) -> bool {
    match x {
        X::Lit(a) => *a == A::Null,
        X::Neg(e) => tree_has_null(e),
        X::Bin(_, l, r) => tree_has_null(l) || tree_has_null(r),
    }
}

fn root_op(x: &X) -> String {
    match x {
        X::Lit(_) => "literal".into(),
        X::Neg(_) => "unary_minus".into(),
        X::Bin(op, _, _) => match op {
            '+' => "add",
            '-' => "sub",
            '*' => "mul",
            '/' => "div",
            '%' => "rem",
            _ => "op",
        }
        .into(),
    }
}

/// the operator at which the reference evaluation first leaves the ordinary path (overflow,
/// division by zero), else the root: keeps one finding per operator
fn blame_op(x: &X) -> String {
    fn walk(x: &X) -> Option<String> {
        match x {
            X::Lit(_) => None,
            X::Neg(e) => walk(e).or_else(|| if eval_x(x).is_err() { Some("unary_minus".into()) } else { None }),
            X::Bin(_, l, r) => walk(l).or_else(|| walk(r)).or_else(|| if eval_x(x).is_err() { Some(root_op(x)) } else { None }),
        }
    }
    walk(x).unwrap_or_else(|| root_op(x))
}

// ---------------------------------------------------------------------------- references: CAST / CASE

fn cast_expect(v: &A, ty: &str) -> Expect {
    use Expect as E;
    if *v == A::Null {
        return E::Null;
    }
    match (v, ty) {
        (A::Int(i), "TEXT") => E::Text(i.to_string()),
        (A::Int(i), "BIGINT") => E::Int(*i),
        (A::Int(i), "INT") => {
            if *i >= i32::MIN as i64 && *i <= i32::MAX as i64 {
                E::Int(*i)
            } else {
                E::NoCrash
            }
        }
        (A::Int(i), "DOUBLE") => E::Float(*i as f64, 0.0),
        (A::Text(s), "BIGINT") | (A::Text(s), "INT") => match s.parse::<i128>() {
            Ok(i) if ty == "INT" && (i < i32::MIN as i128 || i > i32::MAX as i128) => E::NoCrash,
            Ok(i) if i >= i64::MIN as i128 && i <= i64::MAX as i128 => E::Int(i as i64),
            Ok(_) => E::NullOrErr,
            Err(_) => E::NoCrash,
        },
        (A::Text(s), "DOUBLE") => s.parse::<f64>().map(|f| E::Float(f, 0.0)).unwrap_or(E::NoCrash),
        (A::Text(s), "TEXT") => E::Text(s.clone()),
        (A::Float(b), "BIGINT") => {
            let f = f64::from_bits(*b);
            if f != f.trunc() {
                E::NoCrash // rounding rule of float -> integer casts is not documented
            } else if f.abs() < 9.0e18 {
                E::Int(f as i64)
            } else {
                E::NullOrErr
            }
        }
        (A::Float(b), "DOUBLE") => E::Float(f64::from_bits(*b), 0.0),
        (A::Float(b), "TEXT") => E::TextOfFloat(f64::from_bits(*b)),
        _ => E::Skip,
    }
}

fn case_simple_expect(operand: &A, whens: &[(A, A)], else_: &Option<A>) -> Expect {
    for (w, r) in whens {
        if *operand != A::Null && *w != A::Null && lit_eq(operand, w) {
            return lit_expect(r);
        }
    }
    else_.as_ref().map(lit_expect).unwrap_or(Expect::Null)
}

fn case_searched_expect(whens: &[(A, A, A)], else_: &Option<A>) -> Expect {
    for (l, r, res) in whens {
        if *l != A::Null && *r != A::Null && lit_eq(l, r) {
            return lit_expect(res);
        }
    }
    else_.as_ref().map(lit_expect).unwrap_or(Expect::Null)
}

// ---------------------------------------------------------------------------- running a case

struct Sess {
    _dir: vcore::tmp::TempDir,
    db: Database,
    has_table: bool,
}

thread_local! {
    /// scratch database per worker thread (SELECTs of literal expressions are stateless; the
    /// UPDATE facet rewrites the single row of its own table every time). Dropped after a panic.
    static SESS: RefCell<Option<Sess>> = const { RefCell::new(None) };
}

fn take_sess() -> Result<Sess, String> {
    if let Some(s) = SESS.with(|c| c.borrow_mut().take()) {
        return Ok(s);
    }
    let dir = vcore::tmp::TempDir::new("c20");
    let db = Database::create(dir.join("db")).map_err(|e| format!("Database::create: {}", e))?;
    Ok(Sess { _dir: dir, db, has_table: false })
}

fn put_sess(s: Sess) {
    SESS.with(|c| *c.borrow_mut() = Some(s));
}

fn observe_select(sql: &str) -> Result<Obs, String> {
    let s = take_sess()?;
    let r = vcore::catch(|| s.db.query(sql));
    let obs = match r {
        Ok(Ok(rows)) => {
            if rows.len() == 1 && rows[0].values.len() == 1 {
                Obs::Val(rows[0].values[0].clone())
            } else {
                Obs::Shape(format!("{} rows x {} columns", rows.len(), rows.first().map(|r| r.values.len()).unwrap_or(0)))
            }
        }
        Ok(Err(e)) => Obs::Err(format!("{:#}", e)),
        Err(p) => return Ok(Obs::Panic(format!("panic at {}:{}: {}", vcore::short_file(&p.file), p.line, p.message))),
    };
    put_sess(s);
    Ok(obs)
}

/// `UPDATE t SET <col> = <expr>` on a one-row table, then read the row back
fn observe_update(expr_sql: &str, float_col: bool) -> Result<Obs, String> {
    let mut s = take_sess()?;
    if !s.has_table {
        s.db.execute("CREATE TABLE c20_u (id INT, v BIGINT, f DOUBLE)").map_err(|e| format!("create table: {}", e))?;
        s.db.execute("INSERT INTO c20_u VALUES (1, 7, 7.5)").map_err(|e| format!("insert: {}", e))?;
        s.has_table = true;
    }
    let sql = format!("UPDATE c20_u SET {} = {} WHERE id = 1", if float_col { "f" } else { "v" }, expr_sql);
    let r = vcore::catch(|| s.db.execute(&sql));
    let obs = match r {
        Ok(Ok(_)) => match s.db.query("SELECT * FROM c20_u") {
            Ok(rows) if rows.len() == 1 && rows[0].values.len() == 3 => Obs::Val(rows[0].values[if float_col { 2 } else { 1 }].clone()),
            Ok(rows) => Obs::Shape(format!("table has {} rows after UPDATE", rows.len())),
            Err(e) => Obs::Shape(format!("SELECT after UPDATE failed: {}", e)),
        },
        Ok(Err(e)) => Obs::Err(format!("{:#}", e)),
        Err(p) => return Ok(Obs::Panic(format!("panic at {}:{}: {}", vcore::short_file(&p.file), p.line, p.message))),
    };
    put_sess(s);
    Ok(obs)
}

fn update_ok(x: &X) -> bool {
    // the UPDATE SET evaluator handles + - * / over literals and unary minus on a literal
    match x {
        X::Lit(A::Text(_)) => false,
        X::Lit(_) => true,
        X::Neg(e) => matches!(**e, X::Lit(A::Int(_)) | X::Lit(A::Float(_))),
        X::Bin(op, l, r) => matches!(op, '+' | '-' | '*' | '/') && update_ok(l) && update_ok(r),
    }
}

fn lits_of<'a>(case: &'a Case, out: &mut Vec<&'a A>) {
    fn walk<'a>(x: &'a X, out: &mut Vec<&'a A>) {
        match x {
            X::Lit(a) => out.push(a),
            X::Neg(e) => walk(e, out),
            X::Bin(_, l, r) => {
                walk(l, out);
                walk(r, out);
            }
        }
    }
    match case {
        Case::Call { args, .. } => out.extend(args.iter()),
        Case::Arith { x } | Case::UpdateSet { x } => walk(x, out),
        Case::Cast { v, .. } => out.push(v),
        Case::CaseSimple { operand, whens, else_ } => {
            out.push(operand);
            for (a, b) in whens {
                out.push(a);
                out.push(b);
            }
            out.extend(else_.iter());
        }
        Case::CaseSearched { whens, else_ } => {
            for (a, b, c) in whens {
                out.push(a);
                out.push(b);
                out.push(c);
            }
            out.extend(else_.iter());
        }
    }
}

fn boundary_int(i: i64) -> bool {
    i.unsigned_abs() >= (1u64 << 31)
}

/// generator features that open findings exclude (see KNOWN_FINDINGS.txt); `Check::run`
/// reports them as class `gated` without evaluating
pub struct Gates {
    pub float_to_int_out_of_range: bool,
    pub date_format_percent_escape: bool,
    pub case_null_eq_null: bool,
}

/// feature tag appended to the signature when the case uses a gated generator feature
fn feature_tag(case: &Case) -> Option<&'static str> {
    match case {
        Case::CaseSearched { whens, .. } if whens.iter().any(|(l, r, _)| *l == A::Null && *r == A::Null) => Some("null_eq_null"),
        Case::Call { name, args } if name == "DATE_FORMAT" && matches!(args.get(1), Some(A::Text(f)) if f.contains("%%")) => Some("percent_escape"),
        _ => None,
    }
}

impl Check for C20 {
    type Case = Case;
    fn run(&self, case: &Case) -> Outcome {
        let mut o = Outcome::ok();
        let (label, exp) = match case {
            Case::Call { name, args } => (name.clone(), reference(name, args)),
            Case::Arith { x } => (blame_op(x), arith_expect(x)),
            Case::UpdateSet { x } => {
                if !update_ok(x) {
                    return o.class("malformed_case");
                }
                (format!("UPDATE_SET_{}", blame_op(x)), arith_expect(x))
            }
            Case::Cast { v, ty } => ("CAST".to_string(), cast_expect(v, ty)),
            Case::CaseSimple { operand, whens, else_ } => ("CASE".to_string(), case_simple_expect(operand, whens, else_)),
            Case::CaseSearched { whens, else_ } => ("CASE".to_string(), case_searched_expect(whens, else_)),
        };
        o.add_class(match case {
            Case::Call { name, .. } => format!("fn:{}", name),
            Case::Arith { .. } => "arith".to_string(),
            Case::UpdateSet { .. } => "update_set".to_string(),
            Case::Cast { .. } => "cast".to_string(),
            _ => "case_expr".to_string(),
        });
        if matches!(exp, Expect::Skip) {
            return o.class("outside_asserted_domain");
        }
        o.add_class(match exp {
            Expect::MustErr => "expect:overflow_error",
            Expect::NullOrErr => "expect:null_or_error",
            Expect::NoCrash => "expect:no_crash_only",
            Expect::Null => "expect:null",
            _ => "expect:value",
        });
        let mut lits = Vec::new();
        lits_of(case, &mut lits);
        let has_null = lits.iter().any(|a| **a == A::Null);
        let non_ascii = lits.iter().any(|a| matches!(a, A::Text(s) if !s.is_ascii()));
        let boundary = lits.iter().any(|a| matches!(a, A::Int(i) if boundary_int(*i)));
        if has_null {
            o.add_class("arg_null");
        }
        if non_ascii {
            o.add_class("arg_non_ascii");
        }
        if boundary {
            o.add_class("arg_boundary_int");
        }
        if has_null || non_ascii || boundary {
            o.nontrivial = Some(vcore::hash_of(case));
        }
        let sql = sql_of(case);
        let obs = match case {
            Case::UpdateSet { x } => {
                let float_col = matches!(eval_x(x), Ok(RV::Float(_)));
                observe_update(&sql, float_col)
            }
            _ => observe_select(&format!("SELECT {}", sql)),
        };
        let obs = match obs {
            Ok(obs) => obs,
            Err(e) => {
                o.set_fail("C20|harness|scratch_database", e);
                return o;
            }
        };
        if let Some((kind, why)) = judge(&exp, &obs) {
            let sig = match feature_tag(case) {
                Some(t) => format!("C20|{}|{}|{}", label, kind, t),
                None => format!("C20|{}|{}", label, kind),
            };
            o.set_fail(sig, format!("{} : {}", sql, why));
        }
        o
    }
}

// ---------------------------------------------------------------------------- generators

fn arb_char() -> BoxedStrategy<char> {
    fn sel(s: &'static str) -> BoxedStrategy<char> {
        proptest::sample::select(s.chars().collect::<Vec<_>>()).boxed()
    }
    prop_oneof![
        6 => proptest::char::range('a', 'z').boxed(),
        2 => proptest::char::range('A', 'Z').boxed(),
        2 => proptest::char::range('0', '9').boxed(),
        2 => sel(" _-.,'%\\\"/:"),
        3 => sel("àéîõüñçÀÉÎÕÜÑÇøØ"),
        2 => sel("абвгдАБВГД"),
        1 => sel("αβγΑΒΓ"),
        2 => sel("日本語中文한글"),
        2 => sel("😀🎉𝄞🦀"),
        1 => Just('\u{0301}').boxed(),
    ]
    .boxed()
}

fn arb_string(max: usize) -> BoxedStrategy<String> {
    proptest::collection::vec(arb_char(), 0..=max).prop_map(|v| v.into_iter().collect()).boxed()
}

fn arb_text(max: usize) -> BoxedStrategy<A> {
    arb_string(max).prop_map(A::Text).boxed()
}

fn arb_simple_text() -> BoxedStrategy<A> {
    "[a-z0-9]{0,6}".prop_map(A::Text).boxed()
}

fn boundary_ints() -> Vec<i64> {
    vec![
        i64::MIN,
        i64::MIN + 1,
        i64::MAX,
        i64::MAX - 1,
        1 << 31,
        -(1 << 31),
        (1 << 31) - 1,
        1 << 32,
        (1 << 53) + 1,
        -((1 << 53) + 1),
        1 << 62,
        -(1 << 62),
        3_037_000_500,
        -3_037_000_500,
        4_611_686_018_427_387_904,
    ]
}

fn arb_i64() -> BoxedStrategy<i64> {
    prop_oneof![
        5 => (-100i64..=100).boxed(),
        2 => any::<i32>().prop_map(|i| i as i64).boxed(),
        3 => proptest::sample::select(boundary_ints()).boxed(),
        1 => any::<i64>().boxed(),
    ]
    .boxed()
}

fn arb_int() -> BoxedStrategy<A> {
    arb_i64().prop_map(A::Int).boxed()
}

/// floats that decimal notation and binary both represent exactly (multiples of 1/8), plus a few magnitudes
fn arb_float(gates_big: bool) -> BoxedStrategy<A> {
    let mut big = vec![1e10, -1e10, 9007199254740992.0, 0.5, -0.5, 2.5, -2.5, 1e-3];
    if !gates_big {
        big.extend([1e19, -1e19, 1e30, 9.3e18]);
    }
    prop_oneof![
        6 => (-8000i64..=8000).prop_map(|k| fl(k as f64 / 8.0)).boxed(),
        2 => proptest::sample::select(big).prop_map(fl).boxed(),
    ]
    .boxed()
}

/// decimal numbers with 1..4 fractional digits whose digit after any cut position is never 5
fn arb_decimal() -> BoxedStrategy<A> {
    (any::<bool>(), 0u32..5000, proptest::collection::vec(prop_oneof![0u8..=4, 6u8..=9], 1..=4))
        .prop_map(|(neg, ip, fp)| {
            let s = format!("{}{}.{}", if neg { "-" } else { "" }, ip, fp.iter().map(|d| (b'0' + d) as char).collect::<String>());
            fl(s.parse::<f64>().unwrap())
        })
        .boxed()
}

fn arb_unit_float() -> BoxedStrategy<A> {
    (-1000i64..=1000).prop_map(|k| fl(k as f64 / 1000.0)).boxed()
}

fn arb_date_n() -> BoxedStrategy<i64> {
    prop_oneof![
        6 => (-719_162i64..=2_932_896).boxed(),
        1 => proptest::sample::select(vec![-719_162i64, -719_161, -1, 0, 1, 11_016, 19_782, 2_932_896, 2_932_895, -25_509, -141_427]).boxed(),
        // month ends and leap days
        2 => (1i32..=9999, 1u32..=12).prop_map(|(y, m)| if m == 12 { day_number(y, 12, 31) } else { day_number(y, m + 1, 1) - 1 }).boxed(),
    ]
    .boxed()
}

fn arb_date() -> BoxedStrategy<A> {
    arb_date_n().prop_map(|n| A::Text(dtext(n))).boxed()
}

fn arb_time_text() -> BoxedStrategy<String> {
    (0u32..86_400).prop_map(|s| format!("{:02}:{:02}:{:02}", s / 3600, s % 3600 / 60, s % 60)).boxed()
}

fn arb_datetime() -> BoxedStrategy<A> {
    (arb_date_n(), arb_time_text()).prop_map(|(n, t)| A::Text(format!("{} {}", dtext(n), t))).boxed()
}

fn arb_date_or_datetime() -> BoxedStrategy<A> {
    prop_oneof![arb_date(), arb_datetime()].boxed()
}

fn arb_format(percent_escape: bool) -> BoxedStrategy<A> {
    let mut specs = vec!["%Y", "%y", "%m", "%c", "%d", "%e", "%H", "%i", "%s", "%T", "%M", "%b", "%W", "%a", "%j", "-", "/", " ", ":", ","];
    if percent_escape {
        specs.push("%%");
    }
    proptest::collection::vec(proptest::sample::select(specs), 1..6).prop_map(|v| A::Text(v.concat())).boxed()
}

fn trim_text() -> BoxedStrategy<A> {
    (0usize..3, arb_string(6), 0usize..3)
        .prop_map(|(a, core, b)| {
            let core = core.trim().to_string();
            A::Text(format!("{}{}{}", " ".repeat(a), core, " ".repeat(b)))
        })
        .boxed()
}

type Args = BoxedStrategy<Vec<A>>;

fn v1(a: BoxedStrategy<A>) -> Args {
    a.prop_map(|a| vec![a]).boxed()
}
fn v2(a: BoxedStrategy<A>, b: BoxedStrategy<A>) -> Args {
    (a, b).prop_map(|(a, b)| vec![a, b]).boxed()
}
fn v3(a: BoxedStrategy<A>, b: BoxedStrategy<A>, c: BoxedStrategy<A>) -> Args {
    (a, b, c).prop_map(|(a, b, c)| vec![a, b, c]).boxed()
}
fn small(lo: i64, hi: i64) -> BoxedStrategy<A> {
    (lo..=hi).prop_map(A::Int).boxed()
}
fn numeric(g: bool) -> BoxedStrategy<A> {
    prop_oneof![arb_int(), arb_float(g)].boxed()
}
fn list(a: BoxedStrategy<A>, lo: usize, hi: usize) -> Args {
    proptest::collection::vec(a, lo..=hi).boxed()
}

/// (function, argument strategy) for every function of the README tables
fn function_table(g: &Gates) -> Vec<(&'static str, Args)> {
    let gb = g.float_to_int_out_of_range;
    let tx8 = || arb_text(8);
    vec![
        ("UPPER", v1(tx8())),
        ("UCASE", v1(tx8())),
        ("LOWER", v1(tx8())),
        ("LCASE", v1(tx8())),
        ("LENGTH", v1(tx8())),
        ("LEN", v1(tx8())),
        ("CHAR_LENGTH", v1(tx8())),
        ("SUBSTR", v3(tx8(), small(-2, 10), small(-2, 10))),
        ("LEFT", v2(tx8(), small(-2, 10))),
        ("RIGHT", v2(tx8(), small(-2, 10))),
        ("CONCAT", list(arb_text(4), 1, 4)),
        ("CONCAT_WS", (arb_text(2), list(arb_text(4), 1, 3)).prop_map(|(s, mut v)| { v.insert(0, s); v }).boxed()),
        ("TRIM", v1(trim_text())),
        ("LTRIM", v1(trim_text())),
        ("RTRIM", v1(trim_text())),
        ("LPAD", v3(arb_text(5), prop_oneof![8 => small(0, 12), 1 => small(-3, -1), 1 => Just(A::Int(i64::MIN))].boxed(), arb_text(3))),
        ("RPAD", v3(arb_text(5), prop_oneof![8 => small(0, 12), 1 => small(-3, -1), 1 => Just(A::Int(i64::MIN))].boxed(), arb_text(3))),
        ("REPLACE", v3(arb_text(8), arb_text(2), arb_text(3))),
        ("REPLACE", (arb_string(3), arb_string(2), arb_string(3), arb_string(2)).prop_map(|(a, f, b, t)| vec![A::Text(format!("{}{}{}{}", a, f, b, f)), A::Text(f), A::Text(t)]).boxed()),
        ("REVERSE", v1(tx8())),
        ("REPEAT", v2(arb_text(4), small(-1, 5))),
        ("INSTR", (arb_string(4), arb_string(2), arb_string(3)).prop_map(|(a, n, b)| vec![A::Text(format!("{}{}{}", a, n, b)), A::Text(n)]).boxed()),
        ("INSTR", v2(tx8(), arb_text(2))),
        ("LOCATE", (arb_string(4), arb_string(2), arb_string(3)).prop_map(|(a, n, b)| vec![A::Text(n.clone()), A::Text(format!("{}{}{}", a, n, b))]).boxed()),
        ("LOCATE", v2(arb_text(2), tx8())),
        ("ASCII", v1(tx8())),
        ("STRCMP", v2(arb_simple_text(), arb_simple_text())),
        ("ABS", v1(numeric(gb))),
        ("SIGN", v1(numeric(gb))),
        ("CEIL", v1(numeric(gb))),
        ("CEILING", v1(numeric(gb))),
        ("FLOOR", v1(numeric(gb))),
        ("ROUND", v2(prop_oneof![arb_decimal(), arb_float(gb), arb_int()].boxed(), small(0, 3))),
        ("ROUND", v1(prop_oneof![arb_decimal(), arb_float(gb), arb_int()].boxed())),
        // binary doubles: 4772.94 is stored slightly below 4772.94, so only exactly representable inputs are asserted
        ("TRUNCATE", v2(prop_oneof![arb_float(gb), arb_int()].boxed(), small(0, 3))),
        ("MOD", v2(arb_int(), prop_oneof![arb_int(), small(-3, 3)].boxed())),
        ("MOD", v2(arb_float(true), prop_oneof![arb_float(true), small(-2, 2)].boxed())),
        ("SQRT", v1(prop_oneof![arb_float(true), small(-2, 100)].boxed())),
        ("POW", v2((1i64..=80).prop_map(|k| fl(k as f64 / 8.0)).boxed(), prop_oneof![small(-6, 6), (-16i64..=16).prop_map(|k| fl(k as f64 / 4.0)).boxed()].boxed())),
        ("POWER", v2(small(-9, 9), small(0, 9))),
        ("EXP", v1(prop_oneof![arb_float(true), small(-20, 20)].boxed())),
        ("LOG", v1(prop_oneof![arb_float(true), small(-2, 100)].boxed())),
        ("LN", v1(prop_oneof![arb_float(true), small(-2, 100)].boxed())),
        ("LOG10", v1(prop_oneof![arb_float(true), small(-2, 1000)].boxed())),
        ("LOG2", v1(prop_oneof![arb_float(true), small(-2, 1024)].boxed())),
        ("SIN", v1(arb_float(true))),
        ("COS", v1(arb_float(true))),
        ("TAN", v1(arb_unit_float())),
        ("ASIN", v1(prop_oneof![4 => arb_unit_float(), 1 => arb_float(true)].boxed())),
        ("ACOS", v1(prop_oneof![4 => arb_unit_float(), 1 => arb_float(true)].boxed())),
        ("ATAN", v1(arb_float(true))),
        ("DEGREES", v1(arb_float(true))),
        ("RADIANS", v1(arb_float(true))),
        ("PI", Just(vec![]).boxed()),
        ("RAND", Just(vec![]).boxed()),
        ("GREATEST", list(arb_int(), 1, 4)),
        ("LEAST", list(arb_int(), 1, 4)),
        ("GREATEST", list(arb_float(true), 1, 4)),
        ("LEAST", list(arb_float(true), 1, 4)),
        ("GREATEST", list(arb_simple_text(), 1, 4)),
        ("LEAST", list(arb_simple_text(), 1, 4)),
        ("DATE", v1(arb_date_or_datetime())),
        ("TIME", v1(arb_datetime())),
        ("YEAR", v1(arb_date_or_datetime())),
        ("MONTH", v1(arb_date_or_datetime())),
        ("DAY", v1(arb_date_or_datetime())),
        ("HOUR", v1(prop_oneof![arb_datetime(), arb_time_text().prop_map(A::Text).boxed()].boxed())),
        ("MINUTE", v1(prop_oneof![arb_datetime(), arb_time_text().prop_map(A::Text).boxed()].boxed())),
        ("SECOND", v1(prop_oneof![arb_datetime(), arb_time_text().prop_map(A::Text).boxed()].boxed())),
        ("DAYNAME", v1(arb_date_or_datetime())),
        ("MONTHNAME", v1(arb_date_or_datetime())),
        ("DAYOFWEEK", v1(arb_date_or_datetime())),
        ("DAYOFYEAR", v1(arb_date_or_datetime())),
        ("QUARTER", v1(arb_date_or_datetime())),
        ("WEEK", v1(arb_date())),
        ("DATE_ADD", v2(arb_date(), prop_oneof![4 => small(-400, 400), 4 => small(-800_000, 800_000), 1 => arb_int()].boxed())),
        ("DATE_SUB", v2(arb_date(), prop_oneof![4 => small(-400, 400), 4 => small(-800_000, 800_000), 1 => arb_int()].boxed())),
        ("DATEDIFF", v2(arb_date_or_datetime(), arb_date_or_datetime())),
        ("LAST_DAY", v1(arb_date_or_datetime())),
        ("DATE_FORMAT", v2(arb_date_or_datetime(), arb_format(!g.date_format_percent_escape))),
        ("NOW", Just(vec![]).boxed()),
        ("CURDATE", Just(vec![]).boxed()),
        ("CURTIME", Just(vec![]).boxed()),
        ("IF", v3(prop_oneof![small(-1, 2), Just(A::Null)].boxed(), any_lit(), any_lit())),
        ("IFNULL", v2(any_lit(), any_lit())),
        ("NULLIF", v2(prop_oneof![small(0, 3), Just(A::Null)].boxed(), prop_oneof![small(0, 3), Just(A::Null)].boxed())),
        ("NULLIF", v2(arb_simple_text(), prop_oneof![arb_simple_text(), Just(A::Null)].boxed())),
        ("COALESCE", list(any_lit(), 1, 4)),
        ("VERSION", Just(vec![]).boxed()),
        ("DATABASE", Just(vec![]).boxed()),
        ("TYPEOF", v1(any_lit())),
    ]
}

fn any_lit() -> BoxedStrategy<A> {
    prop_oneof![3 => Just(A::Null), 3 => arb_int(), 2 => arb_float(true), 3 => arb_text(4)].boxed()
}

/// put NULL into one argument position (the NULL-in / NULL-out facet)
fn with_null(args: Args) -> Args {
    (args, any::<prop::sample::Index>())
        .prop_map(|(mut v, ix)| {
            if !v.is_empty() {
                let i = ix.index(v.len());
                v[i] = A::Null;
            }
            v
        })
        .boxed()
}

fn arb_x(depth: u32) -> BoxedStrategy<X> {
    let leaf = prop_oneof![
        8 => arb_int().prop_map(X::Lit),
        3 => arb_float(true).prop_map(X::Lit),
        1 => Just(X::Lit(A::Null)),
    ]
    .boxed();
    if depth == 0 {
        return leaf;
    }
    let sub = arb_x(depth - 1);
    prop_oneof![
        2 => leaf,
        1 => sub.clone().prop_map(|e| X::Neg(Box::new(e))),
        8 => (proptest::sample::select(vec!['+', '-', '*', '/', '%']), sub.clone(), sub.clone()).prop_map(|(op, l, r)| X::Bin(op, Box::new(l), Box::new(r))),
        // exact quotients, zero divisors and the MIN / -1 corner
        2 => (arb_i64(), prop_oneof![(-12i64..=12).boxed(), Just(-1i64).boxed(), Just(0i64).boxed()])
            .prop_map(|(q, b)| X::Bin('/', Box::new(X::Lit(A::Int(q.checked_mul(b).unwrap_or(q)))), Box::new(X::Lit(A::Int(b))))),
    ]
    .boxed()
}

fn arb_update_x(depth: u32) -> BoxedStrategy<X> {
    let leaf = prop_oneof![
        8 => arb_int().prop_map(X::Lit),
        3 => arb_float(true).prop_map(X::Lit),
        1 => Just(X::Lit(A::Null)),
    ]
    .boxed();
    if depth == 0 {
        return leaf;
    }
    let sub = arb_update_x(depth - 1);
    prop_oneof![
        1 => leaf,
        8 => (proptest::sample::select(vec!['+', '-', '*', '/']), sub.clone(), sub.clone()).prop_map(|(op, l, r)| X::Bin(op, Box::new(l), Box::new(r))),
        2 => (arb_i64(), prop_oneof![(-12i64..=12).boxed(), Just(-1i64).boxed(), Just(0i64).boxed()])
            .prop_map(|(q, b)| X::Bin('/', Box::new(X::Lit(A::Int(q.checked_mul(b).unwrap_or(q)))), Box::new(X::Lit(A::Int(b))))),
    ]
    .boxed()
}

fn arb_cast(g: &Gates) -> BoxedStrategy<Case> {
    let ty = |v: Vec<&'static str>| proptest::sample::select(v).prop_map(|s| s.to_string());
    prop_oneof![
        3 => (arb_int(), ty(vec!["TEXT", "BIGINT", "INT", "DOUBLE"])).prop_map(|(v, ty)| Case::Cast { v, ty }),
        2 => (arb_i64().prop_map(|i| A::Text(i.to_string())), ty(vec!["BIGINT", "INT", "DOUBLE", "TEXT"])).prop_map(|(v, ty)| Case::Cast { v, ty }),
        1 => (proptest::sample::select(vec!["9223372036854775808", "-9223372036854775809", "99999999999999999999"]).prop_map(tx), ty(vec!["BIGINT"])).prop_map(|(v, ty)| Case::Cast { v, ty }),
        2 => (arb_float(g.float_to_int_out_of_range), ty(vec!["BIGINT", "DOUBLE", "TEXT"])).prop_map(|(v, ty)| Case::Cast { v, ty }),
        1 => ((-4000i64..=4000).prop_map(|k| A::Text(format!("{:?}", k as f64 / 8.0))), ty(vec!["DOUBLE"])).prop_map(|(v, ty)| Case::Cast { v, ty }),
        1 => (Just(A::Null), ty(vec!["TEXT", "BIGINT", "INT", "DOUBLE", "DATE", "BOOLEAN"])).prop_map(|(v, ty)| Case::Cast { v, ty }),
    ]
    .boxed()
}

fn arb_case_expr(null_eq_null_gated: bool) -> BoxedStrategy<Case> {
    let key = || prop_oneof![4 => small(0, 3), 1 => Just(A::Null)].boxed();
    let tkey = || prop_oneof![4 => proptest::sample::select(vec!["a", "b", "é", ""]).prop_map(tx).boxed(), 1 => Just(A::Null).boxed()].boxed();
    prop_oneof![
        (key(), proptest::collection::vec((key(), any_lit()), 1..4), proptest::option::of(any_lit())).prop_map(|(operand, whens, else_)| Case::CaseSimple { operand, whens, else_ }),
        (tkey(), proptest::collection::vec((tkey(), any_lit()), 1..4), proptest::option::of(any_lit())).prop_map(|(operand, whens, else_)| Case::CaseSimple { operand, whens, else_ }),
        (proptest::collection::vec((key(), key(), any_lit()), 1..4), proptest::option::of(any_lit())).prop_map(move |(mut whens, else_)| {
            if null_eq_null_gated {
                // open finding: `NULL = NULL` evaluates to true; keep at most one side NULL
                for w in whens.iter_mut() {
                    if w.0 == A::Null && w.1 == A::Null {
                        w.1 = A::Int(0);
                    }
                }
            }
            Case::CaseSearched { whens, else_ }
        }),
    ]
    .boxed()
}

pub fn strategy(g: Gates) -> BoxedStrategy<Case> {
    let table = function_table(&g);
    let mut calls: Vec<BoxedStrategy<Case>> = Vec::new();
    for (name, args) in table {
        let n = name.to_string();
        let n2 = n.clone();
        let plain = args.clone().prop_map(move |args| Case::Call { name: n.clone(), args }).boxed();
        let nulled = with_null(args).prop_map(move |args| Case::Call { name: n2.clone(), args }).boxed();
        calls.push(prop_oneof![5 => plain, 1 => nulled].boxed());
    }
    let calls = proptest::strategy::Union::new(calls).boxed();
    prop_oneof![
        60 => calls,
        22 => arb_x(3).prop_map(|x| Case::Arith { x }),
        6 => arb_update_x(2).prop_map(|x| Case::UpdateSet { x }),
        7 => arb_cast(&g),
        5 => arb_case_expr(g.case_null_eq_null),
    ]
    .boxed()
}

fn limit_address_space(bytes: u64) {
    let r = libc::rlimit { rlim_cur: bytes as libc::rlim_t, rlim_max: bytes as libc::rlim_t };
    // SAFETY: plain syscall on a fully initialised struct
    unsafe {
        libc::setrlimit(libc::RLIMIT_AS, &r);
    }
}

pub fn main(tier: Tier, replay: Option<String>) -> i32 {
    if let Some(p) = replay {
        limit_address_space(24 << 30);
        return vcore::replay_file("C20", &C20, &p);
    }
    // a function that loops on a huge count (RPAD with a negative length did) must take this
    // process down, not the machine
    limit_address_space(24 << 30);
    let ctx = Ctx::new("C20", tier, "exploration");
    ctx.set_rule(
        "one application per case, generated by proptest: every function of the README tables (string, numeric, date/time, control flow, system) on \
         literal arguments, with NULL planted in one argument position in 1 of 6 calls; arithmetic trees (depth <= 3) over + - * / % and unary minus on \
         boundary integers, exact floats and NULL; the same trees (+ - * /) through UPDATE .. SET; CAST; simple and searched CASE. Non-trivial = some \
         argument is NULL, a non-ASCII string or an integer of magnitude >= 2^31; distinct by hash of the case.",
    );
    ctx.assume("README tables are the specification; MySQL reading for MySQL-named functions the README only names (DATEDIFF sign, DAYOFWEEK 1 = Sunday, DATE_FORMAT specifiers)");
    ctx.assume("where the README is silent the case is generated inside the unambiguous sub-domain or only 'does not crash' is asserted (class expect:no_crash_only)");
    ctx.assume("transcendental functions are compared with Rust's f64 functions at relative tolerance 1e-12");
    ctx.assume("NOW/CURDATE/CURTIME/RAND: only the shape / range of the result is checked (no wall clock in the oracle)");
    let g_float = ctx.gate_closed("float_to_int_out_of_range");
    let g_percent = ctx.gate_closed("date_format.percent_escape");
    let g_case = ctx.gate_closed("case.null_eq_null");
    let gates = move || Gates { float_to_int_out_of_range: g_float, date_format_percent_escape: g_percent, case_null_eq_null: g_case };
    let cases = tier.pick(2_000_000, 40_000_000);
    if std::env::var("C20_SURVEY").is_ok() {
        // development aid: run the cases without stopping or shrinking and list every signature once
        survey(strategy(gates()), cases.min(200_000), ctx.seed);
        return 2;
    }
    vcore::drive(&ctx, &C20, || strategy(gates()), cases, 16);
    ctx.finish()
}

fn survey(strategy: BoxedStrategy<Case>, cases: u64, seed: u64) {
    use proptest::strategy::ValueTree;
    use proptest::test_runner::{Config, TestRunner};
    let mut runner = TestRunner::new_with_rng(Config { failure_persistence: None, ..Config::default() }, vcore::rng_from_seed(seed));
    let mut seen: std::collections::BTreeMap<String, (u64, String)> = Default::default();
    for _ in 0..cases {
        let Ok(tree) = strategy.new_tree(&mut runner) else { continue };
        let case = tree.current();
        let out = C20.run(&case);
        if let Some(f) = out.failure {
            let e = seen.entry(f.sig.clone()).or_insert((0, f.detail.clone()));
            e.0 += 1;
            if f.detail.len() < e.1.len() {
                e.1 = f.detail;
            }
        }
    }
    for (sig, (n, d)) in &seen {
        println!("{:6} {}\n         {}", n, sig, d);
    }
    println!("{} distinct signatures", seen.len());
}
