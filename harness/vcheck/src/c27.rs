//! C27 Varints round-trip with canonical length.
//!
//! Domain: (a) values — every value whose encoding has 1..4 bytes exhaustively (quick),
//! the whole 5-byte class in thorough, the 9-byte class by boundary / one-hot / byte-sweep
//! patterns plus generated values; (b) byte strings — every string of length <= 2
//! exhaustively, every first byte x boundary continuations for lengths 3..9, and generated
//! strings. Oracle: an independent specification of the format written from the format
//! description (value ranges per marker byte), the round-trip law, and the bounds law
//! `consumed <= len`.

use std::sync::Arc;

use proptest::prelude::*;
use serde::{Deserialize, Serialize};
use serde_json::json;
use turdb::encoding::varint::{decode_varint, encode_varint, varint_len};
use vcore::{Check, Ctx, Outcome, Tier};

#[derive(Debug, Clone, Serialize, Deserialize)]
pub enum Case {
    Value(u64),
    Bytes(Vec<u8>),
}

pub struct C27;

/// Length the format description gives to `v` (independent of `varint_len`).
fn spec_len(v: u64) -> usize {
    match v {
        0..=240 => 1,
        241..=2287 => 2,
        2288..=67823 => 3,
        67824..=0xFF_FFFF => 4,
        0x100_0000..=0xFFFF_FFFF => 5,
        _ => 9,
    }
}

/// Reference decoder written from the format description.
fn spec_decode(b: &[u8]) -> Option<(u64, usize)> {
    let f = *b.first()?;
    let need = match f {
        0..=240 => 1,
        241..=248 => 2,
        249 => 3,
        250 => 4,
        251 => 5,
        255 => 9,
        _ => return None,
    };
    if b.len() < need {
        return None;
    }
    let v = match f {
        0..=240 => f as u64,
        241..=248 => 240 + 256 * (f as u64 - 241) + b[1] as u64,
        249 => 2288 + 256 * b[1] as u64 + b[2] as u64,
        250 => b[1..4].iter().fold(0u64, |a, x| a * 256 + *x as u64),
        251 => b[1..5].iter().fold(0u64, |a, x| a * 256 + *x as u64),
        _ => b[1..9].iter().fold(0u64, |a, x| (a << 8) | *x as u64),
    };
    Some((v, need))
}

#[inline]
fn check_value(v: u64) -> Result<(), (String, String)> {
    let mut buf = [0xAAu8; 16];
    let n = encode_varint(v, &mut buf);
    let l = varint_len(v);
    if n != l {
        return Err(("C27|encode_len_vs_varint_len".into(), format!("v={} encode returned {} varint_len {}", v, n, l)));
    }
    if l != spec_len(v) {
        return Err(("C27|noncanonical_len".into(), format!("v={} varint_len {} spec {}", v, l, spec_len(v))));
    }
    if buf[n..].iter().any(|b| *b != 0xAA) {
        return Err(("C27|encode_wrote_past_len".into(), format!("v={} wrote beyond {} bytes", v, n)));
    }
    match decode_varint(&buf[..n]) {
        Ok((v2, c)) => {
            if v2 != v || c != n {
                return Err(("C27|roundtrip".into(), format!("v={} decoded ({},{}) expected ({},{})", v, v2, c, v, n)));
            }
        }
        Err(e) => return Err(("C27|roundtrip_err".into(), format!("v={} decode of own encoding failed: {}", v, e))),
    }
    // decoding with trailing garbage must give the same answer
    match decode_varint(&buf[..]) {
        Ok((v2, c)) if v2 == v && c == n => {}
        other => return Err(("C27|roundtrip_trailing".into(), format!("v={} with trailing bytes -> {:?}", v, other.map_err(|e| e.to_string())))),
    }
    // every strict prefix of the encoding must be rejected (never reads past the input)
    for k in 0..n {
        if let Ok((v2, c)) = decode_varint(&buf[..k]) {
            if c > k {
                return Err(("C27|consumed_gt_len".into(), format!("v={} prefix {} bytes decoded ({},{})", v, k, v2, c)));
            }
            return Err(("C27|truncated_accepted".into(), format!("v={} prefix of {} bytes decoded to ({},{})", v, k, v2, c)));
        }
    }
    Ok(())
}

#[inline]
fn check_bytes(b: &[u8]) -> Result<bool, (String, String)> {
    let spec = spec_decode(b);
    match (decode_varint(b), spec) {
        (Ok((v, c)), Some((sv, sc))) => {
            if c > b.len() {
                return Err(("C27|consumed_gt_len".into(), format!("bytes={:?} consumed {} > len {}", b, c, b.len())));
            }
            if v != sv || c != sc {
                return Err(("C27|decode_value".into(), format!("bytes={:?} decoded ({},{}) spec ({},{})", b, v, c, sv, sc)));
            }
            Ok(true)
        }
        (Ok((v, c)), None) => {
            if c > b.len() {
                Err(("C27|consumed_gt_len".into(), format!("bytes={:?} consumed {} > len {}", b, c, b.len())))
            } else {
                Err(("C27|invalid_accepted".into(), format!("bytes={:?} decoded to ({},{}) but the format has no such encoding", b, v, c)))
            }
        }
        (Err(e), Some((sv, sc))) => Err(("C27|valid_rejected".into(), format!("bytes={:?} rejected ({}) but encodes ({},{})", b, e, sv, sc))),
        (Err(_), None) => Ok(false),
    }
}

impl Check for C27 {
    type Case = Case;
    fn run(&self, case: &Case) -> Outcome {
        let r = match case {
            Case::Value(v) => check_value(*v).map(|_| *v > 240),
            Case::Bytes(b) => check_bytes(b),
        };
        match r {
            Ok(nt) => {
                let o = Outcome::ok();
                if nt {
                    o.nontrivial(vcore::hash_of(&format!("{:?}", case)))
                } else {
                    o
                }
            }
            Err((sig, detail)) => Outcome::ok().fail(sig, detail),
        }
    }
}

fn enum_values(ctx: &Arc<Ctx>, lo: u64, hi: u64, threads: u64) {
    // [lo, hi] inclusive, split into contiguous ranges
    let total = hi - lo + 1;
    let per = (total + threads - 1) / threads;
    std::thread::scope(|sc| {
        for t in 0..threads {
            let ctx = ctx.clone();
            sc.spawn(move || {
                let a = lo + t * per;
                if a > hi {
                    return;
                }
                let b = (a + per - 1).min(hi);
                let mut nt = 0u64;
                let mut v = a;
                loop {
                    if (v & 0xFFFF) == 0 && ctx.stop.load(std::sync::atomic::Ordering::Relaxed) {
                        break;
                    }
                    match vcore::catch(|| check_value(v)) {
                        Ok(Ok(())) => {}
                        Ok(Err((sig, detail))) => {
                            ctx.record_failure(&vcore::Failure::new(sig, detail), &serde_json::to_value(Case::Value(v)).unwrap());
                            break;
                        }
                        Err(p) => {
                            ctx.record_failure(
                                &vcore::Failure::new(vcore::panic_signature(&p), format!("v={} panic {}:{} {}", v, p.file, p.line, p.message)),
                                &serde_json::to_value(Case::Value(v)).unwrap(),
                            );
                            break;
                        }
                    }
                    if v > 240 {
                        nt += 1;
                    }
                    if v == b {
                        break;
                    }
                    v += 1;
                }
                ctx.count_eval(v - a + 1);
                ctx.count_nontrivial_enumerated(nt);
            });
        }
    });
}

fn one(ctx: &Arc<Ctx>, case: Case) {
    let out = match vcore::catch(|| C27.run(&case)) {
        Ok(o) => o,
        Err(p) => Outcome::ok().fail(vcore::panic_signature(&p), format!("{:?}: panic {}:{} {}", case, p.file, p.line, p.message)),
    };
    ctx.count_eval(1);
    if let Some(h) = out.nontrivial {
        ctx.count_nontrivial(h);
    }
    if let Some(f) = out.failure {
        ctx.record_failure(&f, &serde_json::to_value(&case).unwrap());
    }
}

pub fn main(tier: Tier, replay: Option<String>) -> i32 {
    if let Some(p) = replay {
        return vcore::replay_file("C27", &C27, &p);
    }
    let ctx = Ctx::new("C27", tier, "exploration");
    ctx.set_rule(
        "values: exhaustive over every value with a 1..4-byte encoding (plus the whole 5-byte class in thorough), \
         9-byte class by boundaries, one-hot, byte-sweep and generated values; byte strings: all of length <=2, \
         every first byte x boundary continuations for lengths 3..9, plus generated strings. Non-trivial = value > 240 \
         (multi-byte encoding) or a byte string the format accepts; enumerated values are distinct by construction, \
         generated ones are de-duplicated by hash.",
    );
    ctx.assume("the 9-byte class (2^64 - 2^32 values) is sampled, not exhausted");
    vcore::replay_witnesses(&ctx, &C27);

    // (a) exhaustive value classes
    enum_values(&ctx, 0, 0xFF_FFFF, 16);
    ctx.class("values_1_to_4_byte_exhaustive", 0x100_0000);
    if tier == Tier::Thorough {
        enum_values(&ctx, 0x100_0000, 0xFFFF_FFFF, 16);
        ctx.class("values_5_byte_exhaustive", 0x1_0000_0000 - 0x100_0000);
        ctx.set_exhaustive(false);
    } else {
        // 5-byte class: boundaries and a stride sweep
        let mut v = 0x100_0000u64;
        let mut n = 0;
        while v <= 0xFFFF_FFFF {
            one(&ctx, Case::Value(v));
            v += 4099;
            n += 1;
        }
        for v in [0x100_0000u64, 0x100_0001, 0xFFFF_FFFE, 0xFFFF_FFFF] {
            one(&ctx, Case::Value(v));
        }
        ctx.class("values_5_byte_stride", n);
    }
    // 9-byte class: boundaries, one-hot, byte sweeps
    let mut pats: Vec<u64> = vec![0x1_0000_0000, 0x1_0000_0001, u64::MAX, u64::MAX - 1, i64::MAX as u64, i64::MAX as u64 + 1];
    for i in 32..64 {
        pats.push(1u64 << i);
        pats.push((1u64 << i) - 1 + (1u64 << 32));
        pats.push(!(1u64 << i));
    }
    for byte in 0..8 {
        for b in 0..=255u64 {
            pats.push((b << (8 * byte)) | (1u64 << 40));
        }
    }
    ctx.class("values_9_byte_patterns", pats.len() as u64);
    for v in pats {
        one(&ctx, Case::Value(v));
    }

    // (b) byte strings
    one(&ctx, Case::Bytes(vec![]));
    for a in 0..=255u8 {
        one(&ctx, Case::Bytes(vec![a]));
        for b in 0..=255u8 {
            one(&ctx, Case::Bytes(vec![a, b]));
        }
    }
    ctx.class("bytes_len_le_2_exhaustive", 1 + 256 + 65536);
    let conts: [u8; 6] = [0x00, 0x01, 0x7F, 0x80, 0xFE, 0xFF];
    let mut n = 0u64;
    for first in 0..=255u8 {
        for len in 3..=9usize {
            // every position takes each boundary byte while the others stay 0x00 / 0xFF
            for fill in [0x00u8, 0xFF] {
                for pos in 1..len {
                    for c in conts {
                        let mut b = vec![fill; len];
                        b[0] = first;
                        b[pos] = c;
                        one(&ctx, Case::Bytes(b));
                        n += 1;
                    }
                }
            }
        }
    }
    ctx.class("bytes_len_3_to_9_boundary", n);

    // (c) generated values and byte strings
    let strat = || prop_oneof![
        any::<u64>().prop_map(Case::Value),
        (0u32..64, any::<u64>()).prop_map(|(s, v)| Case::Value(v >> s)),
        proptest::collection::vec(any::<u8>(), 0..12).prop_map(Case::Bytes),
        (prop_oneof![Just(249u8), Just(250), Just(251), Just(255), 241u8..=248, 252u8..=254], proptest::collection::vec(any::<u8>(), 0..10))
            .prop_map(|(f, mut rest)| {
                rest.insert(0, f);
                Case::Bytes(rest)
            }),
    ];
    let gen_cases = tier.pick(400_000, 20_000_000);
    vcore::drive(&ctx, &C27, strat, gen_cases, 16);
    ctx.class("generated", gen_cases);
    ctx.sample(json!({"Value": 241, "encoding": [241, 1]}));
    ctx.sample(json!({"Value": 0x100_0000u64, "encoding_len": 5}));
    ctx.sample(json!({"Bytes": [252, 0, 0], "expected": "rejected: marker 252 is not part of the format"}));
    ctx.finish()
}
