//! C19 Equivalent query formulations return identical results.
//!
//! Purely metamorphic on TurDB itself (no external oracle): a generated base query and a
//! generated rewrite that SQL defines to be equivalent must return equal bags.
//! Relations: `tlp` (rows of WHERE p, WHERE NOT p and WHERE p IS NULL together are the rows
//! without the filter), `tlp_aggregate` (COUNT(*) / MIN / MAX / SUM recombined from the three
//! partitions), `commute_and` / `commute_or` (operand order), `noop_and_true` /
//! `noop_or_false` (adding `AND 1 = 1` / `OR 1 = 0`), `in_list_as_or` / `not_in_list_as_and`,
//! `permute_select_items` (up to the column permutation), `reorder_from_items` (inner / cross
//! joins) and `on_to_where` (a conjunct moved between ON and WHERE of an inner join).

use std::collections::BTreeSet;

use proptest::prelude::*;
use serde::{Deserialize, Serialize};
use vcore::{Check, Ctx, Outcome, Tier};

use crate::equery::*;

#[derive(Debug, Clone, Copy, PartialEq, Eq, Serialize, Deserialize)]
pub enum Rel {
    Tlp,
    TlpAggregate,
    CommuteAnd,
    CommuteOr,
    NoopAndTrue,
    NoopOrFalse,
    InListAsOr,
    NotInListAsAnd,
    PermuteItems,
    ReorderFrom,
    OnToWhere,
    /// TLP over a vector-distance predicate (`e <-> q < d`)
    TlpVector,
    /// TLP over JSON extraction predicates (`j->>'k' = '1'`, `j->'k' >= 2`)
    TlpJson,
    /// `SUM(c) OVER (PARTITION BY k)` against `GROUP BY k` recombined per row
    WindowVsGroupBy,
}

impl Rel {
    fn name(self) -> &'static str {
        match self {
            Rel::Tlp => "tlp",
            Rel::TlpAggregate => "tlp_aggregate",
            Rel::CommuteAnd => "commute_and",
            Rel::CommuteOr => "commute_or",
            Rel::NoopAndTrue => "noop_and_true",
            Rel::NoopOrFalse => "noop_or_false",
            Rel::InListAsOr => "in_list_as_or",
            Rel::NotInListAsAnd => "not_in_list_as_and",
            Rel::PermuteItems => "permute_select_items",
            Rel::ReorderFrom => "reorder_from_items",
            Rel::OnToWhere => "on_to_where",
            Rel::TlpVector => "tlp_vector",
            Rel::TlpJson => "tlp_json",
            Rel::WindowVsGroupBy => "window_vs_group_by",
        }
    }
}

#[derive(Debug, Clone, Serialize, Deserialize)]
pub struct Case {
    pub schema: Schema,
    pub rel: Rel,
    /// join the first two tables (inner, on a column equality) instead of scanning table 0
    pub join: Option<(JoinKind, u8, u8)>,
    /// extra select columns (item, class, selector); the ids of all items always come first
    pub cols: Vec<(u8, u8, u8)>,
    pub p: E,
    pub q: E,
    /// IN-list relations: left side column selector and list
    pub list: Vec<E>,
    pub perm: Vec<u8>,
    pub agg: u8,
}

pub struct C19 {
    pub gates: BTreeSet<String>,
    pub inherited: BTreeSet<String>,
    pub all_tags: bool,
}

pub const TRIGGERS: &[&str] = &["aggregate.over_join"];

fn and(a: E, b: E) -> E {
    E::And(Box::new(a), Box::new(b))
}
fn or(a: E, b: E) -> E {
    E::Or(Box::new(a), Box::new(b))
}

impl Case {
    fn base(&self) -> Select {
        let mut q = Select::default();
        q.from.push(FromItem { src: Src::Table(0), join: JoinKind::Comma, on: None });
        if let Some((k, s0, s1)) = self.join {
            let on = if matches!(k, JoinKind::Inner) { Some(E::Cmp(CmpOp::Eq, Box::new(E::ICol { item: 0, cls: Cls::Num, sel: s0 }), Box::new(E::ICol { item: 1, cls: Cls::Num, sel: s1 }))) } else { None };
            q.from.push(FromItem { src: Src::Table(1), join: k, on });
        }
        let n = q.from.len() as u8;
        for i in 0..n {
            q.items.push(Item { e: E::ICol { item: i, cls: Cls::Num, sel: 0 }, alias: false });
        }
        for (item, c, sel) in &self.cols {
            // numeric columns only: a missing text / bool column would become a constant item
            let _ = c;
            q.items.push(Item { e: E::ICol { item: item % n, cls: Cls::Num, sel: *sel }, alias: false });
        }
        q
    }
}

/// one side of a relation: the bag union of several queries, optionally with the columns
/// permuted back (`perm[i]` = position in the rewritten query of original column i)
struct Side {
    queries: Vec<Select>,
    perm: Option<Vec<usize>>,
}

impl C19 {
    /// relations over dialect features without an external oracle: a dedicated table
    /// `tx (id INT, e VECTOR(3), j JSONB, k INT, c INT)` derived from table 0's selectors
    fn go_extra(&self, case: &Case, gates: &BTreeSet<String>) -> Outcome {
        let mut out = Outcome::ok();
        let name = case.rel.name();
        if gates.contains(&format!("rel.{}", name)) {
            out.add_class(format!("gated:rel.{}", name));
            return out;
        }
        let sels: Vec<Vec<u8>> = match &case.schema.tables[0].rows {
            Rows::Explicit(r) => r.clone(),
            _ => vec![],
        };
        let db = crate::world::Db::create("C19x");
        if db.h().execute("CREATE TABLE tx (id INT, e VECTOR(3), j JSONB, k INT, c INT)").is_err() {
            out.add_class(format!("rejected:{}", name));
            return out;
        }
        let mut nulls = false;
        for (i, r) in sels.iter().enumerate() {
            let g = |k: usize| r.get(k).copied().unwrap_or(0);
            let e = if g(0) % 10 >= 9 { "NULL".to_string() } else { format!("'[{},{},{}]'", g(0) % 3, g(1) % 3, g(2) % 3) };
            let j = if g(3) % 10 >= 8 { "NULL".to_string() } else if g(3) % 10 == 7 { "'{\"s\": \"x\"}'".to_string() } else { format!("'{{\"k\": {}, \"s\": \"{}\"}}'", g(3) % 4, ["a", "b", "ab"][g(3) as usize % 3]) };
            let k = pool(Ty::Int, g(4)).sql();
            let c = pool(Ty::Int, g(1)).sql();
            if e == "NULL" || j == "NULL" || k == "NULL" || c == "NULL" {
                nulls = true;
            }
            if let Err(err) = db.h().execute(&format!("INSERT INTO tx VALUES ({}, {}, {}, {}, {})", i + 1, e, j, k, c)) {
                out.add_class(format!("rejected:{}", name));
                if std::env::var("VERIF_DEV_REJECTS").is_ok() {
                    eprintln!("rejected insert: {}", err);
                }
                return out;
            }
        }
        out.add_class(format!("rel:{}", name));
        let run = |sql: &str| -> Result<Vec<Row>, String> { db.query(sql).map(|r| norm_rows(&r)) };
        let pv = |k: usize| case.perm.get(k).copied().unwrap_or(0);
        match case.rel {
            Rel::TlpVector | Rel::TlpJson => {
                let p = if case.rel == Rel::TlpVector {
                    let d = ["0.5", "1.1", "1.5", "2.5"][case.agg as usize % 4];
                    let op = ["<", ">=", "<="][pv(3) as usize % 3];
                    format!("e <-> '[{},{},{}]' {} {}", pv(0) % 3, pv(1) % 3, pv(2) % 3, op, d)
                } else {
                    match case.agg % 3 {
                        0 => format!("j->>'k' = '{}'", pv(0) % 4),
                        1 => format!("j->'k' >= {}", pv(0) % 4),
                        _ => format!("j->>'s' = '{}'", ["a", "b", "ab"][pv(0) as usize % 3]),
                    }
                };
                let whole = format!("SELECT id FROM tx");
                let parts = [format!("SELECT id FROM tx WHERE {}", p), format!("SELECT id FROM tx WHERE NOT ({})", p), format!("SELECT id FROM tx WHERE ({}) IS NULL", p)];
                let mut bag = Vec::new();
                for q in &parts {
                    match run(q) {
                        Ok(r) => bag.extend(r),
                        Err(e) => {
                            out.add_class(format!("rejected:{}", name));
                            if std::env::var("VERIF_DEV_REJECTS").is_ok() {
                                eprintln!("rejected: {} -> {}", q, e);
                            }
                            return out;
                        }
                    }
                }
                let all = match run(&whole) {
                    Ok(r) => r,
                    Err(_) => return out,
                };
                if let Some((kind, d)) = bag_mismatch(&all, &bag) {
                    out.set_fail(format!("C19|{}|{}|-", name, kind), format!("original: {}\n  rewrite:  {}\n  {}", whole, parts.join("  ⊎  "), d));
                    return out;
                }
            }
            _ => {
                let w = run("SELECT id, SUM(c) OVER (PARTITION BY k) FROM tx");
                let ids = run("SELECT id, k FROM tx");
                let grp = run("SELECT k, SUM(c) FROM tx GROUP BY k");
                let (w, ids, grp) = match (w, ids, grp) {
                    (Ok(a), Ok(b), Ok(c)) => (a, b, c),
                    _ => {
                        out.add_class(format!("rejected:{}", name));
                        return out;
                    }
                };
                let expect: Vec<Row> = ids
                    .iter()
                    .map(|r| {
                        let s = grp.iter().find(|g| val_eq(&g[0], &r[1])).map(|g| g[1].clone()).unwrap_or(Val::Null);
                        vec![r[0].clone(), s]
                    })
                    .collect();
                if let Some((kind, d)) = bag_mismatch(&expect, &w) {
                    out.set_fail(format!("C19|{}|{}|-", name, kind), format!("SELECT id, SUM(c) OVER (PARTITION BY k) FROM tx  vs  SELECT k, SUM(c) FROM tx GROUP BY k joined on k\n  {}", d));
                    return out;
                }
            }
        }
        out.add_class("checked");
        if nulls && sels.len() >= 2 {
            out.add_class("nontrivial");
            out.nontrivial = Some(vcore::hash_of(&(name, format!("{:?}{:?}{}", sels, case.perm, case.agg))));
        }
        out
    }

    fn go(&self, case: &Case, gates: &BTreeSet<String>, inherited: &BTreeSet<String>) -> Outcome {
        if matches!(case.rel, Rel::TlpVector | Rel::TlpJson | Rel::WindowVsGroupBy) {
            return self.go_extra(case, gates);
        }
        let mut out = Outcome::ok();
        let schema = &case.schema;
        let base = case.base();
        let with = |f: E| {
            let mut q = base.clone();
            q.filter = Some(f);
            q
        };
        let p = case.p.clone();
        let q2 = case.q.clone();
        let mut tags: BTreeSet<&'static str> = BTreeSet::new();
        let mut agg_mode: Option<AggFn> = None;
        let (left, right): (Side, Side) = match case.rel {
            Rel::Tlp => (
                Side { queries: vec![base.clone()], perm: None },
                Side { queries: vec![with(p.clone()), with(E::Not(Box::new(p.clone()))), with(E::IsNull(Box::new(p.clone()), false))], perm: None },
            ),
            Rel::TlpAggregate => {
                let f = [AggFn::CountStar, AggFn::Min, AggFn::Max, AggFn::Sum][case.agg as usize % 4];
                agg_mode = Some(f);
                let aggq = |filter: Option<E>| {
                    let mut q = base.clone();
                    let arg = match case.cols.first() {
                        Some((item, _, sel)) => E::ICol { item: *item % q.from.len() as u8, cls: Cls::Num, sel: *sel },
                        None => E::ICol { item: 0, cls: Cls::Num, sel: 0 },
                    };
                    q.items = vec![Item { e: E::Agg(f, if f == AggFn::CountStar { None } else { Some(Box::new(arg)) }, false), alias: false }];
                    q.filter = filter;
                    q
                };
                (
                    Side { queries: vec![aggq(None)], perm: None },
                    Side { queries: vec![aggq(Some(p.clone())), aggq(Some(E::Not(Box::new(p.clone())))), aggq(Some(E::IsNull(Box::new(p.clone()), false)))], perm: None },
                )
            }
            Rel::CommuteAnd => (Side { queries: vec![with(and(p.clone(), q2.clone()))], perm: None }, Side { queries: vec![with(and(q2.clone(), p.clone()))], perm: None }),
            Rel::CommuteOr => (Side { queries: vec![with(or(p.clone(), q2.clone()))], perm: None }, Side { queries: vec![with(or(q2.clone(), p.clone()))], perm: None }),
            Rel::NoopAndTrue => (Side { queries: vec![with(p.clone())], perm: None }, Side { queries: vec![with(and(p.clone(), E::ConstCmp(true)))], perm: None }),
            Rel::NoopOrFalse => (Side { queries: vec![with(p.clone())], perm: None }, Side { queries: vec![with(or(p.clone(), E::ConstCmp(false)))], perm: None }),
            Rel::InListAsOr | Rel::NotInListAsAnd => {
                let neg = case.rel == Rel::NotInListAsAnd;
                let x = match case.cols.first() {
                    Some((item, _, sel)) => E::ICol { item: *item % base.from.len() as u8, cls: Cls::Num, sel: *sel },
                    None => E::ICol { item: 0, cls: Cls::Num, sel: 0 },
                };
                let list: Vec<E> = if case.list.is_empty() { vec![E::ILit(1)] } else { case.list.clone() };
                let inl = E::InList(Box::new(x.clone()), list.clone(), neg);
                let mut chain: Option<E> = None;
                for it in &list {
                    let c = E::Cmp(if neg { CmpOp::Ne } else { CmpOp::Eq }, Box::new(x.clone()), Box::new(it.clone()));
                    chain = Some(match chain {
                        None => c,
                        Some(acc) => {
                            if neg {
                                and(acc, c)
                            } else {
                                or(acc, c)
                            }
                        }
                    });
                }
                (Side { queries: vec![with(inl)], perm: None }, Side { queries: vec![with(chain.unwrap())], perm: None })
            }
            Rel::PermuteItems => {
                let n = base.items.len();
                // a permutation of 0..n from the selectors
                let mut order: Vec<usize> = (0..n).collect();
                for (i, s) in case.perm.iter().enumerate() {
                    if n > 1 {
                        order.swap(i % n, *s as usize % n);
                    }
                }
                let mut q = base.clone();
                q.filter = Some(p.clone());
                let mut r = q.clone();
                r.items = order.iter().map(|i| q.items[*i].clone()).collect();
                // original column i sits at position pos[i] of the rewritten query
                let mut pos = vec![0usize; n];
                for (k, i) in order.iter().enumerate() {
                    pos[*i] = k;
                }
                (Side { queries: vec![q], perm: None }, Side { queries: vec![r], perm: Some(pos) })
            }
            Rel::ReorderFrom => {
                let mut q = base.clone();
                // the filter must name its columns by from-item (ICol), so that it can follow the swap
                q.filter = case.cols.first().map(|(item, _, sel)| E::Cmp(CmpOp::Ge, Box::new(E::ICol { item: *item % 2, cls: Cls::Num, sel: *sel }), Box::new(E::ILit(case.agg as i8))));
                let mut r = q.clone();
                if r.from.len() == 2 {
                    // swap the two from-items; every ICol item index flips
                    fn flip(e: &E) -> E {
                        match e {
                            E::ICol { item, cls, sel } => E::ICol { item: 1 - (*item % 2), cls: *cls, sel: *sel },
                            E::Cmp(op, a, b) => E::Cmp(*op, Box::new(flip(a)), Box::new(flip(b))),
                            E::And(a, b) => E::And(Box::new(flip(a)), Box::new(flip(b))),
                            E::Or(a, b) => E::Or(Box::new(flip(a)), Box::new(flip(b))),
                            E::Not(a) => E::Not(Box::new(flip(a))),
                            E::IsNull(a, n) => E::IsNull(Box::new(flip(a)), *n),
                            o => o.clone(),
                        }
                    }
                    let (k, on) = (r.from[1].join, r.from[1].on.clone());
                    let t0 = r.from[0].src.clone();
                    let t1 = r.from[1].src.clone();
                    r.from[0] = FromItem { src: t1, join: JoinKind::Comma, on: None };
                    r.from[1] = FromItem { src: t0, join: k, on: on.map(|e| flip(&e)) };
                    r.items = r.items.iter().map(|i| Item { e: flip(&i.e), alias: i.alias }).collect();
                    r.filter = r.filter.map(|f| flip(&f));
                }
                (Side { queries: vec![q], perm: None }, Side { queries: vec![r], perm: None })
            }
            Rel::TlpVector | Rel::TlpJson | Rel::WindowVsGroupBy => unreachable!(),
            Rel::OnToWhere => {
                let mut q = base.clone();
                let mut r = base.clone();
                if q.from.len() == 2 && q.from[1].on.is_some() {
                    let on = q.from[1].on.clone().unwrap();
                    q.from[1].on = Some(and(on, p.clone()));
                    r.filter = Some(p.clone());
                } else {
                    q.filter = Some(p.clone());
                    r.filter = Some(p.clone());
                }
                (Side { queries: vec![q], perm: None }, Side { queries: vec![r], perm: None })
            }
        };
        tags.insert(match case.rel {
            Rel::Tlp | Rel::TlpAggregate => "rel.tlp",
            Rel::ReorderFrom | Rel::OnToWhere => "rel.join_rewrite",
            _ => "rel.predicate_rewrite",
        });

        // ---- render everything, collect tags (own + inherited)
        let mut inh: BTreeSet<&'static str> = BTreeSet::new();
        let mut sqls: Vec<Vec<String>> = Vec::new();
        for side in [&left, &right] {
            let mut v = Vec::new();
            for q in &side.queries {
                let (s, t) = render(schema, q, Dialect::Turdb, false);
                tags.extend(t);
                if q.from.len() > 1 {
                    let c = crate::c17::Case { schema: schema.clone(), q: q.clone() };
                    crate::c17::join_tags(&c, &mut inh);
                }
                v.push(s);
            }
            sqls.push(v);
        }
        if case.join.is_some() {
            tags.insert("base.join");
            if case.rel == Rel::TlpAggregate {
                tags.insert("aggregate.over_join");
            }
        }
        let rows0 = schema.tables[0].data();
        let single = case.join.is_none();
        let scope = base.top_scope(schema);
        let mut pred_null = false;
        if single {
            let mut t2 = BTreeSet::new();
            crate::c14::data_tags(&case.p, &scope, &rows0, &mut t2);
            pred_null = t2.contains("unknown.result");
            if schema.tables[0].long_text {
                let mut refs_text = false;
                for e in [&case.p, &case.q] {
                    e.walk(&mut |n| {
                        if matches!(n, E::TCol { .. }) {
                            refs_text = true;
                        }
                    });
                }
                if refs_text {
                    inh.insert("text.toasted_value");
                }
            }
        } else if schema.tables.iter().any(|t| t.long_text) {
            inh.insert("text.toasted_value");
        }
        if pred_null {
            tags.insert("predicate.unknown_for_some_row");
        }
        if schema.tables.iter().any(|t| t.pk || t.index.is_some()) {
            tags.insert("table.indexed");
        }
        if let Some(g) = inh.iter().find(|t| inherited.contains(**t)) {
            out.add_class(format!("gated_inherited:{}", g));
            return out;
        }
        if let Some(g) = tags.iter().find(|t| gates.contains(**t)) {
            out.add_class(format!("gated:{}", g));
            return out;
        }
        let sigtags = tagstr(tags.iter().copied().filter(|t| self.all_tags || TRIGGERS.contains(t)));

        let w = match World::setup("C19", schema) {
            Ok(w) => w,
            Err(_) => {
                out.add_class("setup_rejected");
                return out;
            }
        };
        out.add_class(format!("rel:{}", case.rel.name()));
        // ---- run both sides
        let mut bags: Vec<Vec<Row>> = Vec::new();
        for (si, side) in [&left, &right].into_iter().enumerate() {
            let mut bag: Vec<Row> = Vec::new();
            for s in &sqls[si] {
                match w.turdb(s) {
                    Ok(rows) => {
                        let rows = norm_rows(&rows);
                        match &side.perm {
                            Some(pos) => bag.extend(rows.into_iter().map(|r| pos.iter().map(|k| r.get(*k).cloned().unwrap_or(Val::Null)).collect::<Row>())),
                            None => bag.extend(rows),
                        }
                    }
                    Err(e) => {
                        out.add_class(format!("rejected:{}", case.rel.name()));
                        if std::env::var("VERIF_DEV_REJECTS").is_ok() {
                            eprintln!("rejected: {} -> {}", s, e);
                        }
                        return out;
                    }
                }
            }
            bags.push(bag);
        }
        let detail = |d: String| format!("original: {}\n  rewrite:  {}\n  {}", sqls[0].join("  ⊎  "), sqls[1].join("  ⊎  "), d);
        if let Some(f) = agg_mode {
            // recombine the three partition aggregates
            let vals: Vec<Val> = bags[1].iter().map(|r| r.first().cloned().unwrap_or(Val::Null)).collect();
            let num = |v: &Val| match v {
                Val::Int(i) => Some(*i as f64),
                Val::Float(f) => Some(*f),
                _ => None,
            };
            let nn: Vec<f64> = vals.iter().filter_map(num).collect();
            let combined: Option<f64> = match f {
                AggFn::CountStar | AggFn::Sum => {
                    if nn.is_empty() {
                        None
                    } else {
                        Some(nn.iter().sum())
                    }
                }
                AggFn::Min => nn.iter().cloned().fold(None, |a: Option<f64>, x| Some(a.map_or(x, |y| y.min(x)))),
                _ => nn.iter().cloned().fold(None, |a: Option<f64>, x| Some(a.map_or(x, |y| y.max(x)))),
            };
            let whole = bags[0].first().and_then(|r| r.first()).map(num).unwrap_or(None);
            let same = match (whole, combined) {
                (None, None) => true,
                (Some(a), Some(b)) => a == b || (a - b).abs() <= 1e-9 * a.abs().max(b.abs()),
                _ => false,
            };
            if bags[0].len() != 1 || bags[1].len() != 3 || !same {
                out.set_fail(format!("C19|tlp_aggregate|{}|{}", format!("{:?}", f).to_lowercase(), sigtags), detail(format!("whole = {:?}, partitions = {:?} (recombined {:?})", bags[0], vals, combined)));
                return out;
            }
        } else if let Some((kind, d)) = bag_mismatch(&bags[0], &bags[1]) {
            out.set_fail(format!("C19|{}|{}|{}", case.rel.name(), kind, sigtags), detail(d));
            return out;
        }
        out.add_class("checked");
        // ---- non-triviality: the plans differ, or the predicate is UNKNOWN for some row
        let explain = |s: &str| -> String {
            match w.turdb.h().execute(&format!("EXPLAIN {}", s)) {
                Ok(turdb::ExecuteResult::Explain { plan }) => plan,
                _ => String::new(),
            }
        };
        let plans_differ = sqls[0].len() == 1 && sqls[1].len() == 1 && explain(&sqls[0][0]) != explain(&sqls[1][0]);
        if plans_differ {
            out.add_class("plans_differ");
        }
        if pred_null {
            out.add_class("predicate_unknown_for_some_row");
        }
        if plans_differ || pred_null {
            out.add_class("nontrivial");
            out.nontrivial = Some(vcore::hash_of(&(sqls.clone(), format!("{:?}", case.schema))));
        }
        out
    }
}

impl Check for C19 {
    type Case = Case;
    fn run(&self, case: &Case) -> Outcome {
        self.go(case, &self.gates, &self.inherited)
    }
    fn run_strict(&self, case: &Case) -> Outcome {
        self.go(case, &BTreeSet::new(), &self.inherited)
    }
}

pub fn strategy(gates: &BTreeSet<String>, inherited: &BTreeSet<String>, max_rows: usize) -> BoxedStrategy<Case> {
    let mut cfg = GenCfg::new(3);
    cfg.off = gates.clone();
    let mut small = cfg.clone();
    small.depth = 1;
    let no_long = inherited.contains("text.toasted_value");
    let schema = schema_strategy(2, 2, max_rows, true).prop_map(move |mut s| {
        if no_long {
            for t in s.tables.iter_mut() {
                t.long_text = false;
            }
        }
        s
    });
    let mut rels: Vec<(u32, BoxedStrategy<Rel>)> = vec![
        (6, Just(Rel::Tlp).boxed()),
        (2, Just(Rel::TlpAggregate).boxed()),
        (2, Just(Rel::CommuteAnd).boxed()),
        (2, Just(Rel::CommuteOr).boxed()),
        (2, Just(Rel::NoopAndTrue).boxed()),
        (2, Just(Rel::NoopOrFalse).boxed()),
        (2, Just(Rel::InListAsOr).boxed()),
        (2, Just(Rel::NotInListAsAnd).boxed()),
        (2, Just(Rel::PermuteItems).boxed()),
    ];
    for (w, r, n) in [(2, Rel::TlpVector, "rel.tlp_vector"), (2, Rel::TlpJson, "rel.tlp_json"), (1, Rel::WindowVsGroupBy, "rel.window_vs_group_by")] {
        if cfg.on(n) {
            rels.push((w, Just(r).boxed()));
        }
    }
    if cfg.on("rel.join_rewrite") {
        rels.push((2, Just(Rel::ReorderFrom).boxed()));
        rels.push((2, Just(Rel::OnToWhere).boxed()));
    }
    let join = if cfg.on("base.join") {
        prop_oneof![5 => Just(None), 2 => (any::<u8>(), any::<u8>()).prop_map(|(a, b)| Some((JoinKind::Inner, a, b))), 1 => Just(Some((JoinKind::Cross, 0, 0)))].boxed()
    } else {
        Just(None).boxed()
    };
    let list_item = prop_oneof![4 => any::<i8>().prop_map(E::ILit), 1 => any::<i8>().prop_map(E::DLit), 1 => Just(E::NNull), 2 => any::<u8>().prop_map(|sel| E::ICol { item: 0, cls: Cls::Num, sel })];
    (
        schema,
        proptest::strategy::Union::new_weighted(rels),
        join,
        proptest::collection::vec((0u8..2, 0u8..3, any::<u8>()), 0..=3),
        prop_oneof![4 => pred_strategy(&cfg), 1 => lookup_pred_strategy(&cfg)],
        pred_strategy(&small),
        proptest::collection::vec(list_item, 1..=3),
        proptest::collection::vec(any::<u8>(), 0..=4),
        any::<u8>(),
    )
        .prop_map(|(schema, rel, join, cols, p, q, list, perm, agg)| {
            let join = match rel {
                Rel::ReorderFrom | Rel::OnToWhere => join.or(Some((JoinKind::Inner, 0, 0))),
                _ => join,
            };
            Case { schema, rel, join, cols, p, q, list, perm, agg }
        })
        .boxed()
}

pub fn inherited_gates() -> BTreeSet<String> {
    let f = vcore::Findings::load_default();
    let mut g = BTreeSet::new();
    for p in ["C14", "C17"] {
        g.extend(f.closed_gates(p));
    }
    g
}

pub fn main(tier: Tier, replay: Option<String>) -> i32 {
    let findings = vcore::Findings::load_default();
    let gates: BTreeSet<String> = findings.closed_gates("C19").into_iter().collect();
    let inherited = inherited_gates();
    let check = C19 { gates: gates.clone(), inherited: inherited.clone(), all_tags: std::env::var("VERIF_DEV_ALLTAGS").is_ok() };
    if let Some(p) = replay {
        return vcore::replay_file("C19", &check, &p);
    }
    let ctx = Ctx::new("C19", tier, "exploration");
    ctx.set_rule(
        "two proptest-generated tables (0-30 rows, NULLs, duplicates, optional indexes), a base query (table 0, or table 0 inner-/cross-joined with table 1; ids plus 0-3 numeric columns), \
         generated predicates p (depth <= 3) and q, and one of 11 rewrites: TLP over rows, TLP over COUNT(*)/MIN/MAX/SUM, AND / OR operand swap, AND 1 = 1, OR 1 = 0, IN list vs OR chain, \
         NOT IN list vs AND chain, select-item permutation, FROM-item swap, conjunct moved from ON to WHERE. Non-trivial = EXPLAIN of the rewritten query differs from the original's, \
         or p is UNKNOWN for >= 1 row of the table (single-table bases, by the Kleene evaluator); distinct by hash of (SQL texts, schema).",
    );
    ctx.assume("no external oracle: only equality between TurDB's own answers is asserted; join bases only use constructs outside the C17 findings (gates inherited), predicates outside the C14 findings");
    ctx.note("vector / JSON / window relations run on a dedicated table tx (id INT, e VECTOR(3), j JSONB, k INT, c INT) filled from table 0's selectors: TLP over `e <-> q <op> d`, TLP over `j->>'k' = 'n'` / `j->'k' >= n` / `j->>'s' = 't'`, and SUM(c) OVER (PARTITION BY k) against GROUP BY k");
    let cases = dev_cases(tier.pick(5000, 200_000));
    let g = gates.clone();
    vcore::drive(&ctx, &check, move || strategy(&g, &inherited, 30), cases, 16);
    ctx.finish()
}
