//! C43 Bulk-load APIs equal row-at-a-time INSERT.
//!
//! Differential: database A loads every generated batch through one of `insert_batch`,
//! `insert_batch_into_schema`, `bulk_insert`, or a prepared INSERT executed once per row
//! (second and later executions take the cached-plan path, `insert_cached`); database B
//! receives one `INSERT` statement per row. Ordinary DML is interleaved on both. For
//! batches in which every row is valid (per the relational model) the observations, row
//! counts and the next AUTO_INCREMENT value must be equal; a batch containing a violating
//! row must be refused by the API.

use std::collections::BTreeSet;

use proptest::prelude::*;
use turdb::OwnedValue;
use vcore::{Check, Ctx, Outcome, Tier};

use crate::hist::*;
use crate::histchecks::gates_for;
use crate::refdb::*;
use crate::world::*;

#[derive(Debug, Clone, Copy, PartialEq, serde::Serialize, serde::Deserialize)]
pub enum Api {
    InsertBatch,
    InsertBatchIntoSchema,
    BulkInsert,
    PreparedPerRow,
}

#[derive(Debug, Clone, serde::Serialize, serde::Deserialize)]
pub struct Case {
    pub big: bool,
    pub api: Api,
    pub h: History,
}

pub struct C43 {
    pub gates: BTreeSet<String>,
}

fn owned(v: &Val) -> OwnedValue {
    match v {
        Val::Null => OwnedValue::Null,
        Val::Int(i) => OwnedValue::Int(*i),
        Val::Float(f) => OwnedValue::Float(*f),
        Val::Text(s) => OwnedValue::Text(s.clone()),
        Val::Bool(b) => OwnedValue::Bool(*b),
    }
}

fn api_name(a: Api) -> &'static str {
    match a {
        Api::InsertBatch => "insert_batch",
        Api::InsertBatchIntoSchema => "insert_batch_into_schema",
        Api::BulkInsert => "bulk_insert",
        Api::PreparedPerRow => "prepared_per_row",
    }
}

impl C43 {
    fn go(&self, case: &Case, gates: &BTreeSet<String>) -> Outcome {
        let mut out = Outcome::ok();
        NEG_DEFAULT_OK.with(|c| c.set(!gates.contains("negative_default")));
        let a = Db::create("C43a");
        let b = Db::create("C43b");
        let mut model = Model::new(&case.h.tables, case.big);
        for t in model.tables.clone() {
            for sql in Model::create_sql(&t) {
                let (ra, rb) = (a.exec(&sql), b.exec(&sql));
                if matches!(ra, Exec::Err(_)) || matches!(rb, Exec::Err(_)) {
                    return out.class("schema_rejected");
                }
            }
        }
        let api = api_name(case.api);
        let mut log: Vec<String> = Vec::new();
        let mut biggest_batch = 0usize;
        let mut bulk_calls = 0usize;
        let mut invalid_batches = 0usize;
        // bulk-call tags stay in the signatures of later statements (their damage shows up later)
        let mut sticky: BTreeSet<&'static str> = BTreeSet::new();
        let tail = |log: &Vec<String>| log.iter().rev().take(8).rev().cloned().map(|s| crate::histrun::short(&s)).collect::<Vec<_>>().join("\n    ");
        for op in &case.h.ops {
            let Some(r) = model.resolve(op) else { continue };
            if let Some(g) = r.tags.iter().find(|t| gates.contains(**t)) {
                out.add_class(format!("gated:{}", g));
                continue;
            }
            if r.lifecycle.is_some() || r.txn != TxnEffect::None {
                continue;
            }
            let mut tags: Vec<&str> = r.tags.clone();
            tags.sort();
            tags.dedup();
            let mut tagstr = if tags.is_empty() { "-".to_string() } else { tags.join("+") };
            if !sticky.is_empty() {
                tagstr = format!("{}|after_bulk:{}", tagstr, sticky.iter().copied().collect::<Vec<_>>().join("+"));
            }
            let is_bulk = r.kind == "INSERT" && r.input_full && !r.sql.contains("RETURNING");
            if is_bulk {
                let table = r.table.clone().unwrap();
                // trigger tags of the bulk call (what the target table declares)
                let tdef = model.tables.iter().find(|t| t.name == table).unwrap();
                let mut btags: Vec<&'static str> = Vec::new();
                if !tdef.indexed_cols().is_empty() {
                    btags.push("bulk_into_indexed_table");
                }
                if tdef.cols.iter().any(|c| c.not_null) {
                    btags.push("bulk_into_table_with_not_null");
                }
                if tdef.cols.iter().any(|c| c.default.is_some()) {
                    btags.push("bulk_into_table_with_default");
                }
                if tdef.auto_col().is_some() {
                    btags.push("bulk_into_auto_increment_table");
                }
                if r.tags.contains(&"long_value") {
                    btags.push("bulk_long_value");
                }
                if tdef.ever_had_rows {
                    btags.push("bulk_into_table_that_had_rows");
                }
                let mut api_gates: Vec<String> = btags.iter().map(|t| format!("{}:{}", api, t)).collect();
                api_gates.push(format!("api:{}", api));
                if let Some(g) = api_gates.iter().find(|g| gates.contains(*g)) {
                    out.add_class(format!("gated:{}", g));
                    continue;
                }
                if !btags.is_empty() {
                    tagstr = format!("{}+{}", tagstr, btags.join("+"));
                }
                for t in &btags {
                    sticky.insert(*t);
                }
                let rows: Vec<Vec<OwnedValue>> = r.input_rows.iter().map(|row| row.iter().map(owned).collect()).collect();
                biggest_batch = biggest_batch.max(rows.len());
                bulk_calls += 1;
                log.push(format!("-- {}({}, {} rows)   [twin: {}]", api, table, rows.len(), crate::histrun::short(&r.sql)));
                let res_a: Result<usize, String> = match case.api {
                    Api::InsertBatch => a.h().insert_batch(&table, &rows).map_err(|e| e.to_string()),
                    Api::InsertBatchIntoSchema => a.h().insert_batch_into_schema("root", &table, &rows).map_err(|e| e.to_string()),
                    Api::BulkInsert => a.h().bulk_insert(&table, rows.clone()).map(|n| n as usize).map_err(|e| e.to_string()),
                    Api::PreparedPerRow => {
                        let ncols = rows.first().map(|r| r.len()).unwrap_or(0);
                        let sql = format!("INSERT INTO {} VALUES ({})", table, vec!["?"; ncols].join(", "));
                        match a.h().prepare(&sql) {
                            Ok(stmt) => {
                                let mut n = 0usize;
                                let mut err = None;
                                for row in &rows {
                                    let mut bound = None;
                                    for v in row {
                                        bound = Some(match bound {
                                            None => stmt.bind(v.clone()),
                                            Some(b) => turdb::BoundStatement::bind(b, v.clone()),
                                        });
                                    }
                                    match bound {
                                        Some(bs) => match bs.execute(a.h()) {
                                            Ok(_) => n += 1,
                                            Err(e) => {
                                                err = Some(e.to_string());
                                                break;
                                            }
                                        },
                                        None => {}
                                    }
                                }
                                match err {
                                    Some(e) => Err(e),
                                    None => Ok(n),
                                }
                            }
                            Err(e) => Err(format!("prepare: {}", e)),
                        }
                    }
                };
                let valid = matches!(r.expect, Expect::Ok { .. });
                if !valid {
                    invalid_batches += 1;
                    if res_a.is_ok() {
                        let class = if let Expect::Err(c) = r.expect { c } else { "?" };
                        return out.fail(
                            format!("C43|{}|invalid_batch_accepted|{}|{}", api, class, tagstr),
                            format!("{} accepted a batch that violates {} (row-at-a-time INSERT refuses it)\n  last:\n    {}", api, class, tail(&log)),
                        );
                    }
                    // state after a refused batch is not compared (the property does not define it): stop here
                    out.add_class("stopped_after_refused_batch");
                    break;
                }
                // twin: one INSERT per row
                let tab = model.tables.iter().find(|t| t.name == table).unwrap();
                for row in &r.input_rows {
                    let sql = format!("INSERT INTO {} VALUES ({})", tab.name, row.iter().map(|v| v.sql()).collect::<Vec<_>>().join(", "));
                    if let Exec::Err(e) = b.exec(&sql) {
                        return out.fail(format!("C43|twin|valid_row_rejected_by_insert|{}", tagstr), format!("{} -> {}", crate::histrun::short(&sql), e));
                    }
                }
                match res_a {
                    Ok(n) => {
                        if n != r.input_rows.len() {
                            return out.fail(format!("C43|{}|row_count_returned|{}", api, tagstr), format!("{} returned {} for a batch of {} valid rows\n  last:\n    {}", api, n, r.input_rows.len(), tail(&log)));
                        }
                    }
                    Err(e) => {
                        return out.fail(format!("C43|{}|valid_batch_rejected|{}", api, tagstr), format!("{} refused a batch of {} valid rows: {}\n  last:\n    {}", api, r.input_rows.len(), e, tail(&log)));
                    }
                }
                model.commit(&r);
            } else {
                log.push(r.sql.clone());
                let (ea, eb) = (a.exec(&r.sql), b.exec(&r.sql));
                let (oka, okb) = (matches!(ea, Exec::Ok { .. }), matches!(eb, Exec::Ok { .. }));
                if oka != okb {
                    return out.fail(
                        format!("C43|{}|later_statement_outcome_differs|{}|{}", api, r.kind, tagstr),
                        format!("{} : bulk-loaded database ok={} ({:?}), row-at-a-time twin ok={}\n  last:\n    {}", crate::histrun::short(&r.sql), oka, if let Exec::Err(e) = &ea { e.as_str() } else { "" }, okb, tail(&log)),
                    );
                }
                if oka {
                    model.commit(&r);
                }
            }
            let (oa, ob) = (obs(&a, &model.tables, true), obs(&b, &model.tables, true));
            if let Some((facet, detail)) = diff_obs(&ob, &oa) {
                return out.fail(format!("C43|{}|state_differs|{}|after:{}|{}", api, facet, r.kind, tagstr), format!("twin (expected) vs bulk-loaded database: {}\n  last:\n    {}", detail, tail(&log)));
            }
        }
        // next AUTO_INCREMENT value
        for t in &model.tables {
            if let Some(ac) = t.auto_col() {
                let vals: Vec<String> = t.cols.iter().enumerate().map(|(i, c)| if i == ac { "NULL".to_string() } else { pool(c.ty, 200 + i as u8, true).sql() }).collect();
                let sql = format!("INSERT INTO {} VALUES ({}) RETURNING *", t.name, vals.join(", "));
                if let (Exec::Ok { returned: Some(ra), .. }, Exec::Ok { returned: Some(rb), .. }) = (a.exec(&sql), b.exec(&sql)) {
                    let (ia, ib) = (ra.first().and_then(|r| r.get(ac).cloned()), rb.first().and_then(|r| r.get(ac).cloned()));
                    if ia != ib {
                        return out.fail(format!("C43|{}|next_auto_increment_differs", api), format!("next generated id after the history: bulk-loaded {:?}, twin {:?}\n  last:\n    {}", ia, ib, tail(&log)));
                    }
                    out.add_class("auto_increment_compared");
                }
            }
        }
        out.add_class(format!("api:{}", api));
        if invalid_batches > 0 {
            out.add_class("invalid_batch");
        }
        if biggest_batch >= 300 {
            out.add_class("batch>=300");
        }
        if bulk_calls > 0 && (biggest_batch >= 300 || invalid_batches > 0 || bulk_calls >= 2) {
            out.nontrivial = Some(vcore::hash_of(&format!("{:?}", case)));
        }
        out
    }
}

impl Check for C43 {
    type Case = Case;
    fn run(&self, case: &Case) -> Outcome {
        self.go(case, &self.gates)
    }
    fn run_strict(&self, case: &Case) -> Outcome {
        let f = vcore::Findings::load_default();
        let own: BTreeSet<String> = f.closed_gates("C43").into_iter().collect();
        let inherited: BTreeSet<String> = self.gates.iter().filter(|g| !own.contains(*g)).cloned().collect();
        self.go(case, &inherited)
    }
}

pub fn strategy(max_batch: usize) -> BoxedStrategy<Case> {
    let api = prop_oneof![Just(Api::InsertBatch), Just(Api::InsertBatchIntoSchema), Just(Api::BulkInsert), Just(Api::PreparedPerRow)];
    let p = Profile { max_tables: 1, max_ops: 12, dml: 10, truncate: 0, allow_returning: false, allow_auto_inc: true, max_insert_rows: 6, ..Profile::default() };
    let pb = Profile { max_tables: 1, max_ops: 8, dml: 10, truncate: 0, allow_returning: false, allow_auto_inc: true, big_keys: true, max_insert_rows: max_batch, allow_long: false, ..Profile::default() };
    prop_oneof![
        3 => (api.clone(), history_strategy(&p)).prop_map(|(api, h)| Case { big: false, api, h }),
        1 => (api, history_strategy(&pb)).prop_map(|(api, h)| Case { big: true, api, h }),
    ]
    .boxed()
}

pub fn main(tier: Tier, replay: Option<String>) -> i32 {
    let check = C43 { gates: gates_for("C43") };
    if let Some(p) = replay {
        return vcore::replay_file("C43", &check, &p);
    }
    let ctx = Ctx::new("C43", tier, "exploration");
    ctx.set_rule(
        "generated single-table schemas (with/without PRIMARY KEY, UNIQUE, NOT NULL, DEFAULT, secondary indexes, AUTO_INCREMENT) and histories in which every full-row INSERT \
         is performed through one bulk API (insert_batch / insert_batch_into_schema / bulk_insert / prepared INSERT executed per row, i.e. the cached-plan path) on one database and \
         as one INSERT statement per row on its twin, interleaved with UPDATE/DELETE on both; batches of 1..6 rows from colliding pools, and a wide profile with batches up to 400 \
         (quick) / 5000 (thorough) rows. Non-trivial = a batch of >= 300 rows, a batch with a violating row, or >= 2 bulk calls in the history; distinct by hash of the case.",
    );
    ctx.assume("the state after a *refused* batch is not compared (the property does not say how much of it may remain); only that a batch with a violating row is refused");
    let max_batch = tier.pick(400, 5000);
    let cases = tier.pick(2500, 60_000);
    vcore::drive(&ctx, &check, move || strategy(max_batch), cases, 16);
    ctx.finish()
}
