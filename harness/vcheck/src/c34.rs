//! C34 The freelist conserves pages.
//!
//! G: histories of `Freelist::release` / `Freelist::allocate` over a sparse in-memory
//! implementation of the `Storage` trait: short histories on 1..8 pages where the trunk
//! bookkeeping dominates, and long run-length histories (thousands of releases) that cross
//! 2..3 trunk pages (4 090 entries each). A history also contains "drain" steps (allocate
//! until the list says it is empty) and "reopen" steps (rebuild the `Freelist` from
//! `head_page()`/`free_count()` the way the file header would persist it).
//!
//! O: a model of page ownership (`in_use` = owned by the caller, `free` = handed to the
//! freelist and not handed back). Every page returned by `allocate` must be in `free`
//! (otherwise it was never released, or it is handed out while allocated); at every drain
//! the number of pages the drain returns must equal the `free_count()` reported just
//! before it. Only pages the caller owns are released (no double free), page 0 holds a
//! table-file header as in a real file and is never released.

use std::collections::{BTreeSet, HashMap};

use proptest::prelude::*;
use serde::{Deserialize, Serialize};
use turdb::storage::{Freelist, Storage, TableFileHeader, PAGE_SIZE, TRUNK_MAX_ENTRIES};
use vcore::{Check, Ctx, Outcome, Tier};

#[derive(Debug, Clone, Serialize, Deserialize)]
pub enum Op {
    /// release `n` pages the caller owns, chosen by `sel`
    Release { n: u16, sel: u16 },
    /// allocate `n` times
    Alloc { n: u16 },
    /// compare free_count() with what a drain returns
    Drain,
    /// rebuild the Freelist from (head_page, free_count)
    Reopen,
}

#[derive(Debug, Clone, Serialize, Deserialize)]
pub struct Case {
    /// pages 1..=pages are owned by the caller at the start; page 0 is the file header
    pub pages: u32,
    /// table id written into the page-0 header (bytes a stray trunk read would see)
    pub table_id: u8,
    pub ops: Vec<Op>,
}

pub struct C34;

static ZERO_PAGE: [u8; PAGE_SIZE] = [0u8; PAGE_SIZE];

/// Sparse page store: a page is materialised on its first `page_mut`.
struct MemStorage {
    pages: HashMap<u32, Box<[u8]>>,
    count: u32,
    touched_page0: bool,
}

impl MemStorage {
    fn new(count: u32, table_id: u8) -> Self {
        let mut p0 = vec![0u8; PAGE_SIZE].into_boxed_slice();
        let hdr = TableFileHeader::new(table_id as u64, 0, 1, 1, 0, 0);
        let bytes = zerocopy_bytes(&hdr);
        p0[..bytes.len()].copy_from_slice(&bytes);
        let mut pages = HashMap::new();
        pages.insert(0, p0);
        MemStorage { pages, count, touched_page0: false }
    }
}

/// The header's bytes without depending on zerocopy from the harness: the struct is
/// `repr(C)`, unaligned, 128 bytes, no padding (asserted in headers.rs).
fn zerocopy_bytes(h: &TableFileHeader) -> Vec<u8> {
    let n = std::mem::size_of::<TableFileHeader>();
    // SAFETY: TableFileHeader is repr(C), Unaligned, IntoBytes (no padding, no pointers)
    unsafe { std::slice::from_raw_parts(h as *const TableFileHeader as *const u8, n) }.to_vec()
}

impl Storage for MemStorage {
    fn page(&self, page_no: u32) -> eyre::Result<&[u8]> {
        eyre::ensure!(page_no < self.count, "page {} out of bounds (page_count={})", page_no, self.count);
        Ok(self.pages.get(&page_no).map(|b| &b[..]).unwrap_or(&ZERO_PAGE[..]))
    }
    fn page_mut(&mut self, page_no: u32) -> eyre::Result<&mut [u8]> {
        eyre::ensure!(page_no < self.count, "page {} out of bounds (page_count={})", page_no, self.count);
        if page_no == 0 {
            self.touched_page0 = true;
        }
        Ok(&mut self.pages.entry(page_no).or_insert_with(|| vec![0u8; PAGE_SIZE].into_boxed_slice())[..])
    }
    fn grow(&mut self, new_page_count: u32) -> eyre::Result<()> {
        if new_page_count > self.count {
            self.count = new_page_count;
        }
        Ok(())
    }
    fn page_count(&self) -> u32 {
        self.count
    }
    fn sync(&self) -> eyre::Result<()> {
        Ok(())
    }
}

struct Model {
    /// pages owned by the caller, in a deterministic (history-dependent) order
    in_use: Vec<u32>,
    /// pages given to the freelist and not handed back
    free: BTreeSet<u32>,
    /// pages the freelist lost track of at a drain (neither owned by the caller nor free)
    lost: BTreeSet<u32>,
    ever_released: BTreeSet<u32>,
}

/// One allocate call checked against the model. Ok(Some(p)) = handed out p.
fn checked_alloc(fl: &mut Freelist, st: &mut MemStorage, m: &mut Model, out: &mut Outcome, ctx: &str) -> Option<u32> {
    match fl.allocate(st) {
        Ok(Some(p)) => {
            if m.free.remove(&p) {
                m.in_use.push(p);
            } else {
                let kind = if m.in_use.contains(&p) {
                    if m.ever_released.contains(&p) { "page_handed_out_twice" } else { "page_never_released" }
                } else if m.lost.contains(&p) {
                    // the list "forgot" it at a drain and now returns it: the drain's count was wrong;
                    // that was already reported there if it mattered. Treat as recovered.
                    m.lost.remove(&p);
                    m.in_use.push(p);
                    return Some(p);
                } else {
                    "page_never_released"
                };
                out.set_fail(
                    format!("C34|allocate|{}", kind),
                    format!(
                        "{}: allocate returned page {} which is not in the set of released-and-not-reallocated pages ({} such pages; page 0 touched as trunk: {})",
                        ctx, p, m.free.len(), st.touched_page0
                    ),
                );
            }
            Some(p)
        }
        Ok(None) => None,
        Err(_) => None,
    }
}

impl Check for C34 {
    type Case = Case;
    fn run(&self, case: &Case) -> Outcome {
        let mut out = Outcome::ok();
        let mut st = MemStorage::new(case.pages + 1, case.table_id);
        let mut fl = Freelist::new();
        let mut m = Model {
            in_use: (1..=case.pages).collect(),
            free: BTreeSet::new(),
            lost: BTreeSet::new(),
            ever_released: BTreeSet::new(),
        };
        let mut trunks_created = 0u32; // by the documented rule: release on an empty list or on a full head trunk
        let mut emptied = 0u32;
        let mut max_free = 0usize;
        let mut drains_nonempty = 0u32;
        let mut reopen = false;
        // ops + a final drain
        let ops: Vec<Op> = case.ops.iter().cloned().chain(std::iter::once(Op::Drain)).collect();
        'ops: for (oi, op) in ops.iter().enumerate() {
            match op {
                Op::Release { n, sel } => {
                    for j in 0..*n as usize {
                        if m.in_use.is_empty() {
                            break;
                        }
                        let i = (*sel as usize + j.wrapping_mul(7919)) % m.in_use.len();
                        let p = m.in_use.swap_remove(i);
                        if m.free.is_empty() || m.free.len() % (TRUNK_MAX_ENTRIES + 1) == 0 {
                            trunks_created += 1;
                        }
                        match fl.release(&mut st, p) {
                            Ok(()) => {
                                m.free.insert(p);
                                m.ever_released.insert(p);
                                max_free = max_free.max(m.free.len());
                            }
                            Err(e) => {
                                out.set_fail(
                                    "C34|release|error",
                                    format!("op {}: release({}) of a page owned by the caller failed: {}", oi, p, e),
                                );
                                break 'ops;
                            }
                        }
                    }
                }
                Op::Alloc { n } => {
                    for _ in 0..*n {
                        let before = m.free.len();
                        let r = checked_alloc(&mut fl, &mut st, &mut m, &mut out, &format!("op {}", oi));
                        if out.failure.is_some() {
                            break 'ops;
                        }
                        if r.is_none() {
                            break;
                        }
                        if before == 1 {
                            emptied += 1;
                        }
                    }
                }
                Op::Drain => {
                    let reported = fl.free_count() as usize;
                    let model_free = m.free.len();
                    let mut got = 0usize;
                    let mut err: Option<String> = None;
                    // bounded: a correct list can return at most model_free pages
                    for _ in 0..(model_free + reported + 2) {
                        match fl.allocate(&mut st) {
                            Ok(Some(p)) => {
                                got += 1;
                                if m.free.remove(&p) {
                                    m.in_use.push(p);
                                } else {
                                    let kind = if m.in_use.contains(&p) && m.ever_released.contains(&p) {
                                        "page_handed_out_twice"
                                    } else {
                                        "page_never_released"
                                    };
                                    out.set_fail(
                                        format!("C34|allocate|{}", kind),
                                        format!(
                                            "op {} (drain): allocate returned page {} which is not currently free by the model ({} free; page 0 touched as trunk: {})",
                                            oi, p, m.free.len(), st.touched_page0
                                        ),
                                    );
                                    break 'ops;
                                }
                            }
                            Ok(None) => break,
                            Err(e) => {
                                err = Some(e.to_string());
                                break;
                            }
                        }
                    }
                    if model_free > 0 {
                        drains_nonempty += 1;
                        emptied += 1;
                    }
                    if got != reported {
                        let kind = if reported > got { "reports_more_than_allocatable" } else { "reports_less_than_allocatable" };
                        let size = if max_free > TRUNK_MAX_ENTRIES { "multi_trunk" } else { "single_trunk" };
                        out.set_fail(
                            format!("C34|free_count|{}|{}", kind, size),
                            format!(
                                "op {} (drain): free_count() reported {} but allocate returned {} page(s) before {} ; released-and-not-reallocated pages by the model: {}; page 0 touched as trunk: {}",
                                oi,
                                reported,
                                got,
                                err.as_ref().map(|e| format!("failing with '{}'", e)).unwrap_or_else(|| "returning None".into()),
                                model_free,
                                st.touched_page0
                            ),
                        );
                        break 'ops;
                    }
                    // pages the list can no longer return stay out of the caller's hands
                    let rest: Vec<u32> = m.free.iter().copied().collect();
                    if !rest.is_empty() {
                        out.add_class("drain_left_pages_unreachable");
                    }
                    for p in rest {
                        m.free.remove(&p);
                        m.lost.insert(p);
                    }
                }
                Op::Reopen => {
                    reopen = true;
                    fl = Freelist::with_head(fl.head_page(), fl.free_count());
                }
            }
        }
        out.add_class(match max_free {
            0 => "max_free=0",
            1..=3 => "max_free=1..3",
            4..=4090 => "max_free=4..4090",
            4091..=8181 => "max_free=2_trunks",
            _ => "max_free>=3_trunks",
        });
        if reopen {
            out.add_class("reopen");
        }
        if drains_nonempty >= 2 {
            out.add_class("refilled_after_drain");
        }
        if st.touched_page0 {
            out.add_class("page0_written");
        }
        if trunks_created > 0 || emptied > 0 {
            out.nontrivial = Some(vcore::hash_of(&(case.pages, format!("{:?}", case.ops))));
        }
        out
    }
}

fn op_small() -> impl Strategy<Value = Op> {
    prop_oneof![
        5 => (1u16..=3, any::<u16>()).prop_map(|(n, sel)| Op::Release { n, sel }),
        4 => (1u16..=3).prop_map(|n| Op::Alloc { n }),
        1 => Just(Op::Drain),
        1 => Just(Op::Reopen),
    ]
}

fn op_large() -> impl Strategy<Value = Op> {
    let t = TRUNK_MAX_ENTRIES as u16;
    prop_oneof![
        // runs sized around the trunk capacity so that boundaries are hit exactly
        4 => (prop_oneof![1u16..=20, (t - 3)..=(t + 3), 1u16..=5000], any::<u16>()).prop_map(|(n, sel)| Op::Release { n, sel }),
        3 => prop_oneof![1u16..=20, (t - 3)..=(t + 3), 1u16..=5000].prop_map(|n| Op::Alloc { n }),
        1 => Just(Op::Drain),
        1 => Just(Op::Reopen),
    ]
}

pub fn strategy() -> BoxedStrategy<Case> {
    prop_oneof![
        3 => (1u32..=8, 0u8..4, proptest::collection::vec(op_small(), 1..14))
            .prop_map(|(pages, table_id, ops)| Case { pages, table_id, ops }),
        2 => (prop_oneof![Just(4091u32), Just(4092), Just(8182), Just(8183), 4000u32..13000], 0u8..4, proptest::collection::vec(op_large(), 1..12))
            .prop_map(|(pages, table_id, ops)| Case { pages, table_id, ops }),
        1 => (10u32..300, 0u8..4, proptest::collection::vec(prop_oneof![op_small(), (1u16..200, any::<u16>()).prop_map(|(n, sel)| Op::Release { n, sel }), (1u16..200).prop_map(|n| Op::Alloc { n })], 1..20))
            .prop_map(|(pages, table_id, ops)| Case { pages, table_id, ops }),
    ]
    .boxed()
}

pub fn main(tier: Tier, replay: Option<String>) -> i32 {
    if let Some(p) = replay {
        return vcore::replay_file("C34", &C34, &p);
    }
    let ctx = Ctx::new("C34", tier, "exploration");
    ctx.set_rule(
        "proptest-generated histories of release/allocate/drain/reopen over an in-memory Storage: short ones on 1..8 pages (1..3 pages per step), \
         medium ones on 10..300 pages, long run-length ones on 4000..13000 pages with run sizes around the trunk capacity (4090 +-3) so that 2..3 trunk pages are crossed. \
         Every history ends with a drain. Non-trivial = the history creates a trunk (release on an empty list or on a full head trunk) or empties the list; \
         distinct by hash of (pages, ops).",
    );
    ctx.assume("the caller releases only pages it owns (1..page_count, not currently free) and never page 0; Storage is the documented trait (bounds-checked page/page_mut), no I/O errors");
    ctx.assume("'reopen' persists exactly (head_page, free_count) as Freelist::with_head takes them");
    let cases = tier.pick(200_000, 3_000_000);
    vcore::drive(&ctx, &C34, strategy, cases, 16);
    ctx.finish()
}
