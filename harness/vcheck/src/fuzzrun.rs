//! Coverage-guided campaigns of the thorough tier (C22, C23): `cargo +nightly fuzz run`
//! in harness/fuzz under a wall-clock budget, every artifact replayed through the check's
//! own `run` (child process, same target function), unknown signatures become VIOLATIONs
//! with the artifact as the replay case.
//!
//! VERIF_FUZZ_BUDGET_S  wall budget per property (default 600), 0 = skip campaigns
//! VERIF_FUZZ_JOBS      concurrent campaigns (default 16)
//! A campaign that cannot be built or started makes the run inconclusive (exit 2).

use std::path::{Path, PathBuf};
use std::process::{Command, Stdio};
use std::sync::Arc;
use std::time::{Duration, Instant};

use serde::Serialize;
use serde_json::json;
use vcore::{Check, Ctx};

fn fuzz_dir() -> PathBuf {
    vcore::verif_root().join("harness").join("fuzz")
}

fn budget_s() -> u64 {
    std::env::var("VERIF_FUZZ_BUDGET_S").ok().and_then(|v| v.parse().ok()).unwrap_or(600)
}

/// VERIF_CASES_PERCENT (default 100): development aid to try a tier with a fraction of its
/// generated cases; never set by the registered commands.
pub fn scaled(cases: u64) -> u64 {
    let pct: u64 = std::env::var("VERIF_CASES_PERCENT").ok().and_then(|v| v.parse().ok()).unwrap_or(100);
    (cases * pct / 100).max(16)
}

fn copy_dir(src: &Path, dst: &Path) {
    let _ = std::fs::create_dir_all(dst);
    if let Ok(rd) = std::fs::read_dir(src) {
        for e in rd.flatten() {
            if e.path().is_file() {
                let _ = std::fs::copy(e.path(), dst.join(e.file_name()));
            }
        }
    }
}

pub fn targets_of(prop: &str) -> Vec<String> {
    match prop {
        "C23" => {
            let mut v: Vec<String> = vtargets::dec::TARGETS.iter().map(|s| s.to_string()).collect();
            v.push("dbfile".into());
            v
        }
        _ => vtargets::sqlrun::TARGETS.iter().map(|s| s.to_string()).collect(),
    }
}

/// Build once, then one libFuzzer process per target (at most VERIF_FUZZ_JOBS at a time),
/// each on a fresh copy of its corpus, `-seed=VERIF_SEED`, `-max_total_time` = the budget
/// share. `to_case(target, artifact bytes)` builds the replay case.
pub fn campaigns<C, E, F>(ctx: &Arc<Ctx>, prop: &str, chk: &C, emit_seeds: E, to_case: F)
where
    C: Check,
    C::Case: Serialize,
    E: Fn(&str) -> i32,
    F: Fn(&str, &[u8]) -> C::Case,
{
    let budget = budget_s();
    if budget == 0 {
        ctx.note("fuzz campaigns skipped (VERIF_FUZZ_BUDGET_S=0)");
        return;
    }
    let bin = prop.to_lowercase();
    let dir = fuzz_dir();
    let t0 = Instant::now();
    let build = Command::new("cargo")
        .args(["+nightly", "fuzz", "build", &bin])
        .current_dir(&dir)
        .env("CARGO_NET_OFFLINE", "true")
        .stdout(Stdio::null())
        .stderr(Stdio::piped())
        .output();
    match build {
        Ok(o) if o.status.success() => {}
        Ok(o) => {
            let tail: String = String::from_utf8_lossy(&o.stderr).lines().rev().take(8).collect::<Vec<_>>().join(" / ");
            ctx.inconclusive(format!("cargo fuzz build {} failed: {}", bin, tail));
            return;
        }
        Err(e) => {
            ctx.inconclusive(format!("cannot run cargo fuzz build: {}", e));
            return;
        }
    }
    let exe = dir.join("target").join("x86_64-unknown-linux-gnu").join("release").join(&bin);
    if !exe.exists() {
        ctx.inconclusive(format!("fuzz binary {} not found after build", exe.display()));
        return;
    }
    let build_s = t0.elapsed().as_secs();
    let targets = targets_of(prop);
    let jobs: usize = std::env::var("VERIF_FUZZ_JOBS").ok().and_then(|v| v.parse().ok()).unwrap_or(16);
    let waves = targets.len().div_ceil(jobs.max(1));
    let per = (budget / waves.max(1) as u64).max(5);
    let work = vcore::tmp::base().join(format!("fuzz-{}-{}", prop, std::process::id()));
    let _ = std::fs::remove_dir_all(&work);
    // seeds: valid encodings / harvested statements, generated now (deterministic), plus
    // the minimised artifacts committed under corpus/<prop>/<target>/
    let _ = std::fs::create_dir_all(work.join("corpus"));
    emit_seeds(&work.join("corpus").to_string_lossy());
    let mut stats = serde_json::Map::new();
    for wave in targets.chunks(jobs.max(1)) {
        let mut running = Vec::new();
        // spare cores go to parallel libFuzzer workers of the same target
        let forks = (jobs.max(1) / wave.len().max(1)).clamp(1, 8);
        for t in wave {
            let corpus = work.join("corpus").join(t);
            let arts = work.join("artifacts").join(t);
            let _ = std::fs::create_dir_all(&arts);
            let seeds = vcore::verif_root().join("corpus").join(prop.to_lowercase()).join(t);
            copy_dir(&seeds, &corpus);
            let _ = std::fs::create_dir_all(&corpus);
            let max_len = match t.as_str() {
                "leaf" | "interior" | "btree_walk" | "hnsw_page" => 20_000,
                "catalog" | "catalog_file" => 8_192,
                "dbfile" => 48,
                "wal" => 260,
                "sql_bytes" => 2_000,
                "sql_gen" | "api_seq" => 256,
                _ => 1_024,
            };
            let log = work.join(format!("{}.log", t));
            let logf = match std::fs::File::create(&log) {
                Ok(f) => f,
                Err(_) => continue,
            };
            let child = Command::new(&exe)
                .arg(&corpus)
                .arg(format!("-artifact_prefix={}/", arts.display()))
                .arg(format!("-max_total_time={}", per))
                .arg(format!("-seed={}", ctx.seed))
                .arg(format!("-max_len={}", max_len))
                .arg("-timeout=60")
                .arg("-rss_limit_mb=4096")
                .arg("-malloc_limit_mb=2048")
                .arg("-print_final_stats=1")
                .arg(format!("-fork={}", forks))
                .arg("-ignore_crashes=1")
                .arg("-ignore_timeouts=1")
                .arg("-ignore_ooms=1")
                .env("VERIF_FUZZ_TARGET", t)
                .env("VERIF_ROOT", vcore::verif_root())
                .env("REPO_ROOT", vcore::repo_root())
                .env("ASAN_OPTIONS", "detect_leaks=0:abort_on_error=1:allocator_may_return_null=0:detect_odr_violation=0")
                .env("RUST_BACKTRACE", "0")
                .stdout(Stdio::null())
                .stderr(Stdio::from(logf))
                .spawn();
            match child {
                Ok(c) => running.push((t.clone(), c, log, arts)),
                Err(e) => ctx.note(format!("cannot start fuzz campaign {}: {}", t, e)),
            }
        }
        let deadline = Instant::now() + Duration::from_secs(per + 120);
        for (t, mut c, log, arts) in running {
            loop {
                match c.try_wait() {
                    Ok(Some(_)) => break,
                    Ok(None) if Instant::now() < deadline => std::thread::sleep(Duration::from_millis(200)),
                    _ => {
                        let _ = c.kill();
                        let _ = c.wait();
                        ctx.note(format!("fuzz campaign {} killed after its budget", t));
                        break;
                    }
                }
            }
            let text = std::fs::read_to_string(&log).unwrap_or_default();
            let execs = text.lines().rev().find_map(|l| l.strip_prefix("stat::number_of_executed_units:").map(|v| v.trim().to_string())).unwrap_or_else(|| {
                // fork mode prints "#N: cov: ..." lines
                text.lines().rev().find_map(|l| l.strip_prefix('#').and_then(|r| r.split(':').next()).map(|s| s.trim().to_string())).unwrap_or_default()
            });
            let mut arts_list: Vec<PathBuf> = std::fs::read_dir(&arts).map(|rd| rd.flatten().map(|e| e.path()).collect()).unwrap_or_default();
            arts_list.sort();
            // keep every artifact for inspection (replays/ is not committed)
            if !arts_list.is_empty() {
                let keep = vcore::verif_root().join("replays").join("fuzz-artifacts").join(prop).join(&t);
                let _ = std::fs::create_dir_all(&keep);
                for a in &arts_list {
                    if let Some(n) = a.file_name() {
                        let _ = std::fs::copy(a, keep.join(n));
                    }
                }
            }
            let mut reproduced = 0;
            let mut known = 0;
            for a in arts_list.iter().take(200) {
                let Ok(bytes) = std::fs::read(a) else { continue };
                let case = to_case(&format!("{}_{}", prop.to_lowercase(), t), &bytes);
                let out = chk.run(&case);
                ctx.count_eval(1);
                ctx.class("fuzz_artifact_replay", 1);
                if let Some(f) = out.failure {
                    reproduced += 1;
                    if ctx.is_known(&f.sig) {
                        known += 1;
                    }
                    ctx.record_failure(&f, &serde_json::to_value(&case).unwrap_or(serde_json::Value::Null));
                }
            }
            stats.insert(t.clone(), json!({"executions": execs, "artifacts": arts_list.len(), "artifacts_failing_in_vcheck": reproduced, "of_which_known": known}));
        }
    }
    ctx.extra("fuzz_campaigns", json!({"budget_s": budget, "per_target_s": per, "build_s": build_s, "targets": stats}));
    crate::childsrv::shutdown_thread_client();
    let _ = std::fs::remove_dir_all(&work);
}
