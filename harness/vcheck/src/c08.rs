//! C08 Uncommitted changes are isolated from other handles.
//!
//! G: interleavings of statements over 2..3 `Database::clone()` handles driven from one
//! thread (the statement-level schedule is the quantifier, so the harness owns it); each
//! handle runs autocommit statements or BEGIN .. COMMIT/ROLLBACK.
//! O: snapshot-isolation model — a read by handle h returns the committed state as of h's
//! BEGIN (latest committed state in autocommit) overlaid with h's own writes; of two open
//! transactions that wrote the same row at most one COMMIT succeeds. Divergences are
//! classified (dirty read / non-repeatable read / phantom / lost update / own write
//! invisible / other) and the class is the signature.

use std::collections::{BTreeMap, BTreeSet};

use proptest::prelude::*;
use serde::{Deserialize, Serialize};
use turdb::Database;
use vcore::{Check, Ctx, Outcome, Tier};

use crate::hist::Val;
use crate::world::conv_rows;

#[derive(Debug, Clone, PartialEq, Serialize, Deserialize)]
pub enum Act {
    Begin,
    Commit,
    Rollback,
    ReadAll,
    ReadKey(u8),
    Update(u8, u8),
    Insert(u8, u8),
    Delete(u8),
}

#[derive(Debug, Clone, Serialize, Deserialize)]
pub struct Case {
    pub handles: u8,
    pub wal: bool,
    pub ops: Vec<(u8, Act)>,
}

pub struct C08 {
    pub gates: BTreeSet<String>,
}

type State = BTreeMap<i64, i64>;

struct Txn {
    snapshot: State,
    /// key -> Some(v) written / None deleted
    writes: BTreeMap<i64, Option<i64>>,
}

fn view(committed: &State, txn: &Option<Txn>) -> State {
    match txn {
        None => committed.clone(),
        Some(t) => {
            let mut s = t.snapshot.clone();
            for (k, w) in &t.writes {
                match w {
                    Some(v) => {
                        s.insert(*k, *v);
                    }
                    None => {
                        s.remove(k);
                    }
                }
            }
            s
        }
    }
}

fn read_all(db: &Database) -> Result<State, String> {
    let rows = db.query("SELECT id, v FROM t").map_err(|e| e.to_string())?;
    let mut s = State::new();
    for r in conv_rows(&rows) {
        if let (Some(Val::Int(k)), Some(Val::Int(v))) = (r.first(), r.get(1)) {
            s.insert(*k, *v);
        } else if let Some(Val::Int(k)) = r.first() {
            s.insert(*k, i64::MIN); // NULL value marker
        }
    }
    Ok(s)
}

impl C08 {
    fn go(&self, case: &Case, gates: &BTreeSet<String>) -> Outcome {
        let mut out = Outcome::ok();
        let dir = vcore::tmp::TempDir::new("C08");
        let path = dir.join("db");
        let db0 = match Database::create(&path) {
            Ok(d) => d,
            Err(e) => return out.fail("C08|setup", e.to_string()),
        };
        if case.wal {
            let _ = db0.execute("PRAGMA wal=ON");
        }
        for s in ["CREATE TABLE t (id INT PRIMARY KEY, v INT)", "INSERT INTO t VALUES (1, 10), (2, 20), (3, 30), (4, 40)"] {
            if let Err(e) = db0.execute(s) {
                return out.fail("C08|setup", format!("{} -> {}", s, e));
            }
        }
        let n = (case.handles.clamp(2, 3)) as usize;
        let mut handles: Vec<Database> = vec![db0];
        while handles.len() < n {
            let c = handles[0].clone();
            handles.push(c);
        }
        let mut committed: State = [(1, 10), (2, 20), (3, 30), (4, 40)].into_iter().collect();
        let mut txns: Vec<Option<Txn>> = (0..n).map(|_| None).collect();
        let mut log: Vec<String> = Vec::new();
        let mut overlap = false;
        let mut common_row = false;
        let mut reads = 0usize;
        let tail = |log: &Vec<String>| log.iter().rev().take(14).rev().cloned().collect::<Vec<_>>().join("\n    ");

        for (hsel, act) in &case.ops {
            let h = *hsel as usize % n;
            let others_uncommitted: BTreeSet<i64> = txns.iter().enumerate().filter(|(i, _)| *i != h).filter_map(|(_, t)| t.as_ref()).flat_map(|t| t.writes.keys().copied().collect::<Vec<_>>()).collect();
            match act {
                Act::Begin => {
                    if txns[h].is_some() {
                        continue;
                    }
                    log.push(format!("h{}: BEGIN", h));
                    if let Err(e) = handles[h].execute("BEGIN") {
                        return out.fail("C08|begin_failed", format!("{}\n    {}", e, tail(&log)));
                    }
                    txns[h] = Some(Txn { snapshot: committed.clone(), writes: BTreeMap::new() });
                    if txns.iter().filter(|t| t.is_some()).count() >= 2 {
                        overlap = true;
                    }
                }
                Act::Commit | Act::Rollback => {
                    let Some(t) = txns[h].take() else { continue };
                    let is_commit = matches!(act, Act::Commit);
                    log.push(format!("h{}: {}", h, if is_commit { "COMMIT" } else { "ROLLBACK" }));
                    let r = handles[h].execute(if is_commit { "COMMIT" } else { "ROLLBACK" });
                    if is_commit {
                        // first-committer-wins: a key this txn wrote that was committed by someone else since its snapshot
                        let conflict = t.writes.keys().any(|k| committed.get(k) != t.snapshot.get(k));
                        match r {
                            Ok(_) => {
                                if conflict {
                                    return out.fail(
                                        "C08|lost_update|COMMIT",
                                        format!("handle {} committed although a row it wrote was changed and committed by another handle after its BEGIN (both writers committed)\n    {}", h, tail(&log)),
                                    );
                                }
                                for (k, w) in &t.writes {
                                    match w {
                                        Some(v) => {
                                            committed.insert(*k, *v);
                                        }
                                        None => {
                                            committed.remove(k);
                                        }
                                    }
                                }
                            }
                            Err(e) => {
                                if !conflict {
                                    return out.fail("C08|commit_failed_without_conflict", format!("handle {} COMMIT failed: {}\n    {}", h, e, tail(&log)));
                                }
                                // conflict reported at commit: transaction is gone
                                let _ = handles[h].execute("ROLLBACK");
                            }
                        }
                    } else if let Err(e) = r {
                        return out.fail("C08|rollback_failed", format!("handle {} ROLLBACK failed: {}\n    {}", h, e, tail(&log)));
                    }
                }
                Act::ReadAll | Act::ReadKey(_) => {
                    // gate `dirty_read`: reads while another handle has uncommitted writes are not generated
                    if !others_uncommitted.is_empty() && gates.contains("dirty_read") {
                        out.add_class("gated:dirty_read");
                        continue;
                    }
                    // rollback of UPDATE/DELETE does not restore the table (listed under C07): after such a
                    // rollback the physical state is unknown, so the history stops being judged
                    let expect = view(&committed, &txns[h]);
                    let got = match read_all(&handles[h]) {
                        Ok(s) => s,
                        Err(e) => return out.fail("C08|read_failed", format!("handle {} SELECT failed: {}\n    {}", h, e, tail(&log))),
                    };
                    log.push(format!("h{}: SELECT id, v FROM t  -> {:?}", h, got));
                    reads += 1;
                    let (expect, got) = match act {
                        Act::ReadKey(k) => {
                            let k = (*k % 6) as i64 + 1;
                            (expect.iter().filter(|(x, _)| **x == k).map(|(a, b)| (*a, *b)).collect::<State>(), got.iter().filter(|(x, _)| **x == k).map(|(a, b)| (*a, *b)).collect::<State>())
                        }
                        _ => (expect, got),
                    };
                    if expect != got {
                        // classify
                        let dirty = got.iter().any(|(k, v)| txns.iter().enumerate().any(|(i, t)| i != h && t.as_ref().map(|t| t.writes.get(k) == Some(&Some(*v))).unwrap_or(false)))
                            || expect.iter().any(|(k, _)| !got.contains_key(k) && txns.iter().enumerate().any(|(i, t)| i != h && t.as_ref().map(|t| t.writes.get(k) == Some(&None)).unwrap_or(false)));
                        let own_missing = txns[h].as_ref().map(|t| t.writes.iter().any(|(k, w)| match w {
                            Some(v) => got.get(k) != Some(v),
                            None => got.contains_key(k),
                        })).unwrap_or(false);
                        let latest = view(&committed, &None);
                        let class = if dirty {
                            "dirty_read"
                        } else if own_missing {
                            "own_write_invisible"
                        } else if txns[h].is_some() && got.keys().collect::<Vec<_>>() != expect.keys().collect::<Vec<_>>() && got.iter().all(|(k, v)| latest.get(k) == Some(v) || expect.get(k) == Some(v)) {
                            "phantom"
                        } else if txns[h].is_some() && got.iter().all(|(k, v)| latest.get(k) == Some(v) || expect.get(k) == Some(v)) {
                            "non_repeatable_read"
                        } else {
                            "value_never_written_or_lost"
                        };
                        return out.fail(
                            format!("C08|{}|{}", class, if txns[h].is_some() { "in_txn" } else { "autocommit" }),
                            format!("handle {} read {:?} but snapshot isolation gives {:?} (latest committed {:?})\n    {}", h, got, expect, committed, tail(&log)),
                        );
                    }
                }
                Act::Update(k, v) | Act::Insert(k, v) => {
                    let k = (*k % 6) as i64 + 1;
                    let v = *v as i64 + 100;
                    let cur = view(&committed, &txns[h]);
                    let is_update = matches!(act, Act::Update(..));
                    if is_update != cur.contains_key(&k) {
                        continue; // keep statements meaningful: update existing, insert missing
                    }
                    if txns[h].is_none() && others_uncommitted.contains(&k) {
                        continue; // autocommit write racing an open transaction's write: not generated
                    }
                    if txns[h].is_some() && others_uncommitted.contains(&k) {
                        common_row = true;
                    }
                    // an insert of a key that another open transaction inserted, or that was committed after this
                    // snapshot, may legitimately be refused: only generated when the key is free everywhere
                    if !is_update && (committed.contains_key(&k) || others_uncommitted.contains(&k)) {
                        continue;
                    }
                    let sql = if is_update { format!("UPDATE t SET v = {} WHERE id = {}", v, k) } else { format!("INSERT INTO t VALUES ({}, {})", k, v) };
                    log.push(format!("h{}: {}", h, sql));
                    match handles[h].execute(&sql) {
                        Ok(_) => match txns[h].as_mut() {
                            Some(t) => {
                                t.writes.insert(k, Some(v));
                            }
                            None => {
                                committed.insert(k, v);
                            }
                        },
                        Err(e) => {
                            // write-write conflict may be reported at write time (first-updater-wins)
                            let conflict = others_uncommitted.contains(&k) || txns[h].as_ref().map(|t| committed.get(&k) != t.snapshot.get(&k)).unwrap_or(false);
                            if !conflict {
                                return out.fail("C08|write_failed_without_conflict", format!("handle {}: {} -> {}\n    {}", h, sql, e, tail(&log)));
                            }
                            out.add_class("conflict_reported_at_write");
                        }
                    }
                }
                Act::Delete(k) => {
                    let k = (*k % 6) as i64 + 1;
                    let cur = view(&committed, &txns[h]);
                    if !cur.contains_key(&k) {
                        continue;
                    }
                    if txns[h].is_none() && others_uncommitted.contains(&k) {
                        continue;
                    }
                    if txns[h].is_some() && others_uncommitted.contains(&k) {
                        common_row = true;
                    }
                    let sql = format!("DELETE FROM t WHERE id = {}", k);
                    log.push(format!("h{}: {}", h, sql));
                    match handles[h].execute(&sql) {
                        Ok(_) => match txns[h].as_mut() {
                            Some(t) => {
                                t.writes.insert(k, None);
                            }
                            None => {
                                committed.remove(&k);
                            }
                        },
                        Err(e) => {
                            let conflict = others_uncommitted.contains(&k) || txns[h].as_ref().map(|t| committed.get(&k) != t.snapshot.get(&k)).unwrap_or(false);
                            if !conflict {
                                return out.fail("C08|write_failed_without_conflict", format!("handle {}: {} -> {}\n    {}", h, sql, e, tail(&log)));
                            }
                        }
                    }
                }
            }
            // gates inherited from C07: a ROLLBACK of a transaction that updated/deleted rows leaves the
            // table in an unrestored state; stop judging the history after it
            if matches!(act, Act::Rollback) && (gates.contains("rollback_of_update") || gates.contains("rollback_of_delete")) {
                out.add_class("stopped_after_rollback");
                break;
            }
        }
        if overlap {
            out.add_class("overlapping_txns");
        }
        if common_row {
            out.add_class("common_row_written");
        }
        if case.wal {
            out.add_class("wal_on");
        }
        if overlap && reads > 0 {
            out.nontrivial = Some(vcore::hash_of(&format!("{:?}", case)));
        }
        out
    }
}

impl Check for C08 {
    type Case = Case;
    fn run(&self, case: &Case) -> Outcome {
        self.go(case, &self.gates)
    }
    fn run_strict(&self, case: &Case) -> Outcome {
        // witnesses: own gates open, C07's rollback gates stay
        let f = vcore::Findings::load_default();
        let inherited: BTreeSet<String> = f.closed_gates("C07").into_iter().collect();
        self.go(case, &inherited)
    }
}

pub fn strategy() -> BoxedStrategy<Case> {
    let act = prop_oneof![
        3 => Just(Act::Begin),
        2 => Just(Act::Commit),
        1 => Just(Act::Rollback),
        4 => Just(Act::ReadAll),
        2 => (0u8..6).prop_map(Act::ReadKey),
        4 => (0u8..6, 0u8..50).prop_map(|(k, v)| Act::Update(k, v)),
        2 => (0u8..6, 0u8..50).prop_map(|(k, v)| Act::Insert(k, v)),
        2 => (0u8..6).prop_map(Act::Delete),
    ];
    (2u8..=3, any::<bool>(), proptest::collection::vec((0u8..3, act), 2..24)).prop_map(|(handles, wal, ops)| Case { handles, wal, ops }).boxed()
}

pub fn main(tier: Tier, replay: Option<String>) -> i32 {
    let f = vcore::Findings::load_default();
    let mut gates: BTreeSet<String> = f.closed_gates("C08").into_iter().collect();
    gates.extend(f.closed_gates("C07"));
    let check = C08 { gates };
    if let Some(p) = replay {
        return vcore::replay_file("C08", &check, &p);
    }
    let ctx = Ctx::new("C08", tier, "exploration");
    ctx.set_rule(
        "proptest-generated statement-level interleavings (2..24 steps) over 2-3 cloned handles on one table of 4-6 rows, each handle running autocommit statements or explicit transactions \
         (BEGIN/COMMIT/ROLLBACK, point UPDATE/INSERT/DELETE, full and point reads), WAL on and off; a snapshot-isolation model predicts every read and which COMMITs may succeed. \
         Non-trivial = at least two transactions were open at the same time and at least one read was judged; distinct by hash of the case.",
    );
    ctx.assume("one OS thread issues all statements (statement-level schedules); a write-write conflict may be reported at the write or at COMMIT; inserts of keys another open transaction holds are not generated");
    ctx.assume("real-thread lost-update races are outside this check (schedule not owned); see DESIGN.md §6");
    let cases = tier.pick(6000, 250_000);
    vcore::drive(&ctx, &check, strategy, cases, 16);
    ctx.finish()
}
