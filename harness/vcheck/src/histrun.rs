//! Interpreter for E-hist histories: applies each op to TurDB and to the model and runs the
//! oracles selected by the calling property.

use std::collections::BTreeSet;

use crate::hist::*;
use crate::refdb::*;
use crate::world::*;
use vcore::Outcome;

#[derive(Clone, Debug, Default)]
pub struct Oracles {
    /// results and state must match the relational model after every statement (C05 C09 C21)
    pub model: bool,
    /// a statement that returns Err leaves `obs` unchanged (C06)
    pub fail_no_effect: bool,
    /// ROLLBACK / ROLLBACK TO restore `obs` (C07)
    pub rollback: bool,
    /// checkpoint / close+open / drop+open leave `obs` unchanged (C04)
    pub lifecycle: bool,
    /// only outcome (accept / reject) of writes is compared with the model (C09)
    pub outcome_only: bool,
    /// generated AUTO_INCREMENT values exceed every value the column has ever held (C12)
    pub auto_inc: bool,
}

#[derive(Clone, Debug)]
pub struct RunCfg {
    pub prop: &'static str,
    pub oracles: Oracles,
    pub probes: bool,
    pub closed_gates: BTreeSet<String>,
    /// statements executed right after creation (PRAGMAs)
    pub setup: Vec<String>,
    pub big: bool,
}

fn tagstr(tags: &[&'static str]) -> String {
    let mut t: Vec<&str> = tags.to_vec();
    t.sort();
    t.dedup();
    if t.is_empty() {
        "-".into()
    } else {
        t.join("+")
    }
}

pub struct RunInfo {
    pub executed: Vec<&'static str>,
    pub skipped: usize,
    pub gated: Vec<String>,
    pub errors: usize,
    pub max_rows: usize,
    pub tags_seen: BTreeSet<&'static str>,
    pub lifecycle_after_dml: bool,
    pub delete_then_touch: bool,
    pub rollback_nontrivial: bool,
    pub failing_after_first: bool,
    pub auto_generated_after_event: bool,
}

pub fn run_history(cfg: &RunCfg, h: &History) -> (Outcome, RunInfo) {
    let mut out = Outcome::ok();
    let mut info = RunInfo {
        executed: vec![],
        skipped: 0,
        gated: vec![],
        errors: 0,
        max_rows: 0,
        tags_seen: BTreeSet::new(),
        lifecycle_after_dml: false,
        delete_then_touch: false,
        rollback_nontrivial: false,
        failing_after_first: false,
        auto_generated_after_event: false,
    };
    NEG_DEFAULT_OK.with(|c| c.set(!cfg.closed_gates.contains("negative_default")));
    let mut db = Db::create(cfg.prop);
    for s in &cfg.setup {
        if let Exec::Err(e) = db.exec(s) {
            out.set_fail(format!("{}|setup|{}", cfg.prop, s.split('=').next().unwrap_or("")), format!("{} failed: {}", s, e));
            return (out, info);
        }
    }
    let mut model = Model::new(&h.tables, cfg.big);
    let mut log: Vec<String> = Vec::new();
    for t in model.tables.clone() {
        for sql in Model::create_sql(&t) {
            log.push(sql.clone());
            if let Exec::Err(e) = db.exec(&sql) {
                if cfg.oracles.model && cfg.prop == "C21" {
                    out.set_fail(format!("{}|outcome|valid_statement_rejected|CREATE", cfg.prop), format!("{} -> {}", sql, e));
                }
                out.add_class("schema_rejected");
                return (out, info);
            }
        }
    }
    // pre-load (multi-page tables): plain multi-row INSERTs of distinct wide rows, mirrored in the model
    let mut prefilled = false;
    for (ti, spec) in h.tables.iter().enumerate() {
        let rows = crate::hist::prefill_rows(spec);
        if rows.is_empty() || ti >= model.tables.len() {
            continue;
        }
        for chunk in rows.chunks(50) {
            let sql = format!(
                "INSERT INTO {} VALUES {}",
                spec.name,
                chunk.iter().map(|r| format!("({})", r.iter().map(|v| v.sql()).collect::<Vec<_>>().join(", "))).collect::<Vec<_>>().join(", ")
            );
            match vcore::catch(|| db.exec(&sql)) {
                Ok(Exec::Err(e)) => {
                    out.set_fail(format!("{}|outcome|valid_statement_rejected|INSERT|prefill", cfg.prop), format!("pre-load of {} rows into {} ({}) -> {}", rows.len(), spec.name, Model::create_sql(&model.tables[ti]).join("; "), e));
                    return (out, info);
                }
                Err(p) => {
                    out.set_fail(format!("{}|panic|{}|prefill", cfg.prop, vcore::panic_signature(&p).replace("panic|", "")), format!("pre-load of {} panicked at {}:{}: {}", spec.name, p.file, p.line, p.message));
                    return (out, info);
                }
                _ => {}
            }
        }
        log.push(format!("-- {} rows pre-loaded into {}", rows.len(), spec.name));
        model.tables[ti].rows.extend(rows);
        model.tables[ti].ever_had_rows = true;
        prefilled = true;
        out.add_class(if spec.prefill >= 300 { "prefill:600" } else { "prefill:70" });
    }
    let need_obs = cfg.oracles.fail_no_effect || cfg.oracles.rollback || cfg.oracles.lifecycle || cfg.oracles.auto_inc;
    // C12: per table, the largest value the AUTO_INCREMENT column has ever been observed to hold,
    // and what happened since the last generated id
    let mut auto_hwm: std::collections::BTreeMap<String, i64> = Default::default();
    let mut auto_leaked: std::collections::BTreeMap<String, std::collections::BTreeSet<i64>> = Default::default();
    let mut auto_events: std::collections::BTreeMap<String, Vec<&'static str>> = Default::default();
    let mut last_obs: Option<Obs> = if need_obs { Some(obs(&db, &model.tables, cfg.probes)) } else { None };
    let mut begin_obs: Option<Obs> = None;
    let mut sp_obs: Vec<(String, Obs)> = Vec::new();
    let mut dml_since_open = false;
    let mut deleted_recently = false;
    let mut txn_has_update_or_delete = false;

    // schema-changing statements whose damage shows up at later statements: once executed,
    // their tag is part of every later signature of the history ("sticky")
    const STICKY: [&str; 5] = ["rename_indexed_column", "drop_column_with_rows", "truncate_table_with_rows", "add_column_to_table_with_rows", "reuses_dropped_table_name"];
    let mut sticky: Vec<&'static str> = Vec::new();
    if prefilled {
        sticky.push("multi_page_table");
    }

    macro_rules! fail {
        ($facet:expr, $r:expr, $detail:expr) => {{
            let mut all_tags: Vec<&'static str> = $r.tags.clone();
            all_tags.extend(sticky.iter().copied());
            let keep = if std::env::var("VERIF_DEV_FULL_LOG").is_ok() { 10_000 } else { 12 };
            let tail: Vec<String> = log.iter().rev().take(keep).rev().cloned().map(|s| if s.len() > 160 { let mut c = 160; while !s.is_char_boundary(c) { c -= 1; } format!("{}…", &s[..c]) } else { s }).collect();
            out.set_fail(
                format!("{}|{}|{}|{}", cfg.prop, $facet, $r.kind, tagstr(&all_tags)),
                format!("{}\n  last statements:\n    {}", $detail, tail.join("\n    ")),
            );
            return (out, info);
        }};
    }

    for op in &h.ops {
        let Some(mut r) = model.resolve(op) else {
            info.skipped += 1;
            continue;
        };
        if cfg.oracles.auto_inc && r.kind == "INSERT" && (r.tags.contains(&"auto_inc_generated") || r.tags.contains(&"auto_inc_explicit_null")) {
            if let Some(ev) = r.table.as_ref().and_then(|t| auto_events.get(t)) {
                for e in ev {
                    if !r.tags.contains(e) {
                        r.tags.push(e);
                    }
                }
            }
        }
        if let Some(g) = r.tags.iter().find(|t| cfg.closed_gates.contains(**t)) {
            info.gated.push((*g).to_string());
            continue;
        }
        for t in &r.tags {
            info.tags_seen.insert(t);
            if STICKY.contains(t) && !sticky.contains(t) {
                sticky.push(t);
            }
        }
        info.executed.push(r.kind);
        let is_dml = matches!(r.kind, "INSERT" | "UPDATE" | "DELETE" | "TRUNCATE");
        // ---- execute
        let exec = if let Some(l) = r.lifecycle {
            log.push(format!("-- {:?}", l));
            let res = match l {
                Lifecycle::Checkpoint => db.checkpoint(),
                Lifecycle::Reopen => db.reopen(),
                Lifecycle::DropReopen => db.drop_reopen(),
            };
            match res {
                Ok(()) => {
                    for s in &cfg.setup {
                        if !matches!(l, Lifecycle::Checkpoint) {
                            let _ = db.exec(s);
                        }
                    }
                    Exec::Ok { affected: None, returned: None, rows: None, other: String::new() }
                }
                Err(e) => {
                    if db.handle.is_none() {
                        fail!("lifecycle|open_failed", r, format!("{:?} failed: {}", l, e));
                    }
                    Exec::Err(e)
                }
            }
        } else {
            log.push(r.sql.clone());
            match vcore::catch(|| db.exec(&r.sql)) {
                Ok(e) => e,
                Err(p) => fail!(format!("panic|{}", vcore::panic_signature(&p).replace("panic|", "")), r, format!("{} panicked at {}:{}: {}", short(&r.sql), p.file, p.line, p.message)),
            }
        };
        if matches!(r.kind, "REOPEN" | "DROP_REOPEN" | "CHECKPOINT" | "PRAGMA_CHECKPOINT") && dml_since_open {
            info.lifecycle_after_dml = true;
        }
        if is_dml {
            dml_since_open = true;
            if deleted_recently && r.rows_touched > 0 || (r.kind == "DELETE" && deleted_recently) {
                info.delete_then_touch = true;
            }
            if r.kind == "DELETE" && r.rows_touched > 0 {
                deleted_recently = true;
            }
            if model.in_txn() && matches!(r.kind, "INSERT" | "UPDATE" | "DELETE") && r.rows_touched > 0 && matches!(exec, Exec::Ok { .. }) {
                txn_has_update_or_delete = true;
            }
        }
        if r.tags.contains(&"fails_after_first_row") {
            info.failing_after_first = true;
        }
        // ---- outcome
        match (&r.expect, &exec) {
            (Expect::Ok { affected, returning }, Exec::Ok { affected: ga, returned: gr, .. }) => {
                if cfg.oracles.model && !cfg.oracles.outcome_only {
                    if let (Some(a), Some(g)) = (affected, ga) {
                        if a != g {
                            fail!("affected", r, format!("{} : model affects {} rows, TurDB reports {}", short(&r.sql), a, g));
                        }
                    }
                    if let Some(exp) = returning {
                        match gr {
                            Some(g) => {
                                let (mut e2, mut g2) = (exp.clone(), g.clone());
                                sort_rows(&mut e2);
                                sort_rows(&mut g2);
                                if e2 != g2 {
                                    fail!("returning", r, format!("{} : RETURNING expected {:?} got {:?}", short(&r.sql), e2, g2));
                                }
                            }
                            None => fail!("returning|none", r, format!("{} : no RETURNING rows", short(&r.sql))),
                        }
                    }
                }
                model.commit(&r);
            }
            (Expect::Ok { .. }, Exec::Err(e)) => {
                info.errors += 1;
                if cfg.oracles.model && r.lifecycle.is_none() {
                    fail!("outcome|valid_statement_rejected", r, format!("{} -> Err({})", short(&r.sql), e));
                }
                if cfg.oracles.lifecycle && r.lifecycle.is_some() {
                    fail!("lifecycle|error", r, format!("{:?} -> Err({})", r.lifecycle, e));
                }
                // statement refused: neither model nor schema change
            }
            (Expect::Err(class), Exec::Ok { .. }) => {
                if cfg.oracles.model {
                    fail!(format!("outcome|invalid_statement_accepted|{}", class), r, format!("{} violates {} but was accepted", short(&r.sql), class));
                }
                // unknown resulting state: adopt nothing, stop comparing this history further
                out.add_class("model_diverged_stop");
                break;
            }
            (Expect::Err(_), Exec::Err(_)) => {
                info.errors += 1;
            }
        }
        info.max_rows = info.max_rows.max(model.tables.iter().map(|t| t.rows.len()).max().unwrap_or(0));

        // ---- state oracles
        let now: Option<Obs> = if need_obs || (cfg.oracles.model && !cfg.oracles.outcome_only) {
            match vcore::catch(|| obs(&db, &model.tables, cfg.probes)) {
                Ok(o) => Some(o),
                Err(p) => fail!(format!("panic_in_select|{}", vcore::panic_signature(&p).replace("panic|", "")), r, format!("a SELECT of the observation after {} panicked at {}:{}: {}", short(&r.sql), p.file, p.line, p.message)),
            }
        } else {
            None
        };
        if cfg.oracles.model && !cfg.oracles.outcome_only {
            let got = now.as_ref().unwrap();
            let exp = model_obs(&model.tables, Some(got));
            if let Some((facet, detail)) = diff_obs(&exp, got) {
                fail!(facet, r, detail);
            }
        }
        if cfg.oracles.fail_no_effect && is_dml {
            if let (Exec::Err(e), Some(before), Some(after)) = (&exec, &last_obs, &now) {
                if let Some((facet, detail)) = diff_obs(before, after) {
                    fail!(format!("failed_statement_changed_state|{}", facet), r, format!("{} returned Err({}) but the database changed: {}", short(&r.sql), e, detail));
                }
            }
        }
        if cfg.oracles.lifecycle && matches!(r.kind, "REOPEN" | "DROP_REOPEN" | "CHECKPOINT" | "PRAGMA_CHECKPOINT") {
            if let (Some(before), Some(after)) = (&last_obs, &now) {
                if let Some((facet, detail)) = diff_obs(before, after) {
                    fail!(format!("lifecycle_changed_state|{}", facet), r, format!("state differs across {}: {}", r.kind, detail));
                }
            }
        }
        if cfg.oracles.rollback {
            match &r.txn {
                TxnEffect::Begin => {
                    if matches!(exec, Exec::Ok { .. }) {
                        begin_obs = last_obs.clone();
                        sp_obs.clear();
                        txn_has_update_or_delete = false;
                    }
                }
                TxnEffect::Savepoint(n) => {
                    if matches!(exec, Exec::Ok { .. }) {
                        if let Some(o) = &last_obs {
                            sp_obs.push((n.clone(), o.clone()));
                        }
                    }
                }
                TxnEffect::Rollback => {
                    if let Exec::Err(e) = &exec {
                        fail!("rollback|error", r, format!("ROLLBACK failed: {}", e));
                    }
                    if let (Some(b), Some(a)) = (&begin_obs, &now) {
                        if txn_has_update_or_delete {
                            info.rollback_nontrivial = true;
                        }
                        if let Some((facet, detail)) = diff_obs(b, a) {
                            fail!(format!("rollback_not_restored|{}", facet), r, format!("state after ROLLBACK differs from state at BEGIN: {}", detail));
                        }
                    }
                    begin_obs = None;
                    sp_obs.clear();
                }
                TxnEffect::RollbackTo(n) => {
                    if let Exec::Err(e) = &exec {
                        fail!("rollback_to|error", r, format!("{} failed: {}", r.sql, e));
                    }
                    if let Some(pos) = sp_obs.iter().position(|s| &s.0 == n) {
                        if let Some(a) = &now {
                            if txn_has_update_or_delete {
                                info.rollback_nontrivial = true;
                            }
                            if let Some((facet, detail)) = diff_obs(&sp_obs[pos].1, a) {
                                fail!(format!("rollback_to_not_restored|{}", facet), r, format!("state after ROLLBACK TO {} differs from state at SAVEPOINT: {}", n, detail));
                            }
                        }
                        sp_obs.truncate(pos + 1);
                    }
                }
                TxnEffect::Commit => {
                    begin_obs = None;
                    sp_obs.clear();
                }
                TxnEffect::Release(n) => {
                    if let Some(pos) = sp_obs.iter().position(|s| &s.0 == n) {
                        sp_obs.truncate(pos);
                    }
                }
                TxnEffect::None => {}
            }
        }
        if cfg.oracles.auto_inc {
            if let Some(nowo) = &now {
                // events that matter for the next generated id
                let ev: Option<&'static str> = match r.kind {
                    "ROLLBACK" | "ROLLBACK_TO" => Some("generated_after_rollback"),
                    "REOPEN" | "DROP_REOPEN" => Some("generated_after_reopen"),
                    "DELETE" if r.rows_touched > 0 => Some("generated_after_delete"),
                    "TRUNCATE" => Some("generated_after_truncate"),
                    "CHECKPOINT" | "PRAGMA_CHECKPOINT" => Some("generated_after_checkpoint"),
                    _ => None,
                };
                if let Some(e) = ev {
                    for t in &model.tables {
                        if t.auto_col().is_some() {
                            let v = auto_events.entry(t.name.clone()).or_default();
                            if !v.contains(&e) {
                                v.push(e);
                            }
                        }
                    }
                }
                for t in &model.tables {
                    let Some(ac) = t.auto_col() else { continue };
                    let ids_now: Vec<i64> = nowo.get(&t.name).and_then(|o| o.rows.as_ref().ok()).map(|rs| rs.iter().filter_map(|r| if let Some(Val::Int(i)) = r.get(ac) { Some(*i) } else { None }).collect()).unwrap_or_default();
                    let generated_stmt = r.kind == "INSERT"
                        && r.table.as_deref() == Some(t.name.as_str())
                        && matches!(exec, Exec::Ok { .. })
                        && (r.tags.contains(&"auto_inc_generated") || r.tags.contains(&"auto_inc_explicit_null"))
                        && !r.tags.contains(&"auto_inc_explicit");
                    if generated_stmt {
                        let ids_before: Vec<i64> = last_obs.as_ref().and_then(|o| o.get(&t.name)).and_then(|o| o.rows.as_ref().ok()).map(|rs| rs.iter().filter_map(|r| if let Some(Val::Int(i)) = r.get(ac) { Some(*i) } else { None }).collect()).unwrap_or_default();
                        let mut fresh: Vec<i64> = ids_now.clone();
                        for b in &ids_before {
                            if let Some(p) = fresh.iter().position(|x| x == b) {
                                fresh.remove(p);
                            }
                        }
                        let hwm = auto_hwm.get(&t.name).copied().unwrap_or(0);
                        if auto_events.get(&t.name).map(|v| !v.is_empty()).unwrap_or(false) && !fresh.is_empty() {
                            info.auto_generated_after_event = true;
                        }
                        if let Some(bad) = fresh.iter().find(|g| **g <= hwm) {
                            fail!("generated_id_not_above_history", r, format!("{} generated id {} but the column has already held {} (ids now {:?})", short(&r.sql), bad, hwm, ids_now));
                        }
                        let mut sorted = fresh.clone();
                        sorted.sort();
                        sorted.dedup();
                        if sorted.len() != fresh.len() {
                            fail!("generated_ids_not_distinct", r, format!("{} generated duplicate ids {:?}", short(&r.sql), fresh));
                        }
                        auto_events.remove(&t.name);
                    }
                    // ids that a *failed* statement left behind (rows before the violating row of a multi-row INSERT:
                    // C06's listed finding) are not values the column "has held" as far as this property goes: the
                    // statement reported no effect, and TurDB does not advance the counter for it either
                    if matches!(exec, Exec::Ok { .. }) {
                        let left = auto_leaked.get(&t.name);
                        if let Some(m) = ids_now.iter().filter(|i| !left.map(|l| l.contains(*i)).unwrap_or(false)).max() {
                            let e = auto_hwm.entry(t.name.clone()).or_insert(0);
                            if *m > *e {
                                *e = *m;
                            }
                        }
                    } else {
                        let hwm = auto_hwm.get(&t.name).copied().unwrap_or(0);
                        let before: Vec<i64> = last_obs.as_ref().and_then(|o| o.get(&t.name)).and_then(|o| o.rows.as_ref().ok()).map(|rs| rs.iter().filter_map(|r| if let Some(Val::Int(i)) = r.get(ac) { Some(*i) } else { None }).collect()).unwrap_or_default();
                        for i in ids_now.iter().filter(|i| **i > hwm && !before.contains(*i)) {
                            auto_leaked.entry(t.name.clone()).or_default().insert(*i);
                            out.add_class("ids_left_by_failed_statement_ignored");
                        }
                    }
                }
            }
        }
        if now.is_some() {
            last_obs = now;
        }
    }
    (out, info)
}

pub fn short(sql: &str) -> String {
    if sql.len() > 300 {
        let mut cut = 300;
        while !sql.is_char_boundary(cut) {
            cut -= 1;
        }
        format!("{}… ({} bytes)", &sql[..cut], sql.len())
    } else {
        sql.to_string()
    }
}
