// Thorough-tier sizes of the checks that observe the whole database after every statement are bounded by memory,
// not time: the process under test keeps a few hundred bytes per executed query for its whole life (seen as
// ~0.5-1 MB of resident memory per generated history), so 120 000 histories in one process need > 50 GB.
//! History-driven checks that share the E-hist interpreter: C04 C06 C07 C09 C12 C21.

use std::collections::BTreeSet;

use proptest::prelude::*;
use vcore::{Check, Ctx, Outcome, Tier};

use crate::hist::*;
use crate::histrun::*;

#[derive(Debug, Clone, serde::Serialize, serde::Deserialize)]
pub struct Case {
    pub big: bool,
    pub wal: bool,
    pub h: History,
}

pub struct HistCheck {
    pub prop: &'static str,
    pub oracles: Oracles,
    pub gates: BTreeSet<String>,
    pub nontrivial: fn(&RunInfo, &Case) -> bool,
}

impl HistCheck {
    fn cfg(&self, case: &Case, gates: BTreeSet<String>) -> RunCfg {
        RunCfg {
            prop: self.prop,
            oracles: self.oracles.clone(),
            probes: true,
            closed_gates: gates,
            setup: if case.wal { vec!["PRAGMA wal=ON".into()] } else { vec![] },
            big: case.big,
        }
    }
    fn go(&self, case: &Case, gates: BTreeSet<String>) -> Outcome {
        let (mut out, info) = run_history(&self.cfg(case, gates), &case.h);
        let mut g: Vec<&String> = info.gated.iter().collect();
        g.sort();
        g.dedup();
        for x in g {
            out.add_class(format!("gated:{}", x));
        }
        for t in &info.tags_seen {
            out.add_class(format!("tag:{}", t));
        }
        let kinds: BTreeSet<&&str> = info.executed.iter().collect();
        for k in kinds {
            out.add_class(format!("op:{}", k));
        }
        if case.wal {
            out.add_class("wal_on");
        }
        if info.errors > 0 {
            out.add_class("has_failed_statement");
        }
        if (self.nontrivial)(&info, case) {
            out.nontrivial = Some(vcore::hash_of(&format!("{:?}{:?}", case.h.tables, case.h.ops)));
            out.add_class("nontrivial");
        }
        out
    }
}

impl Check for HistCheck {
    type Case = Case;
    fn run(&self, case: &Case) -> Outcome {
        self.go(case, self.gates.clone())
    }
    fn run_strict(&self, case: &Case) -> Outcome {
        // witnesses of this property's findings: the property's own gates are open, the
        // gates inherited from the shared DML findings (C05) stay closed so that a witness
        // cannot trip over a different property's listed defect first
        let f = vcore::Findings::load_default();
        let own: BTreeSet<String> = f.closed_gates(self.prop).into_iter().collect();
        let inherited: BTreeSet<String> = SHARED.iter().flat_map(|p| f.closed_gates(p)).filter(|g| !own.contains(g)).collect();
        self.go(case, inherited)
    }
}

/// gates of the property itself plus the ones inherited from the shared DML findings (C05)
/// properties whose listed findings describe defects any history can run into
pub const SHARED: [&str; 3] = ["C05", "C07", "C04"];

pub fn gates_for(prop: &str) -> BTreeSet<String> {
    let f = vcore::Findings::load_default();
    let mut g: BTreeSet<String> = f.closed_gates(prop).into_iter().collect();
    for p in SHARED {
        g.extend(f.closed_gates(p));
    }
    g
}

fn case_strategy(p_small: Profile, p_big: Option<Profile>, wal_mix: bool) -> BoxedStrategy<Case> {
    let wal = if wal_mix { any::<bool>().boxed() } else { Just(false).boxed() };
    match p_big {
        Some(pb) => prop_oneof![
            4 => (history_strategy(&p_small), wal.clone()).prop_map(|(h, wal)| Case { big: false, wal, h }),
            1 => (history_strategy(&pb), wal).prop_map(|(h, wal)| Case { big: true, wal, h }),
        ]
        .boxed(),
        None => (history_strategy(&p_small), wal).prop_map(|(h, wal)| Case { big: false, wal, h }).boxed(),
    }
}

fn drive_hist(ctx: &std::sync::Arc<Ctx>, check: &HistCheck, strat: impl Fn() -> BoxedStrategy<Case> + Sync, cases: u64) -> i32 {
    vcore::drive(ctx, check, strat, cases, 16);
    ctx.finish()
}

// ----------------------------------------------------------------------------------------- C06

pub fn c06(tier: Tier, replay: Option<String>) -> i32 {
    let check = HistCheck {
        prop: "C06",
        oracles: Oracles { fail_no_effect: true, ..Default::default() },
        gates: gates_for("C06"),
        nontrivial: |info, _| info.errors > 0 && (info.failing_after_first || info.max_rows >= 1),
    };
    if let Some(p) = replay {
        return vcore::replay_file("C06", &check, &p);
    }
    let ctx = Ctx::new("C06", tier, "exploration");
    ctx.set_rule(
        "E-hist histories (generated schemas with PK/UNIQUE/NOT NULL/DEFAULT/indexes; INSERT single and multi-row, UPDATE single and multi-row incl. key columns, DELETE, \
         TRUNCATE; pool values so duplicate keys and NULLs into NOT NULL columns are frequent). Oracle (metamorphic on TurDB itself): whenever a statement returns Err, the full \
         observation (SELECT * multiset, COUNT(*), index probes of every table) taken after it equals the one taken before it. Non-trivial = the history contains a statement \
         that returned an error on a table holding rows; distinct by hash of schema+ops.",
    );
    ctx.assume("AUTO_INCREMENT counters are not part of the compared state (SQL permits gaps after failed statements)");
    let p = Profile { max_ops: 25, truncate: 1, ..Profile::default() };
    let pb = Profile { max_ops: 50, big_keys: true, max_insert_rows: 10, prefill: true, ..Profile::default() };
    let cases = tier.pick(3000, 30_000);
    drive_hist(&ctx, &check, move || case_strategy(p.clone(), Some(pb.clone()), true), cases)
}

// ----------------------------------------------------------------------------------------- C07

pub fn c07(tier: Tier, replay: Option<String>) -> i32 {
    let check = HistCheck {
        prop: "C07",
        oracles: Oracles { rollback: true, model: true, outcome_only: true, ..Default::default() },
        gates: gates_for("C07"),
        nontrivial: |info, _| info.rollback_nontrivial,
    };
    if let Some(p) = replay {
        return vcore::replay_file("C07", &check, &p);
    }
    let ctx = Ctx::new("C07", tier, "exploration");
    ctx.set_rule(
        "E-hist histories with BEGIN/COMMIT/ROLLBACK, nested SAVEPOINT/RELEASE/ROLLBACK TO, dropping the handle inside a transaction, DML on indexed and unindexed tables \
         with INT, TEXT or no primary key. Oracles: (metamorphic) the observation (rows, COUNT(*), index probes) after ROLLBACK equals the one at BEGIN, after ROLLBACK TO the one \
         at SAVEPOINT; (model) every later write is accepted/rejected as the relational model says, which exposes stale or missing unique-index entries. Non-trivial = the \
         rolled-back transaction contained at least one successful INSERT/UPDATE/DELETE that touched rows; distinct by hash of schema+ops.",
    );
    let p = Profile { max_ops: 30, txn: 6, dml: 10, truncate: 0, ..Profile::default() };
    let pb = Profile { max_ops: 60, txn: 6, dml: 12, truncate: 0, big_keys: true, max_insert_rows: 12, ..Profile::default() };
    // third profile: tables without any key or index, savepoint-heavy, so that ROLLBACK TO followed by more
    // writes and another rollback is common; pt/pp generate whole transactions as units on pre-loaded tables
    let pp = Profile {
        max_ops: 40, txn: 12, dml: 10, truncate: 0, allow_pk: false, allow_text_pk: false, allow_unique: false, allow_indexes: false, allow_long: false,
        allow_auto_inc: false, allow_fk: false, txn_blocks: true, prefill: true, ..Profile::default()
    };
    let pt = Profile { txn_blocks: true, prefill: true, max_ops: 40, ..p.clone() };
    let cases = tier.pick(3000, 36_000);
    drive_hist(
        &ctx,
        &check,
        move || {
            prop_oneof![
                2 => case_strategy(p.clone(), Some(pb.clone()), true),
                1 => case_strategy(pt.clone(), None, true),
                2 => case_strategy(pp.clone(), None, true),
            ]
            .boxed()
        },
        cases,
    )
}

// ----------------------------------------------------------------------------------------- C04

pub fn c04(tier: Tier, replay: Option<String>) -> i32 {
    let check = HistCheck {
        prop: "C04",
        oracles: Oracles { lifecycle: true, model: true, outcome_only: true, ..Default::default() },
        gates: gates_for("C04"),
        nontrivial: |info, _| info.lifecycle_after_dml,
    };
    if let Some(p) = replay {
        return vcore::replay_file("C04", &check, &p);
    }
    let ctx = Ctx::new("C04", tier, "exploration");
    ctx.set_rule(
        "E-hist histories (DDL + DML) with checkpoint(), PRAGMA wal_checkpoint, close()+open() and drop-without-close+open() inserted at random positions, WAL on and off. \
         Oracles: (metamorphic) the observation (every table's rows, COUNT(*), index probes) immediately after the lifecycle operation equals the one immediately before; \
         (model) statements after the lifecycle operation are accepted/rejected and generate AUTO_INCREMENT values as on a never-reopened database. Non-trivial = a lifecycle \
         operation executed after DML in the same history; distinct by hash of schema+ops.",
    );
    let p = Profile { max_ops: 30, lifecycle: 4, ddl: 2, dml: 10, allow_auto_inc: true, ..Profile::default() };
    let pb = Profile { max_ops: 60, lifecycle: 4, ddl: 1, dml: 12, big_keys: true, max_insert_rows: 12, allow_auto_inc: true, prefill: true, ..Profile::default() };
    let cases = tier.pick(2500, 20_000);
    drive_hist(&ctx, &check, move || case_strategy(p.clone(), Some(pb.clone()), true), cases)
}

// ----------------------------------------------------------------------------------------- C09

pub fn c09(tier: Tier, replay: Option<String>) -> i32 {
    let check = HistCheck {
        prop: "C09",
        oracles: Oracles { model: true, outcome_only: true, ..Default::default() },
        gates: gates_for("C09"),
        nontrivial: |info, _| info.errors > 0 && info.executed.iter().filter(|k| matches!(**k, "INSERT" | "UPDATE")).count() > info.errors,
    };
    if let Some(p) = replay {
        return vcore::replay_file("C09", &check, &p);
    }
    let ctx = Ctx::new("C09", tier, "exploration");
    ctx.set_rule(
        "E-hist histories over schemas with PRIMARY KEY / UNIQUE (single column), NOT NULL, column CHECKs (comparisons with = <> < <= > >= joined by AND/OR over numeric and text          columns) and FOREIGN KEYs to the first table's integer key (NO ACTION / RESTRICT / CASCADE); key updates, delete-then-reinsert of the same key, parent deletes, transactions.          Oracle (both directions): a write is accepted iff the relational model says the resulting state satisfies every declared constraint (CHECK passes unless FALSE under          three-valued logic). Non-trivial = the history contains at least one rejected and one accepted INSERT/UPDATE; distinct by hash of schema+ops.",
    );
    ctx.assume("NULL primary keys, statements whose verdict depends on row-at-a-time vs end-of-statement checking, TRUNCATE/DROP of FK parents and ON DELETE SET NULL (documented as not implemented by its error message) are not generated");
    let p = Profile { max_tables: 3, max_ops: 30, txn: 2, dml: 12, truncate: 1, allow_check: true, allow_fk: true, prefill: true, ..Profile::default() };
    let cases = tier.pick(3000, 120_000);
    drive_hist(&ctx, &check, move || case_strategy(p.clone(), None, false), cases)
}

// ----------------------------------------------------------------------------------------- C12

pub fn c12(tier: Tier, replay: Option<String>) -> i32 {
    let check = HistCheck {
        prop: "C12",
        oracles: Oracles { auto_inc: true, ..Default::default() },
        gates: gates_for("C12"),
        nontrivial: |info, _| info.auto_generated_after_event,
    };
    if let Some(p) = replay {
        return vcore::replay_file("C12", &check, &p);
    }
    let ctx = Ctx::new("C12", tier, "exploration");
    ctx.set_rule(
        "E-hist histories on tables with an INT PRIMARY KEY AUTO_INCREMENT column: inserts that omit the id or pass NULL, inserts with explicit ids above and below the counter,          deletes (incl. of the maximum), TRUNCATE, transactions with ROLLBACK / ROLLBACK TO, checkpoint and reopen. Invariant over the history (no model of the counter needed):          every generated id is greater than every value the column has been observed to hold at any earlier point (committed or later rolled back), and the ids generated by one          statement are distinct. Non-trivial = ids were generated after a delete, rollback, truncate, checkpoint or reopen; distinct by hash of schema+ops.",
    );
    ctx.assume("generated ids are identified as the ids present after the INSERT and absent before it; statements mixing explicit and generated ids are only used to move the counter, not judged");
    let p = Profile { max_tables: 2, max_ops: 30, txn: 3, dml: 12, lifecycle: 2, truncate: 1, allow_auto_inc: true, allow_text_pk: false, ..Profile::default() };
    let cases = tier.pick(3000, 36_000);
    drive_hist(&ctx, &check, move || case_strategy(p.clone(), None, true), cases)
}

// ----------------------------------------------------------------------------------------- C21

pub fn c21(tier: Tier, replay: Option<String>) -> i32 {
    let check = HistCheck {
        prop: "C21",
        oracles: Oracles { model: true, ..Default::default() },
        gates: gates_for("C21"),
        nontrivial: |info, _| info.executed.iter().any(|k| matches!(*k, "ADD_COLUMN" | "DROP_COLUMN" | "RENAME_COLUMN" | "CREATE_INDEX" | "DROP_INDEX" | "CREATE_TABLE" | "DROP_TABLE" | "TRUNCATE")) && info.lifecycle_after_dml,
    };
    if let Some(p) = replay {
        return vcore::replay_file("C21", &check, &p);
    }
    let ctx = Ctx::new("C21", tier, "exploration");
    ctx.set_rule(
        "E-hist histories interleaving CREATE/DROP TABLE, CREATE/DROP INDEX, TRUNCATE and ALTER TABLE ADD / DROP / RENAME COLUMN with DML and close+reopen. Oracle: the relational          model predicts every table's column set and rows (defaults for new rows of added columns, preserved values after DROP/RENAME COLUMN, emptied tables after TRUNCATE,          backfilled indexes answering probes, dropped objects gone) after every statement and after reopen. Non-trivial = at least one schema change and a reopen after DML in          the same history; distinct by hash of schema+ops.",
    );
    ctx.assume("ADD COLUMN with a DEFAULT on a table that already has rows is not generated (the property allows default or NULL for existing rows); dropping key/indexed columns is not generated");
    let p = Profile { max_tables: 2, max_ops: 30, ddl: 6, dml: 10, lifecycle: 2, truncate: 1, prefill: true, ..Profile::default() };
    let cases = tier.pick(3000, 15_000);
    drive_hist(&ctx, &check, move || case_strategy(p.clone(), None, false), cases)
}
