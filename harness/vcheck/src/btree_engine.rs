//! Shared engine of C28 (the B-tree behaves as an ordered map) and C29 (B-tree pages stay
//! structurally valid).
//!
//! * `Case` = an operation sequence over compact key/value descriptions (JSON-serialisable,
//!   shrinkable); keys are materialised by the pure function `make_key(shape, n)`.
//! * `MemStorage` = in-memory implementation of the `Storage` trait `BTree<S>` needs.
//! * `Engine` applies every step to `turdb::btree::BTree` *and* to a
//!   `std::collections::BTreeMap` model. The tree is re-instantiated for every step from
//!   the persisted root page (and, when the case carries it, the rightmost-leaf hint), the
//!   way the database layer does (`BTree::new` / `BTree::with_rightmost_hint`, then
//!   `root_page()` / `rightmost_hint()` written back).
//! * `walk` = structural page walker used by C29. It reads raw page bytes and the public
//!   `PageHeader` / `LeafNode` / `InteriorNode` accessors only; it never calls `find_key`,
//!   `find_child` or any other search routine of the tree.

use std::collections::{BTreeMap, BTreeSet};
use std::ops::Bound;

use proptest::prelude::*;
use serde::{Deserialize, Serialize};
use turdb::btree::{
    BTree, BTreeReader, InsertUniqueResult, InteriorNode, LeafNode, INTERIOR_CONTENT_START, INTERIOR_SLOT_SIZE,
    LEAF_CONTENT_START, SLOT_SIZE,
};
use turdb::storage::{MmapStorage, PageHeader, PageType, Storage, PAGE_SIZE};
use vcore::Outcome;

/// Sound domain: the SQL layer TOASTs values above 1000 bytes into 4000-byte chunks, so a
/// cell (key + length varint + value) never exceeds ~4 KiB.
pub const MAX_CELL: usize = 4096;
pub const MAX_KEY: usize = 2100;

// ---------------------------------------------------------------------------------------
// Case
// ---------------------------------------------------------------------------------------

#[derive(Debug, Clone, Serialize, Deserialize, Hash, PartialEq, Eq)]
pub enum K {
    /// `make_key(shape, n)`
    New { n: u32 },
    /// the smallest stored key >= `make_key(shape, n)` (wrapping to the first stored key)
    Old { n: u32 },
    /// a neighbour of `Old{n}`: how%4 = 0 key+[0x00] (immediate successor), 1 key minus its
    /// last byte (a proper prefix, sorts before), 2 last byte + 1, 3 last byte - 1 then 0xFF
    Near { n: u32, how: u8 },
}

#[derive(Debug, Clone, Serialize, Deserialize, Hash, PartialEq, Eq)]
pub struct V {
    pub len: u16,
    pub seed: u8,
}

#[derive(Debug, Clone, Serialize, Deserialize, Hash, PartialEq, Eq)]
pub enum Op {
    Insert { k: K, v: V },
    InsertUnique { k: K, v: V },
    /// `insert_append` with a key derived from the current maximum (style%3: 0 increment as
    /// a big-endian number, 1 append a byte, 2 next id of the shape if it is greater)
    Append { style: u8, v: V },
    /// `count` inserts of ids n0, n0+step, ... (api%3: 0 insert, 1 insert_if_not_exists,
    /// 2 insert_append when the key exceeds the maximum, insert otherwise)
    InsertRun { n0: u32, count: u16, down: bool, api: u8, v: V },
    /// mode%4: 0 same length, 1 shorter, 2 longer, 3 the given length
    Update { k: K, mode: u8, amount: u16, seed: u8 },
    Delete { k: K },
    /// deletes `count` consecutive stored keys starting at `Old{n}`
    DeleteRun { n: u32, count: u16 },
    Get { k: K },
    ScanFwd,
    ScanRev,
    Seek { k: K },
    /// forget the persisted rightmost-leaf hint
    DropHint,
}

#[derive(Debug, Clone, Serialize, Deserialize, Hash, PartialEq, Eq)]
pub struct Case {
    /// key shape: 0 8-byte big-endian ints, 1 random 1-64 bytes, 2 long common prefix,
    /// 3 500-2000 bytes differing at the head, 4 500-2000 bytes differing at the tail, 5 mixed
    /// per id, 6 bands of 64 ids alternating between 500-2000-byte keys and 5-byte keys
    pub shape: u8,
    /// carry the rightmost-leaf hint from one instantiation of the tree to the next
    pub hint: bool,
    /// executed-step budget (a run of k inserts counts k)
    pub max_steps: u32,
    pub ops: Vec<Op>,
}

// ---------------------------------------------------------------------------------------
// Key / value materialisation (pure functions of the case)
// ---------------------------------------------------------------------------------------

fn mix(n: u64) -> u64 {
    vcore::splitmix(n ^ 0x5bd1_e995_9e37_79b9)
}

fn int8_key(n: u32) -> Vec<u8> {
    (n as u64).to_be_bytes().to_vec()
}

fn rand_key(n: u32) -> Vec<u8> {
    let h = mix(n as u64);
    let len = if h % 4 == 0 { 1 + ((h >> 8) % 3) as usize } else { 4 + ((h >> 8) % 61) as usize };
    let small_alphabet = (h >> 20) % 2 == 0;
    let mut out = Vec::with_capacity(len);
    let mut s = h;
    while out.len() < len {
        s = vcore::splitmix(s);
        for b in s.to_le_bytes() {
            if out.len() == len {
                break;
            }
            out.push(if small_alphabet { [0x00u8, 0x01, 0x61, 0xFF][(b % 4) as usize] } else { b });
        }
    }
    out
}

fn prefix_key(n: u32) -> Vec<u8> {
    // 60-byte common prefix, 3 big-endian bytes of n/4, then n%4 zero bytes: ids 4m..4m+3
    // are proper prefixes of one another
    let mut k = Vec::with_capacity(70);
    while k.len() < 60 {
        k.extend_from_slice(b"tenant/0001/users/");
    }
    k.truncate(60);
    let m = n / 4;
    k.extend_from_slice(&m.to_be_bytes()[1..]);
    for _ in 0..(n % 4) {
        k.push(0);
    }
    k
}

fn big_len(n: u32) -> usize {
    500 + (mix(n as u64 ^ 0xB16) % 1501) as usize
}

fn big_head_key(n: u32) -> Vec<u8> {
    let len = big_len(n);
    let mut k = Vec::with_capacity(len);
    k.extend_from_slice(&n.to_be_bytes());
    let fill = (mix(n as u64) % 251) as u8;
    k.resize(len, fill);
    k
}

fn big_tail_key(n: u32) -> Vec<u8> {
    let len = big_len(n);
    let mut k = vec![b'x'; len - 4];
    k.extend_from_slice(&(n & 0x00FF_FFFF).to_be_bytes());
    k
}

fn medium_key(n: u32) -> Vec<u8> {
    let len = 100 + (mix(n as u64 ^ 0x3ED) % 300) as usize;
    let mut k = Vec::with_capacity(len);
    k.push(b'm');
    k.extend_from_slice(&n.to_be_bytes());
    k.resize(len, b'-');
    k
}

pub fn make_key(shape: u8, n: u32) -> Vec<u8> {
    match shape {
        0 => int8_key(n),
        1 => rand_key(n),
        2 => prefix_key(n),
        3 => big_head_key(n),
        4 => big_tail_key(n),
        6 => {
            // bands of 64 ids: 500-2000-byte keys (sort first) alternate with 5-byte keys
            if (n / 64) % 2 == 0 {
                big_head_key(n)
            } else {
                let mut k = vec![0xF0u8];
                k.extend_from_slice(&n.to_be_bytes());
                k
            }
        }
        _ => match mix(n as u64 ^ 0x7777) % 5 {
            0 => int8_key(n),
            1 => rand_key(n),
            2 => prefix_key(n),
            3 => big_head_key(n),
            _ => medium_key(n),
        },
    }
}

pub fn make_value(len: usize, seed: u8) -> Vec<u8> {
    (0..len).map(|i| seed.wrapping_add((i as u8).wrapping_mul(31)).wrapping_add((i >> 8) as u8)).collect()
}

/// largest value length such that the cell stays inside the sound domain
fn max_value_len(key_len: usize) -> usize {
    MAX_CELL.saturating_sub(key_len + 3)
}

/// a key strictly greater than `max` (style 0: increment as a big-endian number, dropping
/// trailing 0xFF bytes; style 1: append a byte)
fn successor_key(max: &[u8], style: u8) -> Vec<u8> {
    let mut k = max.to_vec();
    if style % 3 == 1 || k.iter().all(|b| *b == 0xFF) {
        if k.len() < MAX_KEY {
            k.push(style);
            return k;
        }
    }
    while let Some(&l) = k.last() {
        if l == 0xFF {
            k.pop();
        } else {
            break;
        }
    }
    match k.last_mut() {
        Some(l) => *l += 1,
        None => {
            // every byte was 0xFF and the key is at its maximum length: extend anyway
            k = max.to_vec();
            k.push(0);
        }
    }
    k
}

// ---------------------------------------------------------------------------------------
// In-memory Storage
// ---------------------------------------------------------------------------------------

pub struct MemStorage {
    pages: Vec<Box<[u8]>>,
    pub grows: u32,
}

impl MemStorage {
    pub fn new(pages: u32) -> Self {
        let mut s = MemStorage { pages: Vec::new(), grows: 0 };
        for _ in 0..pages {
            s.pages.push(vec![0u8; PAGE_SIZE].into_boxed_slice());
        }
        s
    }
    pub fn raw(&self, n: u32) -> Option<&[u8]> {
        self.pages.get(n as usize).map(|p| &p[..])
    }
}

impl Storage for MemStorage {
    fn page(&self, page_no: u32) -> eyre::Result<&[u8]> {
        self.pages
            .get(page_no as usize)
            .map(|p| &p[..])
            .ok_or_else(|| eyre::eyre!("page {} out of bounds (page_count={})", page_no, self.pages.len()))
    }
    fn page_mut(&mut self, page_no: u32) -> eyre::Result<&mut [u8]> {
        let n = self.pages.len();
        self.pages
            .get_mut(page_no as usize)
            .map(|p| &mut p[..])
            .ok_or_else(|| eyre::eyre!("page {} out of bounds (page_count={})", page_no, n))
    }
    fn grow(&mut self, new_page_count: u32) -> eyre::Result<()> {
        while (self.pages.len() as u32) < new_page_count {
            self.pages.push(vec![0u8; PAGE_SIZE].into_boxed_slice());
            self.grows += 1;
        }
        Ok(())
    }
    fn page_count(&self) -> u32 {
        self.pages.len() as u32
    }
    fn sync(&self) -> eyre::Result<()> {
        Ok(())
    }
}

// ---------------------------------------------------------------------------------------
// Structural walker (C29)
// ---------------------------------------------------------------------------------------

#[derive(Debug, Default, Clone)]
pub struct WalkInfo {
    pub leaves: Vec<u32>,
    pub interior_pages: usize,
    pub depth: usize,
    pub empty_leaves: usize,
    pub entries: usize,
}

#[derive(Debug, Clone)]
pub struct WalkFail {
    /// `<facet>|<kind>`
    pub kind: String,
    pub detail: String,
}

fn wf(kind: &str, detail: String) -> WalkFail {
    WalkFail { kind: kind.to_string(), detail }
}

fn own_prefix(key: &[u8]) -> [u8; 4] {
    let mut p = [0u8; 4];
    for (i, b) in key.iter().take(4).enumerate() {
        p[i] = *b;
    }
    p
}

/// own decoder of the length varint (format of src/encoding/varint.rs, 1-3 byte classes;
/// longer classes cannot describe a value inside a 16 KiB page)
fn own_varint(buf: &[u8]) -> Option<(usize, usize)> {
    let b0 = *buf.first()? as usize;
    if b0 <= 240 {
        Some((b0, 1))
    } else if b0 <= 248 {
        let b1 = *buf.get(1)? as usize;
        Some((240 + ((b0 - 241) << 8) + b1, 2))
    } else if b0 == 249 {
        let b1 = *buf.get(1)? as usize;
        let b2 = *buf.get(2)? as usize;
        Some((2288 + (b1 << 8) + b2, 3))
    } else {
        None
    }
}

fn short(k: &[u8]) -> String {
    if k.len() <= 24 {
        format!("{:02x?}", k)
    } else {
        format!("{:02x?}..(len {})..{:02x?}", &k[..8], k.len(), &k[k.len() - 8..])
    }
}

struct Walk<'a> {
    st: &'a MemStorage,
    visited: BTreeSet<u32>,
    leaf_depth: Option<usize>,
    info: WalkInfo,
}

fn check_extents(mut ext: Vec<(usize, usize, usize)>, page_no: u32, what: &str) -> Result<(), WalkFail> {
    ext.sort();
    for w in ext.windows(2) {
        if w[0].1 > w[1].0 {
            return Err(wf(
                &format!("{}|cells_overlap", what),
                format!(
                    "page {}: cell of slot {} [{}, {}) overlaps cell of slot {} [{}, {})",
                    page_no, w[0].2, w[0].0, w[0].1, w[1].2, w[1].0, w[1].1
                ),
            ));
        }
    }
    Ok(())
}

impl<'a> Walk<'a> {
    fn visit(&mut self, page_no: u32, lower: Option<&'a [u8]>, upper: Option<&'a [u8]>, depth: usize) -> Result<(), WalkFail> {
        if depth > 40 {
            return Err(wf("tree|too_deep", format!("depth {} reached at page {}", depth, page_no)));
        }
        let Some(page) = self.st.raw(page_no) else {
            return Err(wf("tree|child_page_out_of_range", format!("page {} referenced, page_count={}", page_no, self.st.page_count())));
        };
        if !self.visited.insert(page_no) {
            return Err(wf("tree|page_reachable_twice", format!("page {} is reachable through more than one parent slot", page_no)));
        }
        let hdr = match PageHeader::from_bytes(page) {
            Ok(h) => h,
            Err(e) => return Err(wf("page|header_unreadable", format!("page {}: {}", page_no, e))),
        };
        let n = hdr.cell_count() as usize;
        let fs = hdr.free_start() as usize;
        let fe = hdr.free_end() as usize;
        match hdr.page_type() {
            PageType::BTreeLeaf => {
                let slots_end = LEAF_CONTENT_START + n * SLOT_SIZE;
                if slots_end > fs {
                    return Err(wf("leaf|slot_array_beyond_free_start", format!("page {}: {} slots end at {} but free_start={}", page_no, n, slots_end, fs)));
                }
                if fs > fe || fe > PAGE_SIZE {
                    return Err(wf("leaf|free_range_invalid", format!("page {}: free_start={} free_end={}", page_no, fs, fe)));
                }
                let leaf = match LeafNode::from_page(page) {
                    Ok(l) => l,
                    Err(e) => return Err(wf("leaf|from_page_error", format!("page {}: {}", page_no, e))),
                };
                let mut ext = Vec::with_capacity(n);
                let mut prev: Option<&'a [u8]> = None;
                for i in 0..n {
                    let slot = match leaf.slot_at(i) {
                        Ok(s) => *s,
                        Err(e) => return Err(wf("leaf|slot_unreadable", format!("page {} slot {}: {}", page_no, i, e))),
                    };
                    let off = slot.offset() as usize;
                    let kl = slot.key_len() as usize;
                    if off < fe {
                        return Err(wf("leaf|cell_below_free_end", format!("page {} slot {}: cell offset {} < free_end {}", page_no, i, off, fe)));
                    }
                    if off + kl > PAGE_SIZE {
                        return Err(wf("leaf|cell_beyond_page", format!("page {} slot {}: key [{}, {}) leaves the page", page_no, i, off, off + kl)));
                    }
                    let Some((vlen, vsz)) = own_varint(&page[off + kl..]) else {
                        return Err(wf("leaf|value_length_unreadable", format!("page {} slot {}: no length varint at {}", page_no, i, off + kl)));
                    };
                    let end = off + kl + vsz + vlen;
                    if end > PAGE_SIZE {
                        return Err(wf("leaf|cell_beyond_page", format!("page {} slot {}: cell [{}, {}) leaves the page", page_no, i, off, end)));
                    }
                    ext.push((off, end, i));
                    let key: &'a [u8] = &page[off..off + kl];
                    match (leaf.key_at(i), leaf.value_at(i)) {
                        (Ok(k), Ok(v)) if k == key && v == &page[off + kl + vsz..end] => {}
                        (k, v) => {
                            return Err(wf(
                                "leaf|accessor_disagrees_with_bytes",
                                format!("page {} slot {}: key_at ok={} value_at ok={} differ from the raw cell", page_no, i, k.is_ok(), v.is_ok()),
                            ))
                        }
                    }
                    if slot.prefix != own_prefix(key) {
                        return Err(wf("leaf|slot_prefix_mismatch", format!("page {} slot {}: prefix {:02x?} but key starts {}", page_no, i, slot.prefix, short(key))));
                    }
                    if let Some(p) = prev {
                        if p >= key {
                            return Err(wf("leaf|keys_not_increasing", format!("page {}: slot {} key {} >= slot {} key {}", page_no, i - 1, short(p), i, short(key))));
                        }
                    }
                    if let Some(lo) = lower {
                        if key < lo {
                            return Err(wf("tree|key_below_separator", format!("leaf page {} slot {}: key {} < lower separator {}", page_no, i, short(key), short(lo))));
                        }
                    }
                    if let Some(hi) = upper {
                        if key >= hi {
                            return Err(wf("tree|key_not_below_separator", format!("leaf page {} slot {}: key {} >= upper separator {}", page_no, i, short(key), short(hi))));
                        }
                    }
                    prev = Some(key);
                }
                check_extents(ext, page_no, "leaf")?;
                match self.leaf_depth {
                    None => self.leaf_depth = Some(depth),
                    Some(d) if d != depth => {
                        return Err(wf("tree|leaf_depth_differs", format!("leaf page {} at depth {} but an earlier leaf is at depth {}", page_no, depth, d)));
                    }
                    _ => {}
                }
                if n == 0 {
                    self.info.empty_leaves += 1;
                }
                self.info.entries += n;
                self.info.leaves.push(page_no);
                Ok(())
            }
            PageType::BTreeInterior => {
                let slots_end = INTERIOR_CONTENT_START + n * INTERIOR_SLOT_SIZE;
                if slots_end > fs {
                    return Err(wf("interior|slot_array_beyond_free_start", format!("page {}: {} slots end at {} but free_start={}", page_no, n, slots_end, fs)));
                }
                if fs > fe || fe > PAGE_SIZE {
                    return Err(wf("interior|free_range_invalid", format!("page {}: free_start={} free_end={}", page_no, fs, fe)));
                }
                let node = match InteriorNode::from_page(page) {
                    Ok(l) => l,
                    Err(e) => return Err(wf("interior|from_page_error", format!("page {}: {}", page_no, e))),
                };
                self.info.interior_pages += 1;
                let mut ext = Vec::with_capacity(n);
                let mut seps: Vec<&'a [u8]> = Vec::with_capacity(n);
                let mut children: Vec<u32> = Vec::with_capacity(n + 1);
                for i in 0..n {
                    let slot = match node.slot_at(i) {
                        Ok(s) => *s,
                        Err(e) => return Err(wf("interior|slot_unreadable", format!("page {} slot {}: {}", page_no, i, e))),
                    };
                    let off = slot.offset() as usize;
                    let kl = slot.key_len() as usize;
                    if off < fe {
                        return Err(wf("interior|cell_below_free_end", format!("page {} slot {}: cell offset {} < free_end {}", page_no, i, off, fe)));
                    }
                    if off + kl > PAGE_SIZE {
                        return Err(wf("interior|cell_beyond_page", format!("page {} slot {}: separator [{}, {}) leaves the page", page_no, i, off, off + kl)));
                    }
                    ext.push((off, off + kl, i));
                    let key: &'a [u8] = &page[off..off + kl];
                    match node.key_at(i) {
                        Ok(k) if k == key => {}
                        _ => return Err(wf("interior|accessor_disagrees_with_bytes", format!("page {} slot {}", page_no, i))),
                    }
                    if slot.prefix != own_prefix(key) {
                        return Err(wf("interior|slot_prefix_mismatch", format!("page {} slot {}: prefix {:02x?} but separator starts {}", page_no, i, slot.prefix, short(key))));
                    }
                    if let Some(p) = seps.last() {
                        if *p >= key {
                            return Err(wf("interior|separators_not_increasing", format!("page {}: separator {} {} >= separator {} {}", page_no, i - 1, short(p), i, short(key))));
                        }
                    }
                    if lower.map_or(false, |lo| key < lo) || upper.map_or(false, |hi| key > hi) {
                        return Err(wf(
                            "tree|separator_outside_parent_range",
                            format!("interior page {} separator {} {} outside [{:?}, {:?}]", page_no, i, short(key), lower.map(short), upper.map(short)),
                        ));
                    }
                    seps.push(key);
                    children.push(slot.child_page());
                }
                check_extents(ext, page_no, "interior")?;
                children.push(node.right_child());
                for (i, child) in children.iter().enumerate() {
                    let lo = if i == 0 { lower } else { Some(seps[i - 1]) };
                    let hi = if i < n { Some(seps[i]) } else { upper };
                    self.visit(*child, lo, hi, depth + 1)?;
                }
                Ok(())
            }
            other => Err(wf("page|unexpected_type", format!("page {} reachable from the root has type {:?}", page_no, other))),
        }
    }
}

/// Walk the tree from `root`; `Ok` carries shape statistics.
pub fn walk(st: &MemStorage, root: u32) -> Result<WalkInfo, WalkFail> {
    let mut w = Walk { st, visited: BTreeSet::new(), leaf_depth: None, info: WalkInfo::default() };
    w.visit(root, None, None, 1)?;
    w.info.depth = w.leaf_depth.unwrap_or(0);
    // leaf chain: starting at the first in-order leaf, next_leaf must enumerate the in-order
    // leaves exactly once and end with 0
    let leaves = w.info.leaves.clone();
    for (i, pno) in leaves.iter().enumerate() {
        let page = st.raw(*pno).expect("visited page exists");
        let next = PageHeader::from_bytes(page).map(|h| h.next_leaf()).unwrap_or(u32::MAX);
        let expect = leaves.get(i + 1).copied().unwrap_or(0);
        if next != expect {
            return Err(wf(
                "chain|next_leaf_mismatch",
                format!("leaf {} (in-order position {} of {}) has next_leaf={} but the next in-order leaf is {}", pno, i, leaves.len(), next, expect),
            ));
        }
    }
    Ok(w.info)
}

// ---------------------------------------------------------------------------------------
// Engine
// ---------------------------------------------------------------------------------------

#[derive(Debug, Default, Clone)]
pub struct Stats {
    pub steps: u32,
    pub inserts_ok: u32,
    pub dup_inserts: u32,
    pub appends: u32,
    pub updates_ok: u32,
    pub updates_declined: u32,
    pub update_same: u32,
    pub update_shorter: u32,
    pub update_longer: u32,
    pub deletes_ok: u32,
    pub deletes_absent: u32,
    pub gets: u32,
    pub scans: u32,
    pub seeks: u32,
    pub root_changes: u32,
    pub max_entries: usize,
    pub emptied_model: bool,
}

#[derive(Debug, Clone)]
pub struct Mismatch {
    /// `<op>|<kind>`
    pub kind: String,
    pub detail: String,
}

fn mm(kind: &str, detail: String) -> Mismatch {
    Mismatch { kind: kind.to_string(), detail }
}

pub enum Step {
    Insert(Vec<u8>, Vec<u8>),
    InsertUnique(Vec<u8>, Vec<u8>),
    Append(Vec<u8>, Vec<u8>),
    Update(Vec<u8>, Vec<u8>),
    Delete(Vec<u8>),
    Get(Vec<u8>),
    ScanFwd,
    ScanRev,
    Seek(Vec<u8>),
}

impl Step {
    pub fn mutates(&self) -> bool {
        !matches!(self, Step::Get(_) | Step::ScanFwd | Step::ScanRev | Step::Seek(_))
    }
    pub fn name(&self) -> &'static str {
        match self {
            Step::Insert(..) => "insert",
            Step::InsertUnique(..) => "insert_if_not_exists",
            Step::Append(..) => "insert_append",
            Step::Update(..) => "update",
            Step::Delete(..) => "delete",
            Step::Get(..) => "get",
            Step::ScanFwd => "scan_fwd",
            Step::ScanRev => "scan_rev",
            Step::Seek(..) => "seek",
        }
    }
}

pub struct Engine {
    pub st: MemStorage,
    pub root: u32,
    pub initial_root: u32,
    pub hint: Option<u32>,
    pub carry_hint: bool,
    pub model: BTreeMap<Vec<u8>, Vec<u8>>,
    pub stats: Stats,
}

type Entries = Vec<(Vec<u8>, Vec<u8>)>;

fn compare_scan<'m>(what: &str, got: &Entries, cursor_err: Option<String>, expected: impl Iterator<Item = (&'m Vec<u8>, &'m Vec<u8>)>, model: &BTreeMap<Vec<u8>, Vec<u8>>) -> Result<(), Mismatch> {
    let exp: Vec<(&Vec<u8>, &Vec<u8>)> = expected.collect();
    let mut i = 0;
    while i < got.len() && i < exp.len() {
        let (gk, gv) = &got[i];
        let (ek, ev) = exp[i];
        if gk != ek {
            let kind = if !model.contains_key(gk) {
                "invented_key"
            } else if got[..i].iter().any(|(k, _)| k == gk) {
                "key_repeated"
            } else {
                "entries_skipped_or_out_of_order"
            };
            return Err(mm(
                &format!("{}|{}", what, kind),
                format!("position {}: expected key {} got key {} (expected {} entries, cursor yielded {})", i, short(ek), short(gk), exp.len(), got.len()),
            ));
        }
        if gv != ev {
            return Err(mm(&format!("{}|wrong_value", what), format!("position {} key {}: expected value len {} got len {}", i, short(ek), ev.len(), gv.len())));
        }
        i += 1;
    }
    if let Some(e) = cursor_err {
        return Err(mm(&format!("{}|cursor_error", what), format!("after {} of {} expected entries: {}", got.len(), exp.len(), e)));
    }
    if got.len() < exp.len() {
        return Err(mm(
            &format!("{}|stops_early", what),
            format!("cursor yielded {} entries, expected {}; first missing key {}", got.len(), exp.len(), short(exp[got.len()].0)),
        ));
    }
    if got.len() > exp.len() {
        return Err(mm(&format!("{}|extra_entries", what), format!("cursor yielded more than the {} expected entries; extra key {}", exp.len(), short(&got[exp.len()].0))));
    }
    Ok(())
}

impl Engine {
    pub fn new(carry_hint: bool) -> Result<Engine, Mismatch> {
        // page 0 of a table/index file holds the file header; the first tree root is page 1
        let mut st = MemStorage::new(2);
        let root = 1;
        if let Err(e) = BTree::create(&mut st, root) {
            return Err(mm("create|error", e.to_string()));
        }
        Ok(Engine { st, root, initial_root: root, hint: None, carry_hint, model: BTreeMap::new(), stats: Stats::default() })
    }

    pub fn split_happened(&self) -> bool {
        // the tree starts as one leaf, so the first split is a root split
        self.root != self.initial_root
    }

    fn with_tree<R>(&mut self, f: impl FnOnce(&mut BTree<'_, MemStorage>) -> R) -> Result<R, Mismatch> {
        // without a stored hint the batch insert path supplies the root page as the hint
        // (src/database/batch.rs: `if hint > 0 { Some(hint) } else { Some(root) }`)
        let hint = if self.carry_hint { self.hint.or(Some(self.root)) } else { None };
        let mut bt = match BTree::with_rightmost_hint(&mut self.st, self.root, hint) {
            Ok(b) => b,
            Err(e) => return Err(mm("open|error", e.to_string())),
        };
        let r = f(&mut bt);
        let new_root = bt.root_page();
        let new_hint = bt.rightmost_hint();
        if new_root != self.root {
            self.stats.root_changes += 1;
        }
        self.root = new_root;
        self.hint = new_hint;
        Ok(r)
    }

    fn scan(&mut self, start: Option<&[u8]>, reverse: bool) -> Result<(Entries, Option<String>), Mismatch> {
        let limit = self.model.len() + 2;
        let root = self.root;
        let bt = match BTree::new(&mut self.st, root) {
            Ok(b) => b,
            Err(e) => return Err(mm("open|error", e.to_string())),
        };
        let mut out: Entries = Vec::new();
        let cur = if reverse {
            bt.cursor_last()
        } else {
            match start {
                Some(k) => bt.cursor_seek(k),
                None => bt.cursor_first(),
            }
        };
        let mut cur = match cur {
            Ok(c) => c,
            Err(e) => return Ok((out, Some(format!("positioning failed: {}", e)))),
        };
        while cur.valid() {
            let k = match cur.key() {
                Ok(k) => k.to_vec(),
                Err(e) => return Ok((out, Some(format!("key() failed: {}", e)))),
            };
            let v = match cur.value() {
                Ok(v) => v.to_vec(),
                Err(e) => return Ok((out, Some(format!("value() failed: {}", e)))),
            };
            out.push((k, v));
            if out.len() > limit {
                break;
            }
            let moved = if reverse { cur.prev() } else { cur.advance() };
            match moved {
                Ok(true) => {}
                Ok(false) => break,
                Err(e) => return Ok((out, Some(format!("{} failed: {}", if reverse { "prev()" } else { "advance()" }, e)))),
            }
        }
        Ok((out, None))
    }

    fn verify_key(&mut self, what: &str, key: &[u8]) -> Result<(), Mismatch> {
        let expect = self.model.get(key).cloned();
        let root = self.root;
        let bt = BTree::new(&mut self.st, root).map_err(|e| mm("open|error", e.to_string()))?;
        match (bt.get(key), expect) {
            (Ok(Some(v)), Some(e)) if v == e.as_slice() => Ok(()),
            (Ok(None), None) => Ok(()),
            (Ok(Some(v)), Some(e)) => Err(mm(&format!("{}|then_get_wrong_value", what), format!("key {}: stored value len {} but get returns len {}", short(key), e.len(), v.len()))),
            (Ok(Some(_)), None) => Err(mm(&format!("{}|then_get_finds_absent_key", what), format!("key {} is not stored but get finds it", short(key)))),
            (Ok(None), Some(_)) => Err(mm(&format!("{}|then_get_misses_key", what), format!("key {} is stored but get returns None", short(key)))),
            (Err(e), _) => Err(mm(&format!("{}|then_get_error", what), format!("key {}: {}", short(key), e))),
        }
    }

    /// Apply one step to the tree and to the model; `Err` = the tree answered differently
    /// from the ordered map.
    pub fn apply(&mut self, step: &Step) -> Result<(), Mismatch> {
        self.stats.steps += 1;
        match step {
            Step::Insert(k, v) => {
                let present = self.model.contains_key(k);
                let r = self.with_tree(|bt| bt.insert(k, v).map_err(|e| e.to_string()))?;
                match (r, present) {
                    (Ok(()), false) => {
                        self.model.insert(k.clone(), v.clone());
                        self.stats.inserts_ok += 1;
                    }
                    (Err(_), true) => {
                        self.stats.dup_inserts += 1;
                    }
                    (Ok(()), true) => return Err(mm("insert|duplicate_accepted", format!("insert of the stored key {} returned Ok", short(k)))),
                    (Err(e), false) => return Err(mm("insert|error_on_absent_key", format!("key {} (len {}) value len {}: {}", short(k), k.len(), v.len(), e))),
                }
                self.verify_key("insert", k)?;
            }
            Step::InsertUnique(k, v) => {
                let present = self.model.get(k).cloned();
                let r = self.with_tree(|bt| match bt.insert_if_not_exists(k, v) {
                    Ok(InsertUniqueResult::Inserted) => Ok(None),
                    Ok(InsertUniqueResult::Duplicate(h)) => {
                        let hk = bt.get_key(&h).map(|x| x.to_vec()).map_err(|e| e.to_string());
                        let hv = bt.get_value(&h).map(|x| x.to_vec()).map_err(|e| e.to_string());
                        Ok(Some((hk, hv)))
                    }
                    Err(e) => Err(e.to_string()),
                })?;
                match (r, present) {
                    (Ok(None), None) => {
                        self.model.insert(k.clone(), v.clone());
                        self.stats.inserts_ok += 1;
                    }
                    (Ok(Some((hk, hv))), Some(old)) => {
                        self.stats.dup_inserts += 1;
                        if hk.as_ref().ok() != Some(k) || hv.as_ref().ok() != Some(&old) {
                            return Err(mm("insert_if_not_exists|duplicate_handle_wrong", format!("key {}: handle does not name the stored entry", short(k))));
                        }
                    }
                    (Ok(None), Some(_)) => return Err(mm("insert_if_not_exists|duplicate_accepted", format!("stored key {} reported Inserted", short(k)))),
                    (Ok(Some(_)), None) => return Err(mm("insert_if_not_exists|absent_reported_duplicate", format!("absent key {} reported Duplicate", short(k)))),
                    (Err(e), p) => return Err(mm("insert_if_not_exists|error", format!("key {} (stored: {}) value len {}: {}", short(k), p.is_some(), v.len(), e))),
                }
                self.verify_key("insert_if_not_exists", k)?;
            }
            Step::Append(k, v) => {
                debug_assert!(self.model.keys().next_back().map_or(true, |m| m < k));
                let r = self.with_tree(|bt| bt.insert_append(k, v).map_err(|e| e.to_string()))?;
                match r {
                    Ok(()) => {
                        self.model.insert(k.clone(), v.clone());
                        self.stats.inserts_ok += 1;
                        self.stats.appends += 1;
                    }
                    Err(e) => return Err(mm("insert_append|error", format!("key {} (len {}) value len {}: {}", short(k), k.len(), v.len(), e))),
                }
                self.verify_key("insert_append", k)?;
            }
            Step::Update(k, v) => {
                let old = self.model.get(k).cloned();
                let r = self.with_tree(|bt| bt.update(k, v).map_err(|e| e.to_string()))?;
                match (r, &old) {
                    (Ok(true), Some(_)) => {
                        self.model.insert(k.clone(), v.clone());
                        self.stats.updates_ok += 1;
                    }
                    (Ok(false), None) => {}
                    (Ok(false), Some(o)) if v.len() > o.len() => {
                        // "does not fit in place": the database layer then deletes and
                        // re-inserts (src/database/dml/update.rs); the entry must be untouched
                        self.stats.updates_declined += 1;
                        self.verify_key("update_declined", k)?;
                        let r = self.with_tree(|bt| bt.delete(k).map_err(|e| e.to_string()))?;
                        if r != Ok(true) {
                            return Err(mm("update|fallback_delete_failed", format!("key {}: delete returned {:?}", short(k), r)));
                        }
                        self.model.remove(k);
                        let r = self.with_tree(|bt| bt.insert(k, v).map_err(|e| e.to_string()))?;
                        if let Err(e) = r {
                            return Err(mm("update|fallback_insert_failed", format!("key {} value len {}: {}", short(k), v.len(), e)));
                        }
                        self.model.insert(k.clone(), v.clone());
                    }
                    (Ok(false), Some(o)) => {
                        return Err(mm("update|stored_key_reported_absent", format!("key {} old len {} new len {}: update returned false", short(k), o.len(), v.len())))
                    }
                    (Ok(true), None) => return Err(mm("update|absent_key_reported_updated", format!("key {}", short(k)))),
                    (Err(e), Some(o)) => {
                        let kind = if v.len() > o.len() { "error_growing" } else { "error" };
                        return Err(mm(&format!("update|{}", kind), format!("key {} old len {} new len {}: {}", short(k), o.len(), v.len(), e)));
                    }
                    (Err(e), None) => return Err(mm("update|error_on_absent_key", format!("key {}: {}", short(k), e))),
                }
                if let Some(o) = &old {
                    match v.len().cmp(&o.len()) {
                        std::cmp::Ordering::Equal => self.stats.update_same += 1,
                        std::cmp::Ordering::Less => self.stats.update_shorter += 1,
                        std::cmp::Ordering::Greater => self.stats.update_longer += 1,
                    }
                }
                self.verify_key("update", k)?;
            }
            Step::Delete(k) => {
                let present = self.model.contains_key(k);
                let r = self.with_tree(|bt| bt.delete(k).map_err(|e| e.to_string()))?;
                match (r, present) {
                    (Ok(true), true) => {
                        self.model.remove(k);
                        self.stats.deletes_ok += 1;
                        if self.model.is_empty() {
                            self.stats.emptied_model = true;
                        }
                    }
                    (Ok(false), false) => self.stats.deletes_absent += 1,
                    (Ok(true), false) => return Err(mm("delete|absent_key_reported_deleted", format!("key {}", short(k)))),
                    (Ok(false), true) => return Err(mm("delete|stored_key_not_found", format!("key {}", short(k)))),
                    (Err(e), _) => return Err(mm("delete|error", format!("key {}: {}", short(k), e))),
                }
                self.verify_key("delete", k)?;
            }
            Step::Get(k) => {
                self.stats.gets += 1;
                let expect = self.model.get(k).cloned();
                let root = self.root;
                let bt = BTree::new(&mut self.st, root).map_err(|e| mm("open|error", e.to_string()))?;
                let h = bt.search(k);
                match (h, &expect) {
                    (Ok(Some(h)), Some(e)) => {
                        let kk = bt.get_key(&h).map(|x| x.to_vec());
                        let vv = bt.get_value(&h).map(|x| x.to_vec());
                        if kk.as_ref().ok() != Some(k) || vv.as_ref().ok() != Some(e) {
                            return Err(mm("search|handle_wrong_entry", format!("key {}", short(k))));
                        }
                    }
                    (Ok(None), None) => {}
                    (Ok(None), Some(_)) => return Err(mm("search|stored_key_not_found", format!("key {}", short(k)))),
                    (Ok(Some(_)), None) => return Err(mm("search|absent_key_found", format!("key {}", short(k)))),
                    (Err(e), _) => return Err(mm("search|error", format!("key {}: {}", short(k), e))),
                }
                drop(bt);
                self.verify_key("get", k)?;
            }
            Step::ScanFwd => {
                self.stats.scans += 1;
                let (got, err) = self.scan(None, false)?;
                compare_scan("scan_fwd", &got, err, self.model.iter(), &self.model)?;
            }
            Step::ScanRev => {
                self.stats.scans += 1;
                let (got, err) = self.scan(None, true)?;
                compare_scan("scan_rev", &got, err, self.model.iter().rev(), &self.model)?;
            }
            Step::Seek(k) => {
                self.stats.seeks += 1;
                let (got, err) = self.scan(Some(k), false)?;
                let what = if self.model.contains_key(k) { "seek_present" } else { "seek_absent" };
                compare_scan(what, &got, err, self.model.range::<[u8], _>((Bound::Included(k.as_slice()), Bound::Unbounded)), &self.model)?;
            }
        }
        self.stats.max_entries = self.stats.max_entries.max(self.model.len());
        Ok(())
    }

    /// Everything C28 observes, against the final state: both full scans, a lookup of every
    /// stored key and seeks from a sample of stored keys and their absent neighbours.
    pub fn final_checks(&mut self) -> Result<(), Mismatch> {
        self.apply(&Step::ScanFwd)?;
        self.apply(&Step::ScanRev)?;
        let keys: Vec<Vec<u8>> = self.model.keys().cloned().collect();
        for k in &keys {
            self.verify_key("final", k)?;
        }
        let stride = (keys.len() / 24).max(1);
        for k in keys.iter().step_by(stride) {
            self.apply(&Step::Seek(k.clone()))?;
            let mut after = k.clone();
            after.push(0);
            self.apply(&Step::Seek(after))?;
            if k.len() > 1 {
                self.apply(&Step::Seek(k[..k.len() - 1].to_vec()))?;
            }
        }
        if let Some(last) = keys.last() {
            self.apply(&Step::Seek(successor_key(last, 0)))?;
        }
        Ok(())
    }

    /// Same observations through `BTreeReader` over a memory-mapped copy of the pages.
    pub fn reader_checks(&self, dir: &vcore::tmp::TempDir) -> Result<(), Mismatch> {
        let path = dir.join("tree.tbd");
        let mut ms = MmapStorage::create(&path, self.st.page_count()).map_err(|e| mm("reader|harness_mmap_create", e.to_string()))?;
        for p in 0..self.st.page_count() {
            let dst = ms.page_mut(p).map_err(|e| mm("reader|harness_mmap_page", e.to_string()))?;
            dst.copy_from_slice(self.st.raw(p).expect("page"));
        }
        let rd = BTreeReader::new(&ms, self.root).map_err(|e| mm("reader|open_error", e.to_string()))?;
        for (k, v) in &self.model {
            match rd.get(k) {
                Ok(Some(g)) if g == v.as_slice() => {}
                Ok(other) => return Err(mm("reader_get|wrong_answer", format!("key {}: stored len {} got {:?}", short(k), v.len(), other.map(|x| x.len())))),
                Err(e) => return Err(mm("reader_get|error", format!("key {}: {}", short(k), e))),
            }
        }
        let collect = |mut cur: turdb::btree::Cursor<'_, MmapStorage>, reverse: bool, limit: usize| -> (Entries, Option<String>) {
            let mut out: Entries = Vec::new();
            while cur.valid() {
                match (cur.key(), cur.value()) {
                    (Ok(k), Ok(v)) => out.push((k.to_vec(), v.to_vec())),
                    (k, v) => return (out, Some(format!("key ok={} value ok={}", k.is_ok(), v.is_ok()))),
                }
                if out.len() > limit {
                    break;
                }
                match if reverse { cur.prev() } else { cur.advance() } {
                    Ok(true) => {}
                    Ok(false) => break,
                    Err(e) => return (out, Some(e.to_string())),
                }
            }
            (out, None)
        };
        let limit = self.model.len() + 2;
        match rd.cursor_first() {
            Ok(c) => {
                let (got, err) = collect(c, false, limit);
                compare_scan("reader_scan_fwd", &got, err, self.model.iter(), &self.model)?;
            }
            Err(e) => return Err(mm("reader_scan_fwd|cursor_error", e.to_string())),
        }
        match rd.cursor_last() {
            Ok(c) => {
                let (got, err) = collect(c, true, limit);
                compare_scan("reader_scan_rev", &got, err, self.model.iter().rev(), &self.model)?;
            }
            Err(e) => return Err(mm("reader_scan_rev|cursor_error", e.to_string())),
        }
        let keys: Vec<&Vec<u8>> = self.model.keys().collect();
        let stride = (keys.len() / 16).max(1);
        for k in keys.iter().step_by(stride) {
            for probe in [k.to_vec(), { let mut a = k.to_vec(); a.push(0); a }] {
                match rd.cursor_seek(&probe) {
                    Ok(c) => {
                        let (got, err) = collect(c, false, limit);
                        let what = if self.model.contains_key(&probe) { "reader_seek_present" } else { "reader_seek_absent" };
                        compare_scan(what, &got, err, self.model.range::<[u8], _>((Bound::Included(probe.as_slice()), Bound::Unbounded)), &self.model)?;
                    }
                    Err(e) => return Err(mm("reader_seek|cursor_error", e.to_string())),
                }
            }
        }
        Ok(())
    }

    // ---- case interpretation ------------------------------------------------------------

    fn old_key(&self, shape: u8, n: u32) -> Option<Vec<u8>> {
        let probe = make_key(shape, n);
        self.model
            .range::<[u8], _>((Bound::Included(probe.as_slice()), Bound::Unbounded))
            .next()
            .or_else(|| self.model.iter().next())
            .map(|(k, _)| k.clone())
    }

    fn resolve(&self, shape: u8, k: &K) -> Vec<u8> {
        match k {
            K::New { n } => make_key(shape, *n),
            K::Old { n } => self.old_key(shape, *n).unwrap_or_else(|| make_key(shape, *n)),
            K::Near { n, how } => {
                let base = self.old_key(shape, *n).unwrap_or_else(|| make_key(shape, *n));
                let mut k = base.clone();
                match how % 4 {
                    0 => k.push(0),
                    1 => {
                        if k.len() > 1 {
                            k.pop();
                        }
                    }
                    2 => {
                        let l = k.last_mut().expect("keys are non-empty");
                        if *l == 0xFF {
                            k.push(1);
                        } else {
                            *l += 1;
                        }
                    }
                    _ => {
                        let l = k.last_mut().expect("keys are non-empty");
                        if *l == 0 {
                            if k.len() > 1 {
                                k.pop();
                            }
                        } else {
                            *l -= 1;
                            k.push(0xFF);
                        }
                    }
                }
                if k.len() > MAX_KEY || k.is_empty() {
                    base
                } else {
                    k
                }
            }
        }
    }

    fn value_for(&self, key: &[u8], v: &V) -> Vec<u8> {
        make_value((v.len as usize).min(max_value_len(key.len())), v.seed)
    }

    /// Expand one case op into primitive steps (depends on the model state, never on the tree).
    pub fn expand(&self, shape: u8, op: &Op, out: &mut Vec<Step>) {
        match op {
            Op::Insert { k, v } => {
                let key = self.resolve(shape, k);
                let val = self.value_for(&key, v);
                out.push(Step::Insert(key, val));
            }
            Op::InsertUnique { k, v } => {
                let key = self.resolve(shape, k);
                let val = self.value_for(&key, v);
                out.push(Step::InsertUnique(key, val));
            }
            Op::Append { style, v } => {
                let key = match self.model.keys().next_back() {
                    None => make_key(shape, 0),
                    Some(max) => {
                        let mut cand = None;
                        if style % 3 == 2 {
                            // next id of the shape, when the shape is ordered by id
                            for d in 1..4u32 {
                                let c = make_key(shape, (self.model.len() as u32).wrapping_add(d * 7));
                                if c.as_slice() > max.as_slice() {
                                    cand = Some(c);
                                    break;
                                }
                            }
                        }
                        cand.unwrap_or_else(|| successor_key(max, *style))
                    }
                };
                let val = self.value_for(&key, v);
                out.push(Step::Append(key, val));
            }
            Op::InsertRun { .. } | Op::DeleteRun { .. } => unreachable!("runs are expanded step by step"),
            Op::Update { k, mode, amount, seed } => {
                let key = self.resolve(shape, k);
                let old_len = self.model.get(&key).map(|v| v.len()).unwrap_or(0);
                let cap = max_value_len(key.len());
                let new_len = match mode % 4 {
                    0 => old_len,
                    1 => old_len.saturating_sub(1 + (*amount as usize) % (old_len.max(1))),
                    2 => old_len + 1 + (*amount as usize) % 1200,
                    _ => *amount as usize % 3001,
                }
                .min(cap);
                out.push(Step::Update(key, make_value(new_len, *seed)));
            }
            Op::Delete { k } => out.push(Step::Delete(self.resolve(shape, k))),
            Op::Get { k } => out.push(Step::Get(self.resolve(shape, k))),
            Op::ScanFwd => out.push(Step::ScanFwd),
            Op::ScanRev => out.push(Step::ScanRev),
            Op::Seek { k } => out.push(Step::Seek(self.resolve(shape, k))),
            Op::DropHint => {}
        }
    }
}

#[derive(Clone, Copy, PartialEq, Eq)]
pub enum Mode {
    /// C28: compare every answer with the model
    Map,
    /// C29: walk the pages after every mutating step
    Pages,
}

pub struct RunCfg {
    pub mode: Mode,
    /// also run the BTreeReader observations over an mmap copy at the end (C28)
    pub reader: bool,
}

fn depth_class(d: usize) -> &'static str {
    match d {
        0 | 1 => "depth=1",
        2 => "depth=2",
        3 => "depth=3",
        _ => "depth>=4",
    }
}

/// Interpret `case`. In `Map` mode a mismatch with the model is the failure; in `Pages`
/// mode a structural violation is the failure and a mismatch with the model only ends the
/// case (C28 reports it; continuing on a diverged tree would make the op preconditions,
/// e.g. "append key exceeds every stored key", unsound).
pub fn run_case(prop: &str, case: &Case, cfg: &RunCfg) -> Outcome {
    let mut out = Outcome::ok();
    let mut eng = match Engine::new(case.hint) {
        Ok(e) => e,
        Err(m) => {
            out.set_fail(format!("{}|{}", prop, m.kind), m.detail);
            return out;
        }
    };
    let shape = case.shape;
    let budget = case.max_steps.max(1);
    let mut last_walk: Option<WalkInfo> = None;
    let mut max_depth = 1usize;
    let mut saw_empty_leaf = false;
    let mut saw_empty_nonroot_leaf = false;
    let mut diverged = false;
    let mut walks = 0u32;

    // one primitive step, then (Pages mode) the walker
    let mut do_step = |eng: &mut Engine, step: &Step, out: &mut Outcome| -> bool {
        let r = eng.apply(step);
        if cfg.mode == Mode::Pages && step.mutates() {
            walks += 1;
            match walk(&eng.st, eng.root) {
                Ok(info) => {
                    max_depth = max_depth.max(info.depth);
                    if info.empty_leaves > 0 {
                        saw_empty_leaf = true;
                        if info.leaves.len() > 1 {
                            saw_empty_nonroot_leaf = true;
                        }
                    }
                    last_walk = Some(info);
                }
                Err(f) => {
                    out.set_fail(
                        format!("{}|{}|after_{}", prop, f.kind, step.name()),
                        format!("after step {} ({}), op answered {}: {}", eng.stats.steps, step.name(), if r.is_ok() { "as the model" } else { "differently from the model" }, f.detail),
                    );
                    return false;
                }
            }
        }
        match r {
            Ok(()) => true,
            Err(m) => {
                if cfg.mode == Mode::Map {
                    out.set_fail(format!("{}|{}", prop, m.kind), format!("step {} ({}): {}", eng.stats.steps, step.name(), m.detail));
                } else {
                    diverged = true;
                }
                false
            }
        }
    };

    let mut steps: Vec<Step> = Vec::new();
    'ops: for op in &case.ops {
        if eng.stats.steps >= budget {
            break;
        }
        match op {
            Op::DropHint => {
                eng.hint = None;
            }
            Op::InsertRun { n0, count, down, api, v } => {
                for i in 0..*count as u32 {
                    if eng.stats.steps >= budget {
                        break 'ops;
                    }
                    let n = if *down { n0.wrapping_add(*count as u32).wrapping_sub(i + 1) } else { n0.wrapping_add(i) };
                    let key = make_key(shape, n);
                    let val = eng.value_for(&key, &V { len: v.len, seed: v.seed.wrapping_add(i as u8) });
                    let step = match api % 3 {
                        0 => Step::Insert(key, val),
                        1 => Step::InsertUnique(key, val),
                        _ => {
                            if eng.model.keys().next_back().map_or(true, |m| m.as_slice() < key.as_slice()) {
                                Step::Append(key, val)
                            } else {
                                Step::Insert(key, val)
                            }
                        }
                    };
                    if !do_step(&mut eng, &step, &mut out) {
                        break 'ops;
                    }
                }
            }
            Op::DeleteRun { n, count } => {
                let mut next = eng.old_key(shape, *n);
                for _ in 0..*count {
                    if eng.stats.steps >= budget {
                        break 'ops;
                    }
                    let Some(k) = next else { break };
                    next = eng.model.range::<[u8], _>((Bound::Excluded(k.as_slice()), Bound::Unbounded)).next().map(|(k, _)| k.clone());
                    if !do_step(&mut eng, &Step::Delete(k), &mut out) {
                        break 'ops;
                    }
                }
            }
            other => {
                steps.clear();
                eng.expand(shape, other, &mut steps);
                for s in &steps {
                    if !do_step(&mut eng, s, &mut out) {
                        break 'ops;
                    }
                }
            }
        }
    }

    let case_steps = eng.stats.steps;
    if out.failure.is_none() && !diverged && cfg.mode == Mode::Map {
        if let Err(m) = eng.final_checks() {
            out.set_fail(format!("{}|{}", prop, m.kind), format!("final checks: {}", m.detail));
        } else if cfg.reader {
            out.add_class("btreereader_over_mmap_checked");
            let dir = vcore::tmp::TempDir::new("c28");
            if let Err(m) = eng.reader_checks(&dir) {
                out.set_fail(format!("{}|{}", prop, m.kind), format!("BTreeReader over an mmap copy: {}", m.detail));
            }
        }
    }

    // classification
    let s = &eng.stats;
    let info = match cfg.mode {
        Mode::Pages => last_walk.clone(),
        Mode::Map => walk(&eng.st, eng.root).ok(),
    };
    if let Some(i) = &info {
        max_depth = max_depth.max(i.depth);
        if i.empty_leaves > 0 {
            saw_empty_leaf = true;
            if i.leaves.len() > 1 {
                saw_empty_nonroot_leaf = true;
            }
        }
    }
    out.add_class(format!("shape={}", shape));
    out.add_class(depth_class(max_depth));
    out.add_class(if case.hint { "hint_carried" } else { "hint_not_carried" });
    if eng.split_happened() {
        out.add_class("split");
    }
    if s.root_changes >= 2 {
        out.add_class("root_split>=2");
    }
    if s.deletes_ok > 0 {
        out.add_class("delete");
    }
    if saw_empty_leaf {
        out.add_class("empty_leaf_seen");
    }
    if saw_empty_nonroot_leaf {
        out.add_class("empty_nonroot_leaf_seen");
    }
    if s.emptied_model {
        out.add_class("tree_emptied");
    }
    if s.appends > 0 {
        out.add_class("append");
    }
    if s.dup_inserts > 0 {
        out.add_class("duplicate_insert");
    }
    if s.update_same > 0 {
        out.add_class("update_same");
    }
    if s.update_shorter > 0 {
        out.add_class("update_shorter");
    }
    if s.update_longer > 0 {
        out.add_class("update_longer");
    }
    if s.updates_declined > 0 {
        out.add_class("update_declined_then_delete_insert");
    }
    if diverged {
        out.add_class("ended_on_model_mismatch(C28's business)");
    }
    out.add_class(match case_steps {
        0..=49 => "steps<50",
        50..=199 => "steps=50..199",
        200..=400 => "steps=200..400",
        401..=2000 => "steps=401..2000",
        _ => "steps>2000",
    });
    if cfg.mode == Mode::Pages {
        out.add_class(match walks {
            0 => "walks=0",
            1..=99 => "walks<100",
            _ => "walks>=100",
        });
    }
    if eng.split_happened() && s.deletes_ok > 0 {
        out.nontrivial = Some(vcore::hash_of(case));
    }
    out
}

// ---------------------------------------------------------------------------------------
// Generator
// ---------------------------------------------------------------------------------------

/// case count of the tier, overridable with VERIF_CASES (reduced-patience runs of the
/// thorough tier)
pub fn case_count(default: u64) -> u64 {
    std::env::var("VERIF_CASES").ok().and_then(|s| s.trim().parse().ok()).unwrap_or(default)
}

#[derive(Clone, Copy, Debug)]
pub struct GenCfg {
    pub max_steps: u32,
    pub max_top_ops: usize,
}

fn v_strategy(profile: u8) -> BoxedStrategy<V> {
    let len: BoxedStrategy<u16> = match profile {
        0 => (0u16..17).boxed(),
        1 => (0u16..201).boxed(),
        2 => (100u16..901).boxed(),
        3 => (800u16..3001).boxed(),
        _ => prop_oneof![3 => 0u16..40, 3 => 100u16..600, 2 => 900u16..1100, 2 => 2000u16..3001, 1 => Just(0u16), 1 => Just(240u16), 1 => Just(241u16), 1 => Just(2287u16), 1 => Just(2288u16)].boxed(),
    };
    (len, any::<u8>()).prop_map(|(len, seed)| V { len, seed }).boxed()
}

fn k_strategy(domain: u32) -> BoxedStrategy<K> {
    prop_oneof![
        3 => (0..domain).prop_map(|n| K::New { n }),
        4 => (0..domain).prop_map(|n| K::Old { n }),
        2 => (0..domain, any::<u8>()).prop_map(|(n, how)| K::Near { n, how }),
    ]
    .boxed()
}

fn op_strategy(domain: u32, profile: u8, run_max: u16) -> BoxedStrategy<Op> {
    let k = k_strategy(domain);
    let knew = (0..domain).prop_map(|n| K::New { n });
    prop_oneof![
        5 => (0..domain, 1..=run_max, any::<bool>(), 0u8..3, v_strategy(profile)).prop_map(|(n0, count, down, api, v)| Op::InsertRun { n0, count, down, api, v }),
        4 => (prop_oneof![4 => knew.clone().boxed(), 1 => k.clone()], v_strategy(profile)).prop_map(|(k, v)| Op::Insert { k, v }),
        2 => (k.clone(), v_strategy(profile)).prop_map(|(k, v)| Op::InsertUnique { k, v }),
        2 => (0u8..3, v_strategy(profile)).prop_map(|(style, v)| Op::Append { style, v }),
        4 => (k.clone(), 0u8..4, any::<u16>(), any::<u8>()).prop_map(|(k, mode, amount, seed)| Op::Update { k, mode, amount, seed }),
        3 => k.clone().prop_map(|k| Op::Delete { k }),
        3 => (0..domain, 1..=run_max.saturating_mul(2)).prop_map(|(n, count)| Op::DeleteRun { n, count }),
        2 => k.clone().prop_map(|k| Op::Get { k }),
        1 => Just(Op::ScanFwd),
        1 => Just(Op::ScanRev),
        2 => k.clone().prop_map(|k| Op::Seek { k }),
        1 => Just(Op::DropHint),
    ]
    .boxed()
}

pub fn strategy(g: GenCfg) -> BoxedStrategy<Case> {
    let shape = prop_oneof![4 => Just(0u8), 2 => Just(1u8), 2 => Just(2u8), 3 => Just(3u8), 1 => Just(4u8), 3 => Just(5u8), 3 => Just(6u8)];
    let profile = prop_oneof![1 => Just(0u8), 2 => Just(1u8), 4 => Just(2u8), 3 => Just(3u8), 3 => Just(4u8)];
    let domain = prop_oneof![2 => Just(40u32), 3 => Just(150u32), 3 => Just(600u32), 1 => Just(5000u32), 1 => Just(100_000u32)];
    let max_steps = g.max_steps;
    let max_top = g.max_top_ops;
    (shape, profile, domain, any::<bool>(), 1..=max_top)
        .prop_flat_map(move |(shape, profile, domain, hint, n_ops)| {
            let run_max: u16 = if max_steps > 400 { 400 } else { 60 };
            let domain = if max_steps > 400 { domain * 8 } else { domain };
            let tail = proptest::collection::vec(op_strategy(domain, profile, run_max), 1..=n_ops);
            // bulk phases: a few long runs (each within one band of 64 ids for shape 6) before
            // the free-form tail, the way tables are loaded and indexes are built
            let bulk = proptest::collection::vec(
                (0..domain.min(1024) / 64 + 1, 0u32..8, 30u16..=60, any::<bool>(), 0u8..3, v_strategy(profile))
                    .prop_map(|(band, off, count, down, api, v)| Op::InsertRun { n0: band * 64 + off, count, down, api, v }),
                0..=6,
            );
            (any::<bool>(), bulk, tail).prop_map(move |(with_bulk, bulk, tail)| {
                let mut ops = if with_bulk { bulk } else { Vec::new() };
                ops.extend(tail);
                Case { shape, hint, max_steps, ops }
            })
        })
        .boxed()
}
