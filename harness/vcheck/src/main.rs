//! vcheck <Cnn> <quick|thorough> | vcheck <Cnn> --replay <file>

use vcore::Tier;

mod c26;
mod c27;
mod c30;

fn main() {
    let args: Vec<String> = std::env::args().collect();
    if args.len() < 3 {
        eprintln!("usage: vcheck <Cnn> <quick|thorough>|--replay <file>");
        std::process::exit(2);
    }
    let prop = args[1].as_str();
    let replay = if args[2] == "--replay" { args.get(3).cloned() } else { None };
    let tier = match args[2].as_str() {
        "thorough" => Tier::Thorough,
        _ => Tier::Quick,
    };
    let code = match prop {
        "C26" => c26::main(tier, replay.clone()),
        "C27" => c27::main(tier, replay.clone()),
        "C30" => c30::main(tier, replay.clone()),
        _ => {
            eprintln!("unknown property {}", prop);
            2
        }
    };
    std::process::exit(code);
}
