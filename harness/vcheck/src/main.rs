//! vcheck <Cnn> <quick|thorough> | vcheck <Cnn> --replay <file>

use vcore::Tier;

mod c31;
mod c32;
mod c33;
mod c03;
mod btree_engine;
mod c28;
mod c29;
mod c20;
mod c41;
mod c24;
mod c25;
mod c34;
mod c10;
mod c42;
mod c43;
mod c11;
mod c13;
mod c08;
mod crash;
mod crashchecks;
mod c22;
mod c23;
mod childsrv;
mod fuzzrun;
mod c38;
mod equery;
mod c14;
mod c15;
mod c16;
mod c17;
mod c18;
mod c19;
mod c05;
mod c26;
mod c27;
mod c30;
mod sqlprobe;
mod hist;
mod histchecks;
mod histrun;
mod refdb;
mod world;

fn main() {
    let args: Vec<String> = std::env::args().collect();
    if args.len() >= 3 && args[1] == "--crash-sql" {
        crash::print_sql(&args[2]);
        std::process::exit(0);
    }
    if args.len() >= 3 && args[1] == "--crash-child" {
        crash::child_main(&args[2]);
    }
    if args.len() >= 3 && args[1] == "--c38-child" {
        c38::child_main(&args[2]);
    }
    if args.len() >= 4 && args[1] == "--crash-observe" {
        crash::observe_main(&args[2], &args[3]);
    }
    if args.len() >= 2 && args[1] == "SQL" {
        std::process::exit(sqlprobe::main());
    }
    if args.len() >= 2 && args[1] == "LEAK" {
        // development aid: does a created-and-dropped database give its memory back?
        let rss = || std::fs::read_to_string("/proc/self/statm").ok().and_then(|s| s.split_whitespace().nth(1).and_then(|x| x.parse::<u64>().ok())).unwrap_or(0) * 4 / 1024;
        let close = args.get(2).map(|s| s == "close").unwrap_or(false);
        for round in 0..6 {
            for _ in 0..50 {
                let mut db = world::Db::create("leak");
                let _ = db.exec("CREATE TABLE t (a INT PRIMARY KEY, b TEXT)");
                for k in 0..6 {
                    let vary = args.get(3).map(|s| s == "vary").unwrap_or(false);
                    let vals: Vec<String> = (0..100).map(|i| format!("({}, '{}{}')", k * 100 + i, if vary { format!("{}", rss() as usize + round * 1000 + i) } else { String::new() }, "w".repeat(160))).collect();
                    let _ = db.exec(&format!("INSERT INTO t VALUES {}", vals.join(", ")));
                }
                if args.get(4).map(|s| s == "select").unwrap_or(false) {
                    let mode = args.get(5).cloned().unwrap_or_default();
                    if mode == "ddl" {
                        let _ = db.exec("CREATE INDEX ix ON t (b)");
                        let _ = db.exec("CREATE TABLE u (x INT, y TEXT UNIQUE)");
                    }
                    for q in 0..40 {
                        match mode.as_str() {
                            "count" => { let _ = db.query("SELECT COUNT(*) FROM t"); }
                            "range" => { let _ = db.query(&format!("SELECT * FROM t WHERE a >= {} AND a <= {}", q, q + 5)); }
                            "upd" => { let _ = db.exec(&format!("UPDATE t SET b = 'x{}' WHERE a = {}", q, q)); }
                            "del" => { let _ = db.exec(&format!("DELETE FROM t WHERE a = {}", q)); }
                            "err" => { let _ = db.exec(&format!("INSERT INTO t VALUES ({}, 'dup')", q)); }
                            _ => { let _ = db.query(&format!("SELECT * FROM t WHERE a = {}", q + round * 7)); let _ = db.query("SELECT * FROM t"); }
                        }
                    }
                }
                if close {
                    if let Some(h) = db.handle.take() {
                        let _ = h.close();
                    }
                }
            }
            println!("after {} databases: rss {} MB", (round + 1) * 50, rss());
        }
        std::process::exit(0);
    }
    if args.len() >= 2 && args[1] == "BENCH" {
        let t0 = std::time::Instant::now();
        for _ in 0..20 {
            let db = world::Db::create("bench");
            let _ = db.exec("CREATE TABLE t (a INT PRIMARY KEY, b TEXT)");
            let _ = db.exec("INSERT INTO t VALUES (1, 'x')");
            let _ = db.query("SELECT * FROM t");
        }
        println!("20 create+3 stmts: {:?}", t0.elapsed());
        let db = world::Db::create("bench");
        let _ = db.exec("CREATE TABLE t (a INT PRIMARY KEY, b TEXT)");
        let t0 = std::time::Instant::now();
        for i in 0..200 {
            let _ = db.exec(&format!("INSERT INTO t VALUES ({}, 'x')", i));
        }
        println!("200 inserts: {:?}", t0.elapsed());
        let t0 = std::time::Instant::now();
        for i in 0..200 {
            let _ = db.query(&format!("SELECT * FROM t WHERE a = {}", i));
        }
        println!("200 selects: {:?}", t0.elapsed());
        std::process::exit(0);
    }
    if args.len() >= 3 && args[2] == "--serve" {
        // hidden sub-command: child process of C22 / C23 (see childsrv.rs)
        let code = match args[1].as_str() {
            "C22" => childsrv::serve(c22::serve_handler),
            "C23" => childsrv::serve(c23::serve_handler),
            _ => 2,
        };
        std::process::exit(code);
    }
    if args.len() >= 4 && args[2] == "--emit-corpus" {
        // writes seed inputs (valid encodings) in fuzz input format under <dir>/<target>/
        let code = match args[1].as_str() {
            "C23" => c23::emit_corpus(&args[3], 40),
            "C22" => c22::emit_corpus(&args[3]),
            _ => 2,
        };
        std::process::exit(code);
    }
    if args.len() < 3 {
        eprintln!("usage: vcheck <Cnn> <quick|thorough>|--replay <file>");
        std::process::exit(2);
    }
    let prop = args[1].as_str();
    let replay = if args[2] == "--replay" { args.get(3).cloned() } else { None };
    let tier = match args[2].as_str() {
        "thorough" => Tier::Thorough,
        _ => Tier::Quick,
    };
    let code = match prop {
        "C04" => histchecks::c04(tier, replay.clone()),
        "C12" => histchecks::c12(tier, replay.clone()),
        "C21" => histchecks::c21(tier, replay.clone()),
        "C09" => histchecks::c09(tier, replay.clone()),
        "C06" => histchecks::c06(tier, replay.clone()),
        "C07" => histchecks::c07(tier, replay.clone()),
        "C31" => c31::main(tier, replay.clone()),
        "C32" => c32::main(tier, replay.clone()),
        "C33" => c33::main(tier, replay.clone()),
        "C03" => c03::main(tier, replay.clone()),
        "C28" => c28::main(tier, replay.clone()),
        "C29" => c29::main(tier, replay.clone()),
        "C14" => c14::main(tier, replay.clone()),
        "C15" => c15::main(tier, replay.clone()),
        "C16" => c16::main(tier, replay.clone()),
        "C17" => c17::main(tier, replay.clone()),
        "C18" => c18::main(tier, replay.clone()),
        "C19" => c19::main(tier, replay.clone()),
        "C20" => c20::main(tier, replay.clone()),
        "C41" => c41::main(tier, replay.clone()),
        "C24" => c24::main(tier, replay.clone()),
        "C25" => c25::main(tier, replay.clone()),
        "C34" => c34::main(tier, replay.clone()),
        "C10" => c10::main(tier, replay.clone()),
        "C42" => c42::main(tier, replay.clone()),
        "C43" => c43::main(tier, replay.clone()),
        "C11" => c11::main(tier, replay.clone()),
        "C13" => c13::main(tier, replay.clone()),
        "C08" => c08::main(tier, replay.clone()),
        "C01" => crashchecks::main("C01", tier, replay.clone()),
        "C02" => crashchecks::main("C02", tier, replay.clone()),
        "C40" => crashchecks::main("C40", tier, replay.clone()),
        "C22" => c22::main(tier, replay.clone()),
        "C23" => c23::main(tier, replay.clone()),
        "C38" => c38::main(tier, replay.clone()),
        "C05" => c05::main(tier, replay.clone()),
        "C26" => c26::main(tier, replay.clone()),
        "C27" => c27::main(tier, replay.clone()),
        "C30" => c30::main(tier, replay.clone()),
        _ => {
            eprintln!("unknown property {}", prop);
            2
        }
    };
    std::process::exit(code);
}
