//! C42 Configuration choices do not change query results.
//!
//! Differential: one history runs on a reference database (default configuration) and on
//! 2..3 databases under other configurations drawn from {wal on/off} x {synchronous
//! OFF/NORMAL/FULL} x {wal_autoflush on/off} x {wal_checkpoint_threshold tiny/default},
//! plus a variant that first creates 70+ table/index files so the 64-entry open-file LRU
//! evicts. Statement outcomes (Ok/Err, affected rows, RETURNING rows) and the full
//! observation must be identical after every statement.

use std::collections::BTreeSet;

use proptest::prelude::*;
use vcore::{Check, Ctx, Outcome, Tier};

use crate::hist::*;
use crate::histchecks::gates_for;
use crate::refdb::*;
use crate::world::*;

#[derive(Debug, Clone, serde::Serialize, serde::Deserialize)]
pub struct Config {
    pub wal: bool,
    /// 0 OFF 1 NORMAL 2 FULL
    pub sync: u8,
    pub autoflush: bool,
    pub tiny_threshold: bool,
    pub many_files: bool,
}

impl Config {
    fn setup(&self) -> Vec<String> {
        let mut v = Vec::new();
        v.push(format!("PRAGMA wal={}", if self.wal { "ON" } else { "OFF" }));
        v.push(format!("PRAGMA synchronous={}", ["OFF", "NORMAL", "FULL"][(self.sync % 3) as usize]));
        v.push(format!("PRAGMA wal_autoflush={}", if self.autoflush { "ON" } else { "OFF" }));
        if self.tiny_threshold {
            v.push("PRAGMA wal_checkpoint_threshold=2".into());
        }
        v
    }
    fn label(&self) -> String {
        format!("wal={} sync={} autoflush={} tiny_threshold={} many_files={}", self.wal, ["OFF", "NORMAL", "FULL"][(self.sync % 3) as usize], self.autoflush, self.tiny_threshold, self.many_files)
    }
}

#[derive(Debug, Clone, serde::Serialize, serde::Deserialize)]
pub struct Case {
    pub configs: Vec<Config>,
    pub h: History,
}

pub struct C42 {
    pub gates: BTreeSet<String>,
}

fn prepare(cfg: &Config) -> Result<Db, String> {
    let db = Db::create("C42");
    for s in cfg.setup() {
        if let Exec::Err(e) = db.exec(&s) {
            return Err(format!("{} -> {}", s, e));
        }
    }
    if cfg.many_files {
        for i in 0..36 {
            for s in [format!("CREATE TABLE filler{} (id INT PRIMARY KEY, v TEXT)", i), format!("INSERT INTO filler{} VALUES ({}, 'f')", i, i)] {
                if let Exec::Err(e) = db.exec(&s) {
                    return Err(format!("{} -> {}", s, e));
                }
            }
        }
    }
    Ok(db)
}

impl C42 {
    fn go(&self, case: &Case, gates: &BTreeSet<String>) -> Outcome {
        let mut out = Outcome::ok();
        NEG_DEFAULT_OK.with(|c| c.set(!gates.contains("negative_default")));
        let reference = Config { wal: false, sync: 2, autoflush: true, tiny_threshold: false, many_files: false };
        let mut cfgs = vec![reference];
        cfgs.extend(case.configs.iter().cloned());
        let mut dbs: Vec<Db> = Vec::new();
        for c in &cfgs {
            match prepare(c) {
                Ok(d) => dbs.push(d),
                Err(e) => return out.fail("C42|setup_failed", format!("configuration [{}]: {}", c.label(), e)),
            }
        }
        let mut model = Model::new(&case.h.tables, false);
        for t in model.tables.clone() {
            for sql in Model::create_sql(&t) {
                let r0 = matches!(dbs[0].exec(&sql), Exec::Ok { .. });
                for (i, d) in dbs.iter().enumerate().skip(1) {
                    let ri = matches!(d.exec(&sql), Exec::Ok { .. });
                    if ri != r0 {
                        return out.fail("C42|ddl_outcome_differs|CREATE", format!("{} : reference ok={} but [{}] ok={}", sql, r0, cfgs[i].label(), ri));
                    }
                }
                if !r0 {
                    return out.class("schema_rejected");
                }
            }
        }
        let mut log: Vec<String> = Vec::new();
        // pre-load (multi-page tables): the same statements under every configuration
        for (ti, spec) in case.h.tables.iter().enumerate() {
            if ti >= model.tables.len() {
                continue;
            }
            for (sql, rows) in crate::hist::prefill_statements(spec, 50) {
                let r0 = matches!(dbs[0].exec(&sql), Exec::Ok { .. });
                for (i, d) in dbs.iter().enumerate().skip(1) {
                    let ri = matches!(d.exec(&sql), Exec::Ok { .. });
                    if ri != r0 {
                        return out.fail("C42|outcome_differs|INSERT|prefill", format!("pre-load statement: reference ok={} but [{}] ok={}", r0, cfgs[i].label(), ri));
                    }
                }
                if !r0 {
                    return out.class("prefill_rejected");
                }
                model.tables[ti].rows.extend(rows);
                model.tables[ti].ever_had_rows = true;
            }
            if spec.prefill > 0 && model.tables[ti].ever_had_rows {
                log.push(format!("-- {} rows pre-loaded into {}", spec.prefill, spec.name));
                out.add_class(if spec.prefill >= 300 { "prefill:600" } else { "prefill:70" });
            }
        }
        let mut stmts = 0usize;
        let mut dml = 0usize;
        for op in &case.h.ops {
            let Some(r) = model.resolve(op) else { continue };
            if let Some(g) = r.tags.iter().find(|t| gates.contains(**t)) {
                out.add_class(format!("gated:{}", g));
                continue;
            }
            // lifecycle ops are applied to every configuration alike
            let execs: Vec<Exec> = dbs
                .iter_mut()
                .enumerate()
                .map(|(i, d)| {
                    if let Some(l) = r.lifecycle {
                        let res = match l {
                            Lifecycle::Checkpoint => d.checkpoint(),
                            Lifecycle::Reopen => d.reopen(),
                            Lifecycle::DropReopen => d.drop_reopen(),
                        };
                        if !matches!(l, Lifecycle::Checkpoint) && d.handle.is_some() {
                            for s in cfgs[i].setup() {
                                let _ = d.exec(&s);
                            }
                        }
                        match res {
                            Ok(()) => Exec::Ok { affected: None, returned: None, rows: None, other: String::new() },
                            Err(e) => Exec::Err(e),
                        }
                    } else {
                        d.exec(&r.sql)
                    }
                })
                .collect();
            log.push(if r.lifecycle.is_some() { format!("-- {:?}", r.lifecycle.unwrap()) } else { r.sql.clone() });
            stmts += 1;
            if matches!(r.kind, "INSERT" | "UPDATE" | "DELETE") {
                dml += 1;
            }
            if dbs.iter().any(|d| d.handle.is_none()) {
                return out.fail(format!("C42|open_failed|{}", r.kind), format!("a database could not be reopened: {:?}", execs));
            }
            let norm = |e: &Exec| -> String {
                match e {
                    Exec::Ok { affected, returned, .. } => {
                        let mut rr = returned.clone();
                        if let Some(x) = rr.as_mut() {
                            sort_rows(x);
                        }
                        format!("Ok affected={:?} returned={:?}", affected, rr)
                    }
                    Exec::Err(_) => "Err".to_string(),
                }
            };
            let n0 = norm(&execs[0]);
            let mut tags: Vec<&str> = r.tags.clone();
            tags.sort();
            tags.dedup();
            let tagstr = if tags.is_empty() { "-".to_string() } else { tags.join("+") };
            let tail = |log: &Vec<String>| log.iter().rev().take(10).rev().cloned().map(|s| crate::histrun::short(&s)).collect::<Vec<_>>().join("\n    ");
            for i in 1..dbs.len() {
                let ni = norm(&execs[i]);
                if ni != n0 {
                    return out.fail(
                        format!("C42|statement_result_differs|{}|{}", r.kind, tagstr),
                        format!("{}\n  reference [{}]: {}\n  other     [{}]: {}\n  last statements:\n    {}", crate::histrun::short(&r.sql), cfgs[0].label(), n0.chars().take(300).collect::<String>(), cfgs[i].label(), ni.chars().take(300).collect::<String>(), tail(&log)),
                    );
                }
            }
            if matches!(execs[0], Exec::Ok { .. }) {
                model.commit(&r);
            }
            let o0 = obs(&dbs[0], &model.tables, true);
            for i in 1..dbs.len() {
                let oi = obs(&dbs[i], &model.tables, true);
                if let Some((facet, detail)) = diff_obs(&o0, &oi) {
                    return out.fail(
                        format!("C42|state_differs|{}|after:{}|{}", facet, r.kind, tagstr),
                        format!("reference [{}] vs [{}]: {}\n  last statements:\n    {}", cfgs[0].label(), cfgs[i].label(), detail, tail(&log)),
                    );
                }
            }
        }
        for c in &case.configs {
            if c.wal {
                out.add_class("cfg:wal_on");
            }
            if c.tiny_threshold && c.wal {
                out.add_class("cfg:wal_tiny_threshold");
            }
            if !c.autoflush {
                out.add_class("cfg:autoflush_off");
            }
            if c.many_files {
                out.add_class("cfg:many_files");
            }
            out.add_class(format!("cfg:sync{}", c.sync % 3));
        }
        let interesting = case.configs.iter().any(|c| (c.wal && c.tiny_threshold) || c.many_files);
        if interesting && dml >= 3 && stmts >= 5 {
            out.nontrivial = Some(vcore::hash_of(&format!("{:?}", case)));
        }
        out
    }
}

impl Check for C42 {
    type Case = Case;
    fn run(&self, case: &Case) -> Outcome {
        self.go(case, &self.gates)
    }
    fn run_strict(&self, case: &Case) -> Outcome {
        let f = vcore::Findings::load_default();
        let own: BTreeSet<String> = f.closed_gates("C42").into_iter().collect();
        let inherited: BTreeSet<String> = self.gates.iter().filter(|g| !own.contains(*g)).cloned().collect();
        self.go(case, &inherited)
    }
}

fn config_strategy() -> impl Strategy<Value = Config> {
    (any::<bool>(), 0u8..3, any::<bool>(), any::<bool>(), prop_oneof![4 => Just(false), 1 => Just(true)]).prop_map(|(wal, sync, autoflush, tiny_threshold, many_files)| Config { wal, sync, autoflush, tiny_threshold, many_files })
}

pub fn strategy() -> BoxedStrategy<Case> {
    let p = Profile { max_ops: 30, dml: 12, ddl: 2, txn: 2, lifecycle: 2, truncate: 1, prefill: true, ..Profile::default() };
    (proptest::collection::vec(config_strategy(), 2..4), history_strategy(&p)).prop_map(|(configs, h)| Case { configs, h }).boxed()
}

pub fn main(tier: Tier, replay: Option<String>) -> i32 {
    let check = C42 { gates: gates_for("C42") };
    if let Some(p) = replay {
        return vcore::replay_file("C42", &check, &p);
    }
    let ctx = Ctx::new("C42", tier, "exploration");
    ctx.set_rule(
        "one E-hist history (DDL, DML, transactions, checkpoint/reopen) executed on a reference database (WAL off, synchronous FULL) and on 2-3 databases under generated \
         combinations of PRAGMA wal, synchronous, wal_autoflush, wal_checkpoint_threshold (2 frames = auto-checkpoint every few statements, or default) and with 72 extra \
         table/index files (more than the 64-entry open-file cache); every statement's result (Ok/Err, affected rows, RETURNING) and the full observation of all tables \
         must be identical. Non-trivial = some configuration has WAL on with the tiny checkpoint threshold or more than 64 files, and the history ran >= 3 DML statements; \
         distinct by hash of the case.",
    );
    let cases = tier.pick(500, 5_000);
    vcore::drive(&ctx, &check, strategy, cases, 16);
    ctx.finish()
}
