//! E-hist: generated SQL histories (DESIGN.md §4.0).
//!
//! A case is a schema (1..3 tables) plus a `Vec<Op>`. Ops carry *selectors* (small
//! integers) instead of names and values; they are resolved against the schema state at
//! interpretation time, so any op sequence is meaningful and proptest can shrink it as a
//! plain value. Values come from small per-type pools so key collisions, re-deletes and
//! updates of missing rows are common.

use proptest::prelude::*;
use serde::{Deserialize, Serialize};

#[derive(Debug, Clone, Copy, PartialEq, Eq, Hash, Serialize, Deserialize)]
pub enum Ty {
    Int,
    BigInt,
    Text,
    Double,
    Bool,
}

impl Ty {
    pub fn sql(self) -> &'static str {
        match self {
            Ty::Int => "INT",
            Ty::BigInt => "BIGINT",
            Ty::Text => "TEXT",
            Ty::Double => "DOUBLE",
            Ty::Bool => "BOOLEAN",
        }
    }
}

/// model value; floats are kept as f64 but only values exactly representable in binary
/// with few digits are generated, so text rendering and comparison are exact
#[derive(Debug, Clone, PartialEq, Serialize, Deserialize)]
pub enum Val {
    Null,
    Int(i64),
    Float(f64),
    Text(String),
    Bool(bool),
}

impl Val {
    pub fn is_null(&self) -> bool {
        matches!(self, Val::Null)
    }
    pub fn sql(&self) -> String {
        match self {
            Val::Null => "NULL".into(),
            Val::Int(i) => i.to_string(),
            Val::Float(f) => {
                let s = format!("{:?}", f);
                s
            }
            Val::Text(s) => format!("'{}'", s.replace('\'', "''")),
            Val::Bool(b) => if *b { "TRUE".into() } else { "FALSE".into() },
        }
    }
    /// total order used only to sort rows into a canonical multiset representation
    pub fn sort_key(&self) -> (u8, i64, u64, String) {
        match self {
            Val::Null => (0, 0, 0, String::new()),
            Val::Bool(b) => (1, *b as i64, 0, String::new()),
            Val::Int(i) => (2, *i, 0, String::new()),
            Val::Float(f) => (3, 0, {
                let b = f.to_bits();
                if b >> 63 == 1 { !b } else { b | (1 << 63) }
            }, String::new()),
            Val::Text(s) => (4, 0, 0, s.clone()),
        }
    }
}

pub type Row = Vec<Val>;

pub fn sort_rows(rows: &mut [Row]) {
    rows.sort_by(|a, b| {
        let ka: Vec<_> = a.iter().map(|v| v.sort_key()).collect();
        let kb: Vec<_> = b.iter().map(|v| v.sort_key()).collect();
        ka.partial_cmp(&kb).unwrap_or(std::cmp::Ordering::Equal)
    });
}

#[derive(Debug, Clone, PartialEq, Serialize, Deserialize)]
pub struct ColSpec {
    pub name: String,
    pub ty: Ty,
    pub pk: bool,
    pub unique: bool,
    pub not_null: bool,
    pub auto_inc: bool,
    /// selector into the pool of the column's type
    pub default: Option<u8>,
    /// column-level CHECK (numeric columns)
    #[serde(default)]
    pub check: Option<CheckSpec>,
    /// REFERENCES <first table>(id) with the given ON DELETE action
    #[serde(default)]
    pub fk: Option<FkAction>,
}

#[derive(Debug, Clone, Copy, PartialEq, Eq, Serialize, Deserialize)]
pub enum FkAction {
    NoAction,
    Restrict,
    Cascade,
}

/// CHECK grammar: comparisons of the column with pool literals joined by AND / OR
#[derive(Debug, Clone, PartialEq, Serialize, Deserialize)]
pub enum CheckSpec {
    Cmp(CmpOp, u8),
    And(Box<CheckSpec>, Box<CheckSpec>),
    Or(Box<CheckSpec>, Box<CheckSpec>),
}

impl CheckSpec {
    pub fn sql(&self, col: &str, ty: Ty) -> String {
        match self {
            CheckSpec::Cmp(op, v) => format!("{} {} {}", col, op.sql(), pool(ty, *v % 12, false).sql()),
            CheckSpec::And(a, b) => format!("{} AND {}", a.sql(col, ty), b.sql(col, ty)),
            CheckSpec::Or(a, b) => format!("({} OR {})", a.sql(col, ty), b.sql(col, ty)),
        }
    }
    /// three-valued: None = UNKNOWN (passes)
    pub fn eval(&self, ty: Ty, v: &Val) -> Option<bool> {
        match self {
            CheckSpec::Cmp(op, l) => {
                let lit = pool(ty, *l % 12, false);
                let o = match (v, &lit) {
                    (Val::Null, _) => return None,
                    (Val::Int(a), Val::Int(b)) => a.cmp(b),
                    (Val::Float(a), Val::Float(b)) => a.partial_cmp(b)?,
                    (Val::Text(a), Val::Text(b)) => a.as_bytes().cmp(b.as_bytes()),
                    _ => return None,
                };
                Some(match op {
                    CmpOp::Eq => o.is_eq(),
                    CmpOp::Ne => o.is_ne(),
                    CmpOp::Lt => o.is_lt(),
                    CmpOp::Le => o.is_le(),
                    CmpOp::Gt => o.is_gt(),
                    CmpOp::Ge => o.is_ge(),
                })
            }
            CheckSpec::And(a, b) => match (a.eval(ty, v), b.eval(ty, v)) {
                (Some(false), _) | (_, Some(false)) => Some(false),
                (Some(true), Some(true)) => Some(true),
                _ => None,
            },
            CheckSpec::Or(a, b) => match (a.eval(ty, v), b.eval(ty, v)) {
                (Some(true), _) | (_, Some(true)) => Some(true),
                (Some(false), Some(false)) => Some(false),
                _ => None,
            },
        }
    }
    pub fn has_eq_ne(&self) -> bool {
        match self {
            CheckSpec::Cmp(op, _) => matches!(op, CmpOp::Eq | CmpOp::Ne),
            CheckSpec::And(a, b) | CheckSpec::Or(a, b) => a.has_eq_ne() || b.has_eq_ne(),
        }
    }
    pub fn has_or(&self) -> bool {
        match self {
            CheckSpec::Cmp(..) => false,
            CheckSpec::Or(..) => true,
            CheckSpec::And(a, b) => a.has_or() || b.has_or(),
        }
    }
}

#[derive(Debug, Clone, PartialEq, Serialize, Deserialize)]
pub struct IndexSpec {
    pub name: String,
    /// column selectors
    pub cols: Vec<u8>,
    pub unique: bool,
}

#[derive(Debug, Clone, PartialEq, Serialize, Deserialize)]
pub struct TableSpec {
    pub name: String,
    pub cols: Vec<ColSpec>,
    pub indexes: Vec<IndexSpec>,
    /// rows loaded right after CREATE (wide, all keys distinct and outside the pools), so that the table's and
    /// its indexes' B-trees span several pages and have split their roots before the history starts
    #[serde(default)]
    pub prefill: u16,
}

/// the rows a table is pre-loaded with; empty when the schema has columns whose constraints the fixed values
/// could violate (CHECK, FOREIGN KEY, AUTO_INCREMENT bookkeeping, keys over BOOLEAN / DOUBLE)
pub fn prefill_rows(t: &TableSpec) -> Vec<Row> {
    if t.prefill == 0 || t.cols.iter().any(|c| c.check.is_some() || c.fk.is_some() || c.auto_inc || ((c.pk || c.unique) && matches!(c.ty, Ty::Bool | Ty::Double))) {
        return vec![];
    }
    // scrambled order (37 is coprime to both sizes): keys arrive non-monotonically, so index and table leaves
    // split in the middle and a multi-row statement keeps inserting on both sides of a fresh split
    let n = t.prefill as i64;
    (0..n)
        .map(|j| (j * 37 + 11) % n)
        .map(|i| {
            t.cols
                .iter()
                .enumerate()
                .map(|(ci, c)| match c.ty {
                    Ty::Int | Ty::BigInt => Val::Int(100_000 + i * 3 + ci as i64 * 1_000_000),
                    Ty::Text => Val::Text(format!("p{:05}_{}{}", i, ci, "w".repeat(160))),
                    Ty::Double => Val::Float(5000.0 + i as f64 * 0.5),
                    Ty::Bool => Val::Bool(i % 2 == 0),
                })
                .collect()
        })
        .collect()
}

#[derive(Debug, Clone, Copy, PartialEq, Eq, Serialize, Deserialize)]
pub enum CmpOp {
    Eq,
    Ne,
    Lt,
    Le,
    Gt,
    Ge,
}

impl CmpOp {
    pub fn sql(self) -> &'static str {
        match self {
            CmpOp::Eq => "=",
            CmpOp::Ne => "<>",
            CmpOp::Lt => "<",
            CmpOp::Le => "<=",
            CmpOp::Gt => ">",
            CmpOp::Ge => ">=",
        }
    }
}

#[derive(Debug, Clone, PartialEq, Serialize, Deserialize)]
pub enum Where {
    All,
    Cmp(u8, CmpOp, u8),
    IsNull(u8, bool),
    And(Box<Where>, Box<Where>),
    Or(Box<Where>, Box<Where>),
}

#[derive(Debug, Clone, PartialEq, Serialize, Deserialize)]
pub enum SetExpr {
    /// pool value (selector); 255 = NULL
    Lit(u8),
    /// col = col + k (numeric columns only; falls back to Lit for others)
    AddK(i8),
}

#[derive(Debug, Clone, PartialEq, Serialize, Deserialize)]
pub enum Op {
    Insert { t: u8, with_cols: bool, skip: u8, rows: Vec<Vec<u8>>, returning: bool },
    Update { t: u8, sets: Vec<(u8, SetExpr)>, wh: Where, returning: bool },
    Delete { t: u8, wh: Where, returning: bool },
    Truncate { t: u8 },
    Begin,
    Commit,
    Rollback,
    Savepoint(u8),
    RollbackTo(u8),
    Release(u8),
    CreateIndex { t: u8, cols: Vec<u8>, unique: bool },
    DropIndex { t: u8, i: u8 },
    AddColumn { t: u8, ty: Ty, default: Option<u8> },
    DropColumn { t: u8, c: u8 },
    RenameColumn { t: u8, c: u8 },
    CreateTable(TableSpec),
    DropTable { t: u8 },
    Checkpoint,
    PragmaCheckpoint,
    Reopen,
    DropReopen,
}

impl Op {
    pub fn kind(&self) -> &'static str {
        match self {
            Op::Insert { .. } => "INSERT",
            Op::Update { .. } => "UPDATE",
            Op::Delete { .. } => "DELETE",
            Op::Truncate { .. } => "TRUNCATE",
            Op::Begin => "BEGIN",
            Op::Commit => "COMMIT",
            Op::Rollback => "ROLLBACK",
            Op::Savepoint(_) => "SAVEPOINT",
            Op::RollbackTo(_) => "ROLLBACK_TO",
            Op::Release(_) => "RELEASE",
            Op::CreateIndex { .. } => "CREATE_INDEX",
            Op::DropIndex { .. } => "DROP_INDEX",
            Op::AddColumn { .. } => "ADD_COLUMN",
            Op::DropColumn { .. } => "DROP_COLUMN",
            Op::RenameColumn { .. } => "RENAME_COLUMN",
            Op::CreateTable(_) => "CREATE_TABLE",
            Op::DropTable { .. } => "DROP_TABLE",
            Op::Checkpoint => "CHECKPOINT",
            Op::PragmaCheckpoint => "PRAGMA_CHECKPOINT",
            Op::Reopen => "REOPEN",
            Op::DropReopen => "DROP_REOPEN",
        }
    }
}

// ------------------------------------------------------------------------------ pools

pub const LONG_A: usize = 1500; // above the 1000-byte TOAST threshold
pub const LONG_B: usize = 9000; // several 4000-byte chunks

pub fn pool(ty: Ty, sel: u8, big: bool) -> Val {
    if sel == 255 {
        return Val::Null;
    }
    match ty {
        Ty::Int | Ty::BigInt => {
            let p: [i64; 16] = [0, 1, 2, 3, 4, 5, 6, 7, 8, 9, 10, 11, -1, -2, 100, 1000];
            let v = p[(sel as usize) % 16];
            if big && sel >= 128 {
                // wide keys: many rows per table, still colliding now and then
                Val::Int((sel as i64 - 128) * 7 + 20)
            } else {
                Val::Int(v)
            }
        }
        Ty::Text => {
            let p: [&str; 12] = ["a", "b", "c", "aa", "ab", "", "Z", "a b", "it's", "é", "L1", "L2"];
            let s = p[(sel as usize) % 12];
            match s {
                "L1" => Val::Text("x".repeat(LONG_A)),
                "L2" => Val::Text("yz".repeat(LONG_B / 2)),
                _ => {
                    if big && sel >= 128 {
                        Val::Text(format!("k{:03}", sel))
                    } else {
                        Val::Text(s.to_string())
                    }
                }
            }
        }
        Ty::Double => {
            let p: [f64; 8] = [0.0, 0.5, 1.0, 1.5, -0.5, -2.0, 2.25, 100.0];
            Val::Float(p[(sel as usize) % 8])
        }
        Ty::Bool => Val::Bool(sel % 2 == 0),
    }
}

/// the pre-load as statements: (multi-row INSERT, the rows it inserts)
pub fn prefill_statements(t: &TableSpec, chunk: usize) -> Vec<(String, Vec<Row>)> {
    prefill_rows(t)
        .chunks(chunk)
        .map(|c| {
            (
                format!("INSERT INTO {} VALUES {}", t.name, c.iter().map(|r| format!("({})", r.iter().map(|v| v.sql()).collect::<Vec<_>>().join(", "))).collect::<Vec<_>>().join(", ")),
                c.to_vec(),
            )
        })
        .collect()
}

// ------------------------------------------------------------------------------ strategies

#[derive(Clone, Debug)]
pub struct Profile {
    pub max_tables: usize,
    pub max_ops: usize,
    pub dml: u32,
    pub txn: u32,
    pub ddl: u32,
    pub lifecycle: u32,
    pub truncate: u32,
    pub allow_pk: bool,
    pub allow_text_pk: bool,
    pub allow_unique: bool,
    pub allow_not_null: bool,
    pub allow_default: bool,
    pub allow_auto_inc: bool,
    pub allow_indexes: bool,
    pub allow_long: bool,
    pub allow_returning: bool,
    pub allow_or: bool,
    pub allow_addk: bool,
    pub allow_set_key: bool,
    pub allow_null_lit: bool,
    pub big_keys: bool,
    pub max_insert_rows: usize,
    pub allow_check: bool,
    pub allow_fk: bool,
    /// generate whole transactions as units (BEGIN, writes mixed with SAVEPOINT / ROLLBACK TO / RELEASE, then
    /// ROLLBACK / COMMIT / drop of the handle) between the single operations
    pub txn_blocks: bool,
    /// pre-load some tables with 70 / 600 wide rows (multi-page B-trees)
    pub prefill: bool,
    /// transaction blocks end in COMMIT most of the time (crash workloads: committed work must survive)
    pub txn_blocks_commit: bool,
    /// weight of values above the TOAST threshold among generated values (default 1 of ~27)
    pub long_weight: u32,
}

impl Default for Profile {
    fn default() -> Self {
        Profile {
            max_tables: 2,
            max_ops: 30,
            dml: 10,
            txn: 0,
            ddl: 0,
            lifecycle: 0,
            truncate: 1,
            allow_pk: true,
            allow_text_pk: true,
            allow_unique: true,
            allow_not_null: true,
            allow_default: true,
            allow_auto_inc: false,
            allow_indexes: true,
            allow_long: true,
            allow_returning: true,
            allow_or: true,
            allow_addk: true,
            allow_set_key: true,
            allow_null_lit: true,
            big_keys: false,
            max_insert_rows: 4,
            allow_check: false,
            allow_fk: false,
            txn_blocks: false,
            prefill: false,
            txn_blocks_commit: false,
            long_weight: 1,
        }
    }
}

fn ty_strategy() -> impl Strategy<Value = Ty> {
    prop_oneof![4 => Just(Ty::Int), 1 => Just(Ty::BigInt), 3 => Just(Ty::Text), 1 => Just(Ty::Double), 1 => Just(Ty::Bool)]
}

pub fn table_strategy(p: &Profile, name: String) -> BoxedStrategy<TableSpec> {
    let p = p.clone();
    let pk_kind = if !p.allow_pk {
        Just(0u8).boxed()
    } else if p.allow_text_pk {
        prop_oneof![2 => Just(0u8), 5 => Just(1u8), 2 => Just(2u8)].boxed()
    } else {
        prop_oneof![2 => Just(0u8), 5 => Just(1u8)].boxed()
    };
    (pk_kind, proptest::collection::vec((ty_strategy(), any::<u8>(), any::<u8>(), any::<u8>()), 1..5), proptest::collection::vec((proptest::collection::vec(any::<u8>(), 1..3), any::<bool>()), 0..3), any::<bool>())
        .prop_map(move |(pk_kind, cols, idxs, auto)| {
            let mut out = Vec::new();
            match pk_kind {
                1 => out.push(ColSpec { name: "id".into(), ty: Ty::Int, pk: true, unique: false, not_null: false, auto_inc: p.allow_auto_inc && auto, default: None, check: None, fk: None }),
                2 => out.push(ColSpec { name: "id".into(), ty: Ty::Text, pk: true, unique: false, not_null: false, auto_inc: false, default: None, check: None, fk: None }),
                _ => {}
            }
            for (i, (ty, f1, f2, d)) in cols.into_iter().enumerate() {
                out.push(ColSpec {
                    name: format!("c{}", i),
                    ty,
                    pk: false,
                    unique: p.allow_unique && f1 % 5 == 0 && ty != Ty::Bool && ty != Ty::Double,
                    not_null: p.allow_not_null && f2 % 5 == 0,
                    auto_inc: false,
                    default: if p.allow_default && f2 % 3 == 0 { Some(d % 10) } else { None },
                    check: if p.allow_check && matches!(ty, Ty::Int | Ty::BigInt | Ty::Double | Ty::Text) && f1 % 3 == 1 { Some(check_from_bits(f2, d)) } else { None },
                    fk: if p.allow_fk && ty == Ty::Int && f1 % 4 == 2 {
                        Some(match d % 3 {
                            0 => FkAction::NoAction,
                            1 => FkAction::Restrict,
                            _ => FkAction::Cascade,
                        })
                    } else {
                        None
                    },
                });
            }
            let ncols = out.len();
            let mut indexes = Vec::new();
            if p.allow_indexes {
                for (k, (cs, uq)) in idxs.into_iter().enumerate() {
                    let mut cols: Vec<u8> = cs.into_iter().map(|c| (c as usize % ncols) as u8).collect();
                    cols.dedup();
                    if cols.len() == 2 && cols[0] == cols[1] {
                        cols.pop();
                    }
                    indexes.push(IndexSpec { name: format!("ix_{}_{}", name, k), cols, unique: uq && p.allow_unique && false });
                }
            }
            TableSpec { name: name.clone(), cols: out, indexes, prefill: 0 }
        })
        .boxed()
}

pub fn where_strategy(p: &Profile) -> BoxedStrategy<Where> {
    let leaf = prop_oneof![
        1 => Just(Where::All),
        6 => (any::<u8>(), prop_oneof![4 => Just(CmpOp::Eq), 1 => Just(CmpOp::Ne), 1 => Just(CmpOp::Lt), 1 => Just(CmpOp::Le), 1 => Just(CmpOp::Gt), 1 => Just(CmpOp::Ge)], 0u8..16).prop_map(|(c, o, v)| Where::Cmp(c, o, v)),
        1 => (any::<u8>(), any::<bool>()).prop_map(|(c, n)| Where::IsNull(c, n)),
    ];
    let allow_or = p.allow_or;
    leaf.prop_recursive(2, 4, 2, move |inner| {
        if allow_or {
            prop_oneof![
                (inner.clone(), inner.clone()).prop_map(|(a, b)| Where::And(Box::new(a), Box::new(b))),
                (inner.clone(), inner).prop_map(|(a, b)| Where::Or(Box::new(a), Box::new(b))),
            ]
            .boxed()
        } else {
            (inner.clone(), inner).prop_map(|(a, b)| Where::And(Box::new(a), Box::new(b))).boxed()
        }
    })
    .boxed()
}

fn valsel(p: &Profile) -> BoxedStrategy<u8> {
    let null_w = if p.allow_null_lit { 2 } else { 0 };
    let long_w = if p.allow_long { p.long_weight } else { 0 };
    let big_w = if p.big_keys { 10 } else { 0 };
    prop_oneof![
        12 => 0u8..10,
        long_w => 10u8..12,
        null_w => Just(255u8),
        2 => 12u8..16,
        big_w => 128u8..255,
    ]
    .boxed()
}

pub fn op_strategy(p: &Profile) -> BoxedStrategy<Op> {
    let pr = p.clone();
    let ret = if p.allow_returning { prop_oneof![4 => Just(false), 1 => Just(true)].boxed() } else { Just(false).boxed() };
    let insert = (0u8..4, any::<bool>(), any::<u8>(), proptest::collection::vec(proptest::collection::vec(valsel(p), 6), 1..=p.max_insert_rows.max(1)), ret.clone())
        .prop_map(|(t, with_cols, skip, rows, returning)| Op::Insert { t, with_cols, skip, rows, returning });
    let setexpr = if p.allow_addk {
        prop_oneof![4 => valsel(p).prop_map(SetExpr::Lit), 1 => (-2i8..3).prop_map(SetExpr::AddK)].boxed()
    } else {
        valsel(p).prop_map(SetExpr::Lit).boxed()
    };
    let update = (0u8..4, proptest::collection::vec((any::<u8>(), setexpr), 1..3), where_strategy(p), ret.clone())
        .prop_map(|(t, sets, wh, returning)| Op::Update { t, sets, wh, returning });
    let delete = (0u8..4, where_strategy(p), ret).prop_map(|(t, wh, returning)| Op::Delete { t, wh, returning });
    let dml = prop_oneof![5 => insert, 3 => update, 2 => delete];
    let txn = prop_oneof![
        3 => Just(Op::Begin),
        2 => Just(Op::Commit),
        3 => Just(Op::Rollback),
        2 => (0u8..3).prop_map(Op::Savepoint),
        2 => (0u8..3).prop_map(Op::RollbackTo),
        1 => (0u8..3).prop_map(Op::Release),
    ];
    let ddl = prop_oneof![
        3 => (0u8..4, proptest::collection::vec(any::<u8>(), 1..3), Just(false)).prop_map(|(t, cols, unique)| Op::CreateIndex { t, cols, unique }),
        2 => (0u8..4, any::<u8>()).prop_map(|(t, i)| Op::DropIndex { t, i }),
        3 => (0u8..4, ty_strategy(), proptest::option::of(0u8..10)).prop_map(|(t, ty, default)| Op::AddColumn { t, ty, default }),
        2 => (0u8..4, any::<u8>()).prop_map(|(t, c)| Op::DropColumn { t, c }),
        2 => (0u8..4, any::<u8>()).prop_map(|(t, c)| Op::RenameColumn { t, c }),
        1 => (0u8..4).prop_map(|t| Op::DropTable { t }),
        2 => table_strategy(&pr, "tn".into()).prop_map(Op::CreateTable),
    ];
    let lifecycle = prop_oneof![2 => Just(Op::Checkpoint), 1 => Just(Op::PragmaCheckpoint), 3 => Just(Op::Reopen), 1 => Just(Op::DropReopen)];
    let trunc = (0u8..4).prop_map(|t| Op::Truncate { t });
    prop_oneof![
        p.dml => dml,
        p.txn => txn,
        p.ddl => ddl,
        p.lifecycle => lifecycle,
        p.truncate => trunc,
    ]
    .boxed()
}

#[derive(Debug, Clone, Serialize, Deserialize)]
pub struct History {
    pub tables: Vec<TableSpec>,
    pub ops: Vec<Op>,
}

pub fn history_strategy(p: &Profile) -> BoxedStrategy<History> {
    let p2 = p.clone();
    let fill = if p.prefill { prop_oneof![3 => Just(0u16), 3 => Just(70u16), 1 => Just(600u16)].boxed() } else { Just(0u16).boxed() };
    let tables = (1..=p.max_tables).prop_flat_map(move |n| {
        let v: Vec<BoxedStrategy<TableSpec>> = (0..n)
            .map(|i| {
                (table_strategy(&p2, format!("t{}", i)), fill.clone())
                    .prop_map(|(mut t, f)| {
                        t.prefill = f;
                        t
                    })
                    .boxed()
            })
            .collect();
        v
    });
    if p.txn_blocks {
        let mut pd = p.clone();
        pd.txn = 0;
        pd.ddl = 0;
        pd.lifecycle = 0;
        pd.truncate = 0;
        let inner = prop_oneof![
            5 => op_strategy(&pd),
            2 => (0u8..2).prop_map(Op::Savepoint),
            2 => (0u8..2).prop_map(Op::RollbackTo),
            1 => (0u8..2).prop_map(Op::Release),
        ];
        let end = if p.txn_blocks_commit {
            prop_oneof![1 => Just(Op::Rollback), 4 => Just(Op::Commit)].boxed()
        } else {
            prop_oneof![3 => Just(Op::Rollback), 1 => Just(Op::Commit), 1 => Just(Op::DropReopen)].boxed()
        };
        let block = (proptest::collection::vec(inner, 2..10), end).prop_map(|(mut v, end)| {
            v.insert(0, Op::Begin);
            v.push(end);
            v
        });
        let seg = prop_oneof![3 => op_strategy(p).prop_map(|o| vec![o]), 2 => block];
        let n = (p.max_ops / 4).max(2);
        return (tables, proptest::collection::vec(seg, 1..=n))
            .prop_map(|(tables, segs)| History { tables, ops: segs.into_iter().flatten().collect() })
            .boxed();
    }
    (tables, proptest::collection::vec(op_strategy(p), 1..=p.max_ops)).prop_map(|(tables, ops)| History { tables, ops }).boxed()
}

fn cmp_from(b: u8) -> CmpOp {
    match b % 6 {
        0 => CmpOp::Lt,
        1 => CmpOp::Le,
        2 => CmpOp::Gt,
        3 => CmpOp::Ge,
        4 => CmpOp::Eq,
        _ => CmpOp::Ne,
    }
}

/// derive a CHECK expression from two generated bytes (keeps `table_strategy` flat)
fn check_from_bits(a: u8, b: u8) -> CheckSpec {
    let c1 = CheckSpec::Cmp(cmp_from(a), b % 10);
    match a / 64 {
        0 | 1 => c1,
        2 => CheckSpec::And(Box::new(CheckSpec::Cmp(cmp_from(a / 6), (b / 2) % 10)), Box::new(c1)),
        _ => CheckSpec::Or(Box::new(CheckSpec::Cmp(cmp_from(a / 6), (b / 3) % 10)), Box::new(c1)),
    }
}
