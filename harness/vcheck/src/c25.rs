//! C25 HNSW search returns live, correctly ranked neighbours.
//!
//! G: histories over `PersistentHnswIndex` in a scratch directory: create (dim 2..8,
//! m 2/4/8/16, ef_construction 1/2/8/32/100; the small widths give sparse, tree-like graphs), insert (row ids 1,2,3..; the level-choice random
//! value is derived from a generated level so the case is deterministic), delete of a
//! generated live row, delete of the row that currently is the entry point, re-insert of a
//! live row id with a new vector (what UPDATE does: delete_by_row_id + insert),
//! `vacuum_batch`, `sync` + drop + `open`, and searches with generated query, k and ef.
//! Insert is driven both ways real code drives it: `insert` (no vector callback; this is
//! what the SQL layer calls) and `insert_with_callback` with the live vectors.
//!
//! O: model `HashMap<row_id, vector>` of live vectors; `get_vector` given to search is the
//! model lookup (None for deleted rows, as a table lookup would be). Every search result:
//! at most k rows, distinct row ids, all live, non-decreasing true (f64) distance within
//! f32 rounding; non-empty when a live vector exists and k >= 1; when the number of live
//! vectors is <= ef the result is the exact top-k (min(k, live) rows, none farther than an
//! omitted live row). At a reopen the same probe searches must return the same row ids
//! before and after. SQ8: decode(from_f32(v)) within one step (max-min)/255 of v.

use std::collections::{BTreeMap, HashSet};

use proptest::prelude::*;
use serde::{Deserialize, Serialize};
use turdb::hnsw::quantization::SQ8Vector;
use turdb::hnsw::search::HnswSearchContext;
use turdb::hnsw::{DistanceFunction, PersistentHnswIndex, QuantizationType};
use vcore::{Check, Ctx, Outcome, Tier};

#[derive(Debug, Clone, Serialize, Deserialize)]
pub enum Op {
    /// insert the next row id with this vector (f32 bits) at this level
    Insert { v: Vec<u32>, level: u8 },
    /// delete a live row chosen by sel
    Delete { sel: u16 },
    /// delete the row that is the current entry point
    DeleteEntry,
    /// delete_by_row_id + insert of the same row id with a new vector (UPDATE)
    Reinsert { sel: u16, v: Vec<u32>, level: u8 },
    Vacuum { max: u16 },
    /// sync + drop + open; the probes are searched (k = 5) with this width before and after
    Reopen { ef: u16 },
    Search { q: Vec<u32>, k: u8, ef: u16 },
}

#[derive(Debug, Clone, Serialize, Deserialize)]
pub enum Case {
    History {
        dim: u8,
        m: u16,
        ef_construction: u16,
        /// true: insert_with_callback(model lookup); false: insert() as the SQL layer does
        with_vectors: bool,
        ops: Vec<Op>,
        /// searched at the end and around every reopen
        probes: Vec<Vec<u32>>,
        /// search width of the final probe searches (k = 10)
        probe_ef: u16,
    },
    Sq8 { v: Vec<u32> },
}

pub struct C25;

const EPS: f64 = f32::EPSILON as f64;

fn f(v: &[u32]) -> Vec<f32> {
    v.iter().map(|b| f32::from_bits(*b)).collect()
}

/// squared L2 in f64 and its f32 rounding tolerance
fn dist(a: &[f32], b: &[f32]) -> (f64, f64) {
    let mut s = 0.0f64;
    for (x, y) in a.iter().zip(b.iter()) {
        let d = *x as f64 - *y as f64;
        s += d * d;
    }
    (s, (a.len() as f64 + 4.0) * EPS * s + a.len() as f64 * 1.5e-45)
}

/// random value for which `select_level(r, 1/ln m)` yields `level`
fn random_for_level(level: u8, m: u16) -> f64 {
    let ml = 1.0 / (m as f64).ln();
    (-(level as f64 + 0.5) / ml).exp()
}

struct State {
    live: BTreeMap<u64, Vec<f32>>,
    ever: HashSet<u64>,
    next_row: u64,
    deletes: u32,
    vacuums_after_delete: u32,
    reopens: u32,
    entry_deleted: bool,
    reinserts: u32,
    max_live: usize,
    /// nodes ever allocated in the index (inserts + re-inserts)
    nodes_inserted: usize,
    /// (row id, node id) of every node allocated, for diagnostics
    nodes: Vec<(u64, turdb::hnsw::NodeId)>,
}

impl State {
    fn tags(&self) -> String {
        let mut t = Vec::new();
        if self.deletes == 0 && self.reinserts == 0 {
            t.push("no_delete");
        } else {
            t.push("after_delete");
        }
        if self.entry_deleted {
            t.push("entry_point_deleted");
        }
        if self.vacuums_after_delete > 0 {
            t.push("vacuumed");
        }
        if self.reopens > 0 {
            t.push("reopened");
        }
        t.join("+")
    }
}

/// Where is `row` in the level-0 graph: its node, its out-neighbours and the nodes that list it.
fn graph_diag(idx: &PersistentHnswIndex, st: &State, row: u64) -> String {
    let Some(nid) = idx.find_node_by_row_id(row) else { return format!("row {} has no node in the row-id map", row) };
    let name = |n: turdb::hnsw::NodeId| -> String {
        match st.nodes.iter().rev().find(|(_, id)| *id == n) {
            Some((r, _)) => {
                let live = idx.find_node_by_row_id(*r) == Some(n) && st.live.contains_key(r);
                format!("{}:{}(row {}{})", n.page_no(), n.slot_index(), r, if live { "" } else { ", deleted" })
            }
            None => format!("{}:{}(?)", n.page_no(), n.slot_index()),
        }
    };
    let outs: Vec<String> = idx.read_node(nid).map(|n| n.neighbors_at_level(0).iter().map(|x| name(*x)).collect()).unwrap_or_default();
    let ins: Vec<String> = st
        .nodes
        .iter()
        .filter(|(_, id)| idx.read_node(*id).map(|n| n.neighbors_at_level(0).contains(&nid)).unwrap_or(false))
        .map(|(_, id)| name(*id))
        .collect();
    format!("row {} is node {}; level-0 out-neighbours {:?}; listed by {:?}; entry point {:?}", row, name(nid), outs, ins, idx.index().entry_point().map(name))
}

fn search_checked(
    idx: &PersistentHnswIndex,
    st: &State,
    q: &[f32],
    k: usize,
    ef: usize,
    with_vectors: bool,
    out: &mut Outcome,
    what: &str,
) -> Option<Vec<u64>> {
    let mut ctx = HnswSearchContext::new(ef, 1024);
    let live = &st.live;
    let res = match idx.search(q, k, &mut ctx, |row| live.get(&row).cloned()) {
        Ok(r) => r,
        Err(e) => {
            out.set_fail(format!("C25|search|error|{}", st.tags()), format!("{}: search(k={}, ef={}) failed: {}", what, k, ef, e));
            return None;
        }
    };
    let ids: Vec<u64> = res.iter().map(|r| r.row_id).collect();
    let mode = if with_vectors { "insert_with_callback" } else { "plain_insert" };
    let ctxs = format!("{} (k={}, ef={}, live={}, {}, {})", what, k, ef, live.len(), mode, st.tags());
    if ids.len() > k {
        out.set_fail("C25|search|more_than_k", format!("{}: {} results: {:?}", ctxs, ids.len(), ids));
        return None;
    }
    let mut seen = HashSet::new();
    for id in &ids {
        if !seen.insert(*id) {
            out.set_fail(format!("C25|search|duplicate_row_id|{}", st.tags()), format!("{}: row id {} twice in {:?}", ctxs, id, ids));
            return None;
        }
    }
    for id in &ids {
        if !live.contains_key(id) {
            let kind = if st.ever.contains(id) { "deleted_row_returned" } else { "unknown_row_returned" };
            out.set_fail(
                format!("C25|search|{}|{}", kind, st.tags()),
                format!("{}: result {:?} contains row id {} which is not live (live ids: {:?})", ctxs, ids, id, live.keys().take(40).collect::<Vec<_>>()),
            );
            return None;
        }
    }
    // ordered by true distance
    let ds: Vec<(f64, f64)> = ids.iter().map(|id| dist(q, &live[id])).collect();
    let mut run = f64::NEG_INFINITY;
    for (i, (d, t)) in ds.iter().enumerate() {
        if run > d + t {
            out.set_fail(
                format!("C25|search|not_sorted|{}", st.tags()),
                format!("{}: result {:?} has squared distances {:?}; position {} is nearer than an earlier row", ctxs, ids, ds.iter().map(|x| x.0).collect::<Vec<_>>(), i),
            );
            return None;
        }
        run = run.max(d - t);
    }
    if !live.is_empty() && k >= 1 && ids.is_empty() {
        out.set_fail(
            format!("C25|search|empty_with_live_vectors|{}", st.tags()),
            format!("{}: no result although {} vectors are live (entry point {:?})", ctxs, live.len(), idx.index().entry_point()),
        );
        return None;
    }
    if live.len() <= ef && k >= 1 {
        out.add_class("search:live<=ef");
        let want = k.min(live.len());
        let far = ds.iter().map(|(d, t)| d - t).fold(f64::NEG_INFINITY, f64::max);
        let omitted_near = live
            .iter()
            .filter(|(id, _)| !seen.contains(*id))
            .map(|(id, v)| {
                let (d, t) = dist(q, v);
                (d + t, *id, d)
            })
            .fold(None, |m: Option<(f64, u64, f64)>, x| match m {
                Some(y) if y.0 <= x.0 => Some(y),
                _ => Some(x),
            });
        let size = if st.nodes_inserted > 33 { "n>33" } else { "n<=33" };
        if ids.len() != want {
            out.set_fail(
                format!("C25|search|missed_live_vector_within_ef|{}|{}|{}", mode, size, st.tags()),
                format!("{}: the search width covers all {} live vectors, expected the exact top-{} but got {} rows {:?}; nearest omitted: {:?}; {}", ctxs, live.len(), want, ids.len(), ids, omitted_near.map(|x| (x.1, x.2)), omitted_near.map(|x| graph_diag(idx, st, x.1)).unwrap_or_default()),
            );
            return None;
        }
        if let Some((near, id, d)) = omitted_near {
            if far > near {
                out.set_fail(
                    format!("C25|search|not_the_nearest_within_ef|{}|{}|{}", mode, size, st.tags()),
                    format!("{}: result {:?} (squared distances {:?}) omits live row {} at squared distance {:e}; {}", ctxs, ids, ds.iter().map(|x| x.0).collect::<Vec<_>>(), id, d, graph_diag(idx, st, id)),
                );
                return None;
            }
        }
    } else {
        out.add_class("search:live>ef");
    }
    Some(ids)
}

fn sq8_check(v: &[f32], out: &mut Outcome) {
    if v.is_empty() {
        return;
    }
    let q = SQ8Vector::from_f32(v);
    let mut buf = vec![0u8; q.serialized_size()];
    q.write_to(&mut buf);
    let back = match SQ8Vector::read_from(&buf, v.len()) {
        Ok(b) => b,
        Err(e) => {
            out.set_fail("C25|sq8|read_from_failed", format!("{:?}: {}", v, e));
            return;
        }
    };
    let dec = back.decode();
    let (mn, mx) = v.iter().fold((f64::INFINITY, f64::NEG_INFINITY), |(a, b), x| (a.min(*x as f64), b.max(*x as f64)));
    let step = (mx - mn) / 255.0;
    let slack = 8.0 * EPS * mn.abs().max(mx.abs());
    if dec.len() != v.len() {
        out.set_fail("C25|sq8|length", format!("{:?} decodes to {} components", v, dec.len()));
        return;
    }
    for (i, (d, x)) in dec.iter().zip(v.iter()).enumerate() {
        let err = (*d as f64 - *x as f64).abs();
        if !(err <= step + slack) {
            out.set_fail(
                "C25|sq8|decode_error_exceeds_step",
                format!("component {} of {:?}: decoded {:e}, original {:e}, error {:e} > step {:e}", i, v, d, x, err, step),
            );
            return;
        }
    }
}

impl Check for C25 {
    type Case = Case;
    fn run(&self, case: &Case) -> Outcome {
        let mut out = Outcome::ok();
        // development aid: a process abort inside the code under test (e.g. a failed huge
        // allocation) cannot be caught; with VERIF_TRACE_CASES=<dir> the case is saved first
        if let Ok(d) = std::env::var("VERIF_TRACE_CASES") {
            let _ = std::fs::write(
                format!("{}/last-{:?}.json", d, std::thread::current().id()),
                serde_json::json!({"property": "C25", "case": case}).to_string(),
            );
        }
        let (dim, m, ef_construction, with_vectors, ops, probes, probe_ef) = match case {
            Case::Sq8 { v } => {
                let v = f(v);
                sq8_check(&v, &mut out);
                out.add_class("sq8");
                if v.len() >= 2 && v.iter().any(|x| *x != v[0]) {
                    out.nontrivial = Some(vcore::hash_of(&v.iter().map(|x| x.to_bits()).collect::<Vec<_>>()));
                }
                return out;
            }
            Case::History { dim, m, ef_construction, with_vectors, ops, probes, probe_ef } => (*dim as usize, *m, *ef_construction, *with_vectors, ops, probes, (*probe_ef).max(1)),
        };
        if dim == 0 {
            return out;
        }
        let dir = vcore::tmp::TempDir::new("c25");
        let path = dir.join("t_idx.hnsw");
        let mut idx = match PersistentHnswIndex::create(&path, 1, 1, dim as u16, m, ef_construction, 32, DistanceFunction::L2, QuantizationType::None) {
            Ok(i) => i,
            Err(e) => {
                out.set_fail("C25|create|error", format!("{}", e));
                return out;
            }
        };
        let mut st = State {
            live: BTreeMap::new(),
            ever: HashSet::new(),
            next_row: 1,
            deletes: 0,
            vacuums_after_delete: 0,
            reopens: 0,
            entry_deleted: false,
            reinserts: 0,
            max_live: 0,
            nodes_inserted: 0,
            nodes: Vec::new(),
        };
        let mut pending_delete_since_vacuum = false;
        let mut nontrivial_search = false;
        let probes: Vec<Vec<f32>> = probes.iter().map(|p| f(p)).filter(|p| p.len() == dim).collect();
        let fix = |v: &[u32]| -> Vec<f32> {
            let mut x = f(v);
            x.resize(dim, 0.0);
            x
        };

        // one insert through the chosen API
        fn do_insert(idx: &mut PersistentHnswIndex, st: &mut State, row: u64, v: &[f32], level: u8, m: u16, with_vectors: bool) -> eyre::Result<()> {
            let r = random_for_level(level, m);
            let id = if with_vectors {
                let live = &st.live;
                idx.insert_with_callback(row, v, r, |id| live.get(&id).cloned())?
            } else {
                idx.insert(row, v, r)?
            };
            st.nodes.push((row, id));
            Ok(())
        }

        let all_ops: Vec<Op> = ops
            .iter()
            .cloned()
            .chain(probes.iter().map(|p| Op::Search { q: p.iter().map(|x| x.to_bits()).collect(), k: 10, ef: probe_ef }))
            .collect();
        let dump = std::env::var("VERIF_C25_DUMP").is_ok();
        'ops: for (oi, op) in all_ops.iter().enumerate() {
            if dump {
                // development aid: level-0 adjacency before every operation
                let mut g = String::new();
                for (row, id) in &st.nodes {
                    let outs: Vec<String> = idx.read_node(*id).map(|n| n.neighbors_at_level(0).iter().map(|x| format!("{}", x.slot_index())).collect()).unwrap_or_default();
                    g.push_str(&format!(" {}(r{}{})->[{}]", id.slot_index(), row, if idx.find_node_by_row_id(*row) == Some(*id) && st.live.contains_key(row) { "" } else { "x" }, outs.join(",")));
                }
                eprintln!("before op {} {:?}: entry {:?} queue {}:{}", oi, op, idx.index().entry_point().map(|e| e.slot_index()), idx.vacuum_queue().len(), g);
            }
            match op {
                Op::Insert { v, level } => {
                    let v = fix(v);
                    sq8_check(&v, &mut out);
                    let row = st.next_row;
                    st.next_row += 1;
                    if let Err(e) = do_insert(&mut idx, &mut st, row, &v, *level, m, with_vectors) {
                        out.set_fail(
                            format!("C25|insert|error|{}", st.tags()),
                            format!("op {}: insert(row {}, level {}) failed: {} (live={}, entry point {:?})", oi, row, level, e, st.live.len(), idx.index().entry_point()),
                        );
                        break 'ops;
                    }
                    st.live.insert(row, v);
                    st.ever.insert(row);
                    st.nodes_inserted += 1;
                    st.max_live = st.max_live.max(st.live.len());
                }
                Op::Delete { sel } | Op::Reinsert { sel, .. } => {
                    if st.live.is_empty() {
                        continue;
                    }
                    let row = *st.live.keys().nth(vcore::idx(*sel, st.live.len())).unwrap();
                    let is_entry = idx.index().entry_point().and_then(|ep| idx.find_node_by_row_id(row).map(|n| n == ep)).unwrap_or(false);
                    if let Err(e) = idx.delete_by_row_id(row) {
                        out.set_fail(format!("C25|delete|error|{}", st.tags()), format!("op {}: delete_by_row_id({}) failed: {}", oi, row, e));
                        break 'ops;
                    }
                    st.live.remove(&row);
                    st.deletes += 1;
                    pending_delete_since_vacuum = true;
                    if is_entry {
                        st.entry_deleted = true;
                    }
                    if let Op::Reinsert { v, level, .. } = op {
                        let v = fix(v);
                        st.reinserts += 1;
                        st.nodes_inserted += 1;
                        if let Err(e) = do_insert(&mut idx, &mut st, row, &v, *level, m, with_vectors) {
                            out.set_fail(
                                format!("C25|insert|error|{}", st.tags()),
                                format!("op {}: re-insert of row {} after delete failed: {} (entry point {:?})", oi, row, e, idx.index().entry_point()),
                            );
                            break 'ops;
                        }
                        st.live.insert(row, v);
                    }
                }
                Op::DeleteEntry => {
                    let Some(ep) = idx.index().entry_point() else { continue };
                    let Some(row) = st.live.keys().copied().find(|r| idx.find_node_by_row_id(*r) == Some(ep)) else { continue };
                    if let Err(e) = idx.delete_by_row_id(row) {
                        out.set_fail(format!("C25|delete|error|{}", st.tags()), format!("op {}: delete_by_row_id({}) (entry point) failed: {}", oi, row, e));
                        break 'ops;
                    }
                    st.live.remove(&row);
                    st.deletes += 1;
                    st.entry_deleted = true;
                    pending_delete_since_vacuum = true;
                }
                Op::Vacuum { max } => {
                    match idx.vacuum_batch((*max as usize).max(1)) {
                        Ok(n) => {
                            if n > 0 && pending_delete_since_vacuum {
                                st.vacuums_after_delete += 1;
                            }
                        }
                        Err(e) => {
                            out.set_fail(format!("C25|vacuum|error|{}", st.tags()), format!("op {}: vacuum_batch({}) failed: {}", oi, max, e));
                            break 'ops;
                        }
                    }
                    if idx.vacuum_queue().is_empty() {
                        pending_delete_since_vacuum = false;
                    }
                }
                Op::Reopen { ef } => {
                    let reopen_ef = (*ef as usize).max(1);
                    let mut before = Vec::new();
                    for p in &probes {
                        before.push(search_checked(&idx, &st, p, 5, reopen_ef, with_vectors, &mut out, &format!("op {} probe before reopen", oi)));
                        if out.failure.is_some() {
                            break 'ops;
                        }
                    }
                    if let Err(e) = idx.sync() {
                        out.set_fail("C25|sync|error", format!("op {}: {}", oi, e));
                        break 'ops;
                    }
                    drop(idx);
                    idx = match PersistentHnswIndex::open(&path) {
                        Ok(i) => i,
                        Err(e) => {
                            out.set_fail(format!("C25|open|error|{}", st.tags()), format!("op {}: open after sync failed: {}", oi, e));
                            return out;
                        }
                    };
                    st.reopens += 1;
                    for (p, b) in probes.iter().zip(before.iter()) {
                        // compare raw results (not re-checked here; the later searches check them)
                        let mut ctx = HnswSearchContext::new(reopen_ef, 1024);
                        let live = &st.live;
                        let after: Option<Vec<u64>> = idx.search(p, 5, &mut ctx, |row| live.get(&row).cloned()).ok().map(|r| r.iter().map(|x| x.row_id).collect());
                        if *b != after {
                            out.set_fail(
                                format!("C25|reopen|results_differ|{}", st.tags()),
                                format!("op {}: search({:?}, k=5, ef={}) returned {:?} before sync+reopen and {:?} after (live={})", oi, p, reopen_ef, b, after, st.live.len()),
                            );
                            break 'ops;
                        }
                    }
                }
                Op::Search { q, k, ef } => {
                    let q = fix(q);
                    let r = search_checked(&idx, &st, &q, *k as usize, (*ef as usize).max(1), with_vectors, &mut out, &format!("op {}", oi));
                    if r.is_none() && out.failure.is_some() {
                        break 'ops;
                    }
                    if st.vacuums_after_delete > 0 || st.reopens > 0 {
                        nontrivial_search = true;
                    }
                }
            }
        }
        drop(idx);
        out.add_class(if with_vectors { "mode:insert_with_callback" } else { "mode:plain_insert" });
        out.add_class(match st.nodes_inserted {
            0 => "nodes=0",
            1..=9 => "nodes=1..9",
            10..=33 => "nodes=10..33",
            34..=99 => "nodes=34..99",
            _ => "nodes>=100",
        });
        if st.deletes > 0 {
            out.add_class("has_delete");
        }
        if st.entry_deleted {
            out.add_class("entry_point_deleted");
        }
        if st.vacuums_after_delete > 0 {
            out.add_class("vacuum_after_delete");
        }
        if st.reopens > 0 {
            out.add_class("reopen");
        }
        if st.reinserts > 0 {
            out.add_class("reinsert");
        }
        if nontrivial_search {
            out.nontrivial = Some(vcore::hash_of(&format!("{:?}", case)));
        }
        out
    }
}

// ---------------------------------------------------------------------------------------
// generators
// ---------------------------------------------------------------------------------------

fn coord() -> impl Strategy<Value = f32> {
    prop_oneof![
        5 => (-8i32..=8).prop_map(|i| i as f32 / 2.0),
        3 => (-1.0f32..1.0),
        1 => (-100.0f32..100.0),
        1 => Just(0.0f32),
    ]
}

fn vecs(dim: usize) -> impl Strategy<Value = Vec<u32>> {
    proptest::collection::vec(coord(), dim).prop_map(|v| v.iter().map(|x| x.to_bits()).collect())
}

fn level() -> impl Strategy<Value = u8> {
    prop_oneof![12 => Just(0u8), 4 => Just(1u8), 2 => Just(2u8), 1 => Just(3u8), 1 => 4u8..=6]
}

/// Gates (open findings): names of history features the strategy must not produce.
#[derive(Clone, Default)]
pub struct Gates {
    pub no_delete: bool,
    pub no_plain_insert: bool,
    /// `search.ef_covers_index_over_33_vectors`: once more than 33 vectors have been
    /// inserted into an index, no search may have ef >= the number of live vectors
    /// (counted through the Ctx when a case had to be rewritten)
    pub no_covering_search_over_33: Option<std::sync::Arc<Ctx>>,
}

/// Enforce the gate by construction: walk the history with a lower bound of the live count
/// and shrink (or drop) every search whose width could cover the index.
fn restrict_covering_searches(ops: Vec<Op>, probe_ef: u16, probes: Vec<Vec<u32>>) -> (Vec<Op>, u16, Vec<Vec<u32>>, bool) {
    let mut inserted = 0usize;
    let mut live_lb = 0usize;
    let mut changed = false;
    let mut out = Vec::with_capacity(ops.len());
    for op in ops {
        match op {
            Op::Insert { .. } => {
                inserted += 1;
                live_lb += 1;
                out.push(op);
            }
            Op::Reinsert { .. } => {
                inserted += 1;
                out.push(op);
            }
            Op::Delete { .. } | Op::DeleteEntry => {
                live_lb = live_lb.saturating_sub(1);
                out.push(op);
            }
            Op::Search { q, k, ef } if inserted > 33 => {
                if (ef as usize) < live_lb {
                    out.push(Op::Search { q, k, ef });
                } else if live_lb >= 2 {
                    changed = true;
                    out.push(Op::Search { q, k, ef: (live_lb - 1) as u16 });
                } else {
                    changed = true;
                }
            }
            Op::Reopen { ef } if inserted > 33 => {
                // the probes around a reopen are searches too
                if (ef as usize) < live_lb {
                    out.push(Op::Reopen { ef });
                } else if live_lb >= 2 {
                    changed = true;
                    out.push(Op::Reopen { ef: (live_lb - 1) as u16 });
                } else {
                    changed = true;
                }
            }
            other => out.push(other),
        }
    }
    if inserted > 33 {
        if live_lb >= 2 {
            let ef = probe_ef.min((live_lb - 1) as u16);
            if ef != probe_ef {
                changed = true;
            }
            return (out, ef, probes, changed);
        }
        return (out, 1, Vec::new(), true);
    }
    (out, probe_ef, probes, changed)
}

fn history(max_ops: usize, g: Gates) -> BoxedStrategy<Case> {
    let g2 = g.clone();
    let dim = 2usize..=8;
    (dim, prop_oneof![Just(2u16), Just(4u16), Just(8), Just(16), Just(16)], prop_oneof![Just(1u16), Just(2), Just(8), Just(32), Just(100)], any::<bool>(), any::<bool>(), prop_oneof![3 => 1usize..=40, 1 => 1usize..=max_ops])
        .prop_flat_map(move |(dim, m, efc, with_vectors, force_entry_delete, n_ops)| {
            let g = g.clone();
            let del_w = if g.no_delete { 0 } else { 1 };
            let no_plain_insert = g.no_plain_insert;
            let op = prop_oneof![
                10 => (vecs(dim), level()).prop_map(|(v, level)| Op::Insert { v, level }),
                2 * del_w => any::<u16>().prop_map(|sel| Op::Delete { sel }),
                (if force_entry_delete { 2 } else { 0 }) * del_w + del_w => Just(Op::DeleteEntry),
                del_w => (any::<u16>(), vecs(dim), level()).prop_map(|(sel, v, level)| Op::Reinsert { sel, v, level }),
                2 * del_w => prop_oneof![Just(1u16), Just(1000u16), 1u16..8].prop_map(|max| Op::Vacuum { max }),
                1 => prop_oneof![Just(4u16), Just(32u16), Just(400u16)].prop_map(|ef| Op::Reopen { ef }),
                3 => (vecs(dim), prop_oneof![Just(1u8), 1u8..=12, Just(50u8)], prop_oneof![Just(1u16), Just(4), Just(16), Just(32), Just(64), Just(400)]).prop_map(|(q, k, ef)| Op::Search { q, k, ef }),
            ];
            (
                Just(dim as u8),
                Just(m),
                Just(efc),
                Just(with_vectors || no_plain_insert),
                proptest::collection::vec(op, n_ops),
                proptest::collection::vec(vecs(dim), 1..=3),
            )
        })
        .prop_map(move |(dim, m, ef_construction, with_vectors, ops, probes)| {
            let (ops, probe_ef, probes) = match &g2.no_covering_search_over_33 {
                Some(ctx) => {
                    let (ops, ef, probes, changed) = restrict_covering_searches(ops, 400, probes);
                    if changed {
                        ctx.gated_out("search.ef_covers_index_over_33_vectors", 1);
                    }
                    (ops, ef, probes)
                }
                None => (ops, 400, probes),
            };
            Case::History { dim, m, ef_construction, with_vectors, ops, probes, probe_ef }
        })
        .boxed()
}

fn sq8_strategy() -> BoxedStrategy<Case> {
    (1usize..=64)
        .prop_flat_map(|d| {
            proptest::collection::vec(
                prop_oneof![
                    4 => (-1.0f32..1.0),
                    2 => (-1000.0f32..1000.0),
                    1 => (-8i32..=8).prop_map(|i| i as f32),
                    1 => prop_oneof![Just(1.0e18f32), Just(-1.0e18f32), Just(0.0f32), Just(1.0e-9f32)],
                ],
                d,
            )
        })
        .prop_map(|v| Case::Sq8 { v: v.iter().map(|x| x.to_bits()).collect() })
        .boxed()
}

pub fn strategy(max_ops: usize, g: Gates) -> BoxedStrategy<Case> {
    prop_oneof![
        9 => history(max_ops, g),
        1 => sq8_strategy(),
    ]
    .boxed()
}

pub fn main(tier: Tier, replay: Option<String>) -> i32 {
    if let Some(p) = replay {
        return vcore::replay_file("C25", &C25, &p);
    }
    let ctx = Ctx::new("C25", tier, "exploration");
    ctx.set_rule(
        "proptest-generated histories on a PersistentHnswIndex file (dim 2..8, m 2/4/8/16, ef_construction 1/2/8/32/100, up to 300 operations): insert at a generated level (0..6), \
         delete of a live row, delete of the current entry point (forced weight in half of the cases), re-insert of a live row id (UPDATE), vacuum_batch(1/1000/small), sync+reopen, \
         search(q, k in 1..12/50, ef in 1/4/16/32/64/400); every history ends with probe searches (k=10, ef=400 => exact top-k expected) and probes run before/after each reopen. \
         Plus SQ8 encode/decode cases (dim 1..64). Non-trivial = a search performed after >= 1 delete followed by a vacuum, or after a reopen; distinct by hash of the case.",
    );
    ctx.assume("get_vector passed to search is the table lookup: Some(vector) for live rows, None for deleted rows; vectors are finite with |x| <= 100");
    ctx.assume("'search width covers the index' is taken as: number of live vectors <= ef of the HnswSearchContext");
    ctx.assume("the level-choice random value is supplied by the harness (exp(-(level+0.5)·ln m)), levels 0..6");
    let g = Gates {
        no_delete: ctx.gate_closed("history.delete"),
        no_plain_insert: ctx.gate_closed("history.plain_insert"),
        no_covering_search_over_33: if ctx.gate_closed("search.ef_covers_index_over_33_vectors") { Some(ctx.clone()) } else { None },
    };
    let cases = tier.pick(6_000, 150_000);
    let max_ops = tier.pick(300, 300);
    vcore::drive(&ctx, &C25, || strategy(max_ops, g.clone()), cases, 16);
    ctx.finish()
}
