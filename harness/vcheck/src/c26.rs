//! C26 Index key encoding preserves order and is invertible.
//!
//! G: pairs of k-tuples (k = 1..3) of values of every encodable type, built so that pairs
//! are often equal up to a late difference (shared byte prefixes), straddle sign / zero /
//! infinity classes, or contain 0x00 / 0xFF runs and prefix relations.
//! O: an independent value order written from the module documentation (type rank table,
//! numeric order with NaN last, bytewise text/blob order, lexicographic tuples/arrays);
//! `memcmp(enc a, enc b)` must have the sign of that order; equal encodings only for equal
//! values (integer 0 / float +-0 share a key, as documented); `decode_key(enc v)` returns v
//! and consumes every byte.

use std::cmp::Ordering;

use proptest::prelude::*;
use serde::{Deserialize, Serialize};
use turdb::encoding::key as k;
use vcore::{Check, Ctx, Outcome, Tier};

#[derive(Debug, Clone, Serialize, Deserialize, PartialEq)]
pub enum V {
    Null,
    Bool(bool),
    Int(i64),
    /// f64 as bits so that NaN / -0.0 survive JSON
    Float(u64),
    Text(String),
    Blob(Vec<u8>),
    Date(i32),
    Time(i64),
    Timestamp(i64),
    TimestampTz(i64, i16),
    Interval(i32, i32, i64),
    Uuid([u8; 16]),
    Inet4([u8; 4], u8),
    Inet6([u8; 16], u8),
    Mac([u8; 6]),
    Enum(u32, u32),
    /// f32 bits
    Vector(Vec<u32>),
    Json(Jv),
    Array(Vec<V>),
    Tuple(Vec<V>),
}

#[derive(Debug, Clone, Serialize, Deserialize, PartialEq)]
pub enum Jv {
    Null,
    Bool(bool),
    Num(u64),
    Str(String),
    Arr(Vec<Jv>),
    Obj(Vec<(String, Jv)>),
}

#[derive(Debug, Clone, Serialize, Deserialize)]
pub struct Case {
    pub a: Vec<V>,
    pub b: Vec<V>,
}

pub struct C26;

// ---------------------------------------------------------------- encode through the public API

fn to_json<'a>(j: &'a Jv, arena: &'a Arena) -> k::JsonValue<'a> {
    match j {
        Jv::Null => k::JsonValue::Null,
        Jv::Bool(b) => k::JsonValue::Bool(*b),
        Jv::Num(n) => k::JsonValue::Number(f64::from_bits(*n)),
        Jv::Str(s) => k::JsonValue::String(s),
        Jv::Arr(_) | Jv::Obj(_) => arena.get(j),
    }
}

/// `JsonValue` borrows slices of children, so nested values are materialised bottom-up
/// into leaked allocations (freed when the arena is dropped).
pub struct Arena {
    arrs: std::cell::RefCell<Vec<*mut [k::JsonValue<'static>]>>,
    objs: std::cell::RefCell<Vec<*mut [(&'static str, k::JsonValue<'static>)]>>,
}

impl Arena {
    fn new() -> Arena {
        Arena { arrs: Default::default(), objs: Default::default() }
    }
    fn get<'a>(&'a self, j: &'a Jv) -> k::JsonValue<'a> {
        match j {
            Jv::Arr(items) => {
                let v: Vec<k::JsonValue<'a>> = items.iter().map(|i| to_json(i, self)).collect();
                // SAFETY: the boxed slice lives until the arena is dropped, and the arena
                // outlives every JsonValue built from it (lifetime 'a).
                let b: Box<[k::JsonValue<'static>]> = unsafe { std::mem::transmute(v.into_boxed_slice()) };
                let p = Box::into_raw(b);
                self.arrs.borrow_mut().push(p);
                k::JsonValue::Array(unsafe { std::mem::transmute::<&[k::JsonValue<'static>], &'a [k::JsonValue<'a>]>(&*p) })
            }
            Jv::Obj(items) => {
                let v: Vec<(&'a str, k::JsonValue<'a>)> = items.iter().map(|(s, i)| (s.as_str(), to_json(i, self))).collect();
                let b: Box<[(&'static str, k::JsonValue<'static>)]> = unsafe { std::mem::transmute(v.into_boxed_slice()) };
                let p = Box::into_raw(b);
                self.objs.borrow_mut().push(p);
                k::JsonValue::Object(unsafe { std::mem::transmute::<&[(&'static str, k::JsonValue<'static>)], &'a [(&'a str, k::JsonValue<'a>)]>(&*p) })
            }
            _ => unreachable!(),
        }
    }
}

impl Drop for Arena {
    fn drop(&mut self) {
        for p in self.arrs.borrow_mut().drain(..) {
            // SAFETY: allocated by Box::into_raw above, dropped exactly once
            unsafe { drop(Box::from_raw(p)) };
        }
        for p in self.objs.borrow_mut().drain(..) {
            unsafe { drop(Box::from_raw(p)) };
        }
    }
}

pub fn encode(v: &V, buf: &mut Vec<u8>) {
    match v {
        V::Null => k::encode_null(buf),
        V::Bool(b) => k::encode_bool(*b, buf),
        V::Int(i) => k::encode_int(*i, buf),
        V::Float(f) => k::encode_float(f64::from_bits(*f), buf),
        V::Text(s) => k::encode_text(s, buf),
        V::Blob(b) => k::encode_blob(b, buf),
        V::Date(d) => k::encode_date(*d, buf),
        V::Time(t) => k::encode_time(*t, buf),
        V::Timestamp(t) => k::encode_timestamp(*t, buf),
        V::TimestampTz(t, z) => k::encode_timestamptz(*t, *z, buf),
        V::Interval(m, d, u) => k::encode_interval(*m, *d, *u, buf),
        V::Uuid(u) => k::encode_uuid(u, buf),
        V::Inet4(a, p) => k::encode_inet(false, a, *p, buf),
        V::Inet6(a, p) => k::encode_inet(true, a, *p, buf),
        V::Mac(m) => k::encode_macaddr(m, buf),
        V::Enum(t, o) => k::encode_enum(*t, *o, buf),
        V::Vector(d) => {
            let f: Vec<f32> = d.iter().map(|b| f32::from_bits(*b)).collect();
            k::encode_vector(&f, buf)
        }
        V::Json(j) => {
            let arena = Arena::new();
            let jv = to_json(j, &arena);
            k::encode_json(&jv, buf);
        }
        V::Array(items) => k::encode_array(items, buf, |e, b| encode(e, b)),
        V::Tuple(items) => k::encode_tuple(items, buf, |e, b| encode(e, b)),
    }
}

// ---------------------------------------------------------------- the documented order

fn rank(v: &V) -> u32 {
    match v {
        V::Null => 0,
        V::Bool(_) => 1,
        V::Int(_) | V::Float(_) => 2,
        V::Text(_) => 3,
        V::Blob(_) => 4,
        V::Date(_) => 5,
        V::Time(_) => 6,
        V::Timestamp(_) => 7,
        V::TimestampTz(..) => 8,
        V::Interval(..) => 9,
        V::Uuid(_) => 10,
        V::Inet4(..) | V::Inet6(..) => 11,
        V::Mac(_) => 12,
        V::Json(_) => 13,
        V::Array(_) => 14,
        V::Tuple(_) => 15,
        V::Enum(..) => 16,
        V::Vector(_) => 17,
    }
}

fn jrank(j: &Jv) -> u32 {
    match j {
        Jv::Null => 0,
        Jv::Bool(false) => 1,
        Jv::Bool(true) => 2,
        Jv::Num(_) => 3,
        Jv::Str(_) => 4,
        Jv::Arr(_) => 5,
        Jv::Obj(_) => 6,
    }
}

/// numeric class: -inf < negative < zero < positive < +inf < NaN
fn fclass(f: f64) -> u32 {
    if f.is_nan() {
        5
    } else if f == f64::NEG_INFINITY {
        0
    } else if f == f64::INFINITY {
        4
    } else if f < 0.0 {
        1
    } else if f == 0.0 {
        2
    } else {
        3
    }
}

fn cmp_f64(a: f64, b: f64) -> Ordering {
    match fclass(a).cmp(&fclass(b)) {
        Ordering::Equal => a.partial_cmp(&b).unwrap_or(Ordering::Equal),
        o => o,
    }
}

/// `None` = the documentation does not order this pair (the check then only requires
/// distinct encodings for distinct values).
fn vcmp(a: &V, b: &V) -> Option<Ordering> {
    let (ra, rb) = (rank(a), rank(b));
    if ra != rb {
        return Some(ra.cmp(&rb));
    }
    Some(match (a, b) {
        (V::Null, V::Null) => Ordering::Equal,
        (V::Bool(x), V::Bool(y)) => x.cmp(y),
        (V::Int(x), V::Int(y)) => x.cmp(y),
        (V::Float(x), V::Float(y)) => cmp_f64(f64::from_bits(*x), f64::from_bits(*y)),
        (V::Int(x), V::Float(y)) | (V::Float(y), V::Int(x)) => {
            // only the sign class is documented across int/float
            let ci = if *x < 0 { 1 } else if *x == 0 { 2 } else { 3 };
            let cf = fclass(f64::from_bits(*y));
            if ci == cf && ci != 2 {
                return None;
            }
            let o = ci.cmp(&cf);
            if matches!(a, V::Int(_)) { o } else { o.reverse() }
        }
        (V::Text(x), V::Text(y)) => x.as_bytes().cmp(y.as_bytes()),
        (V::Blob(x), V::Blob(y)) => x.cmp(y),
        (V::Date(x), V::Date(y)) => x.cmp(y),
        (V::Time(x), V::Time(y)) => x.cmp(y),
        (V::Timestamp(x), V::Timestamp(y)) => x.cmp(y),
        (V::TimestampTz(x, xz), V::TimestampTz(y, yz)) => (x, xz).cmp(&(y, yz)),
        (V::Interval(a1, a2, a3), V::Interval(b1, b2, b3)) => (a1, a2, a3).cmp(&(b1, b2, b3)),
        (V::Uuid(x), V::Uuid(y)) => x.cmp(y),
        (V::Mac(x), V::Mac(y)) => x.cmp(y),
        (V::Inet4(x, xp), V::Inet4(y, yp)) => {
            if xp == yp { x.cmp(y) } else if x == y { xp.cmp(yp) } else { return None }
        }
        (V::Inet6(x, xp), V::Inet6(y, yp)) => {
            if xp == yp { x.cmp(y) } else if x == y { xp.cmp(yp) } else { return None }
        }
        (V::Inet4(..), V::Inet6(..)) => Ordering::Less,
        (V::Inet6(..), V::Inet4(..)) => Ordering::Greater,
        (V::Enum(t1, o1), V::Enum(t2, o2)) => (t1, o1).cmp(&(t2, o2)),
        (V::Vector(x), V::Vector(y)) => {
            if x.len() != y.len() {
                return None;
            }
            for (p, q) in x.iter().zip(y) {
                let (p, q) = (f32::from_bits(*p) as f64, f32::from_bits(*q) as f64);
                match cmp_f64(p, q) {
                    Ordering::Equal => {}
                    o => return Some(o),
                }
            }
            Ordering::Equal
        }
        (V::Json(x), V::Json(y)) => return jcmp(x, y),
        (V::Array(x), V::Array(y)) | (V::Tuple(x), V::Tuple(y)) => return seq_cmp(x, y),
        _ => return None,
    })
}

fn seq_cmp(x: &[V], y: &[V]) -> Option<Ordering> {
    for (p, q) in x.iter().zip(y) {
        match vcmp(p, q)? {
            Ordering::Equal => {
                if !same_value(p, q) {
                    // numerically equal but representation differs (0 vs 0.0): the rest is not ordered by the doc
                    return None;
                }
            }
            o => return Some(o),
        }
    }
    Some(x.len().cmp(&y.len()))
}

fn jcmp(x: &Jv, y: &Jv) -> Option<Ordering> {
    let (rx, ry) = (jrank(x), jrank(y));
    if rx != ry {
        return Some(rx.cmp(&ry));
    }
    Some(match (x, y) {
        (Jv::Num(a), Jv::Num(b)) => cmp_f64(f64::from_bits(*a), f64::from_bits(*b)),
        (Jv::Str(a), Jv::Str(b)) => a.as_bytes().cmp(b.as_bytes()),
        (Jv::Arr(a), Jv::Arr(b)) => {
            for (p, q) in a.iter().zip(b) {
                match jcmp(p, q)? {
                    Ordering::Equal => {}
                    o => return Some(o),
                }
            }
            a.len().cmp(&b.len())
        }
        (Jv::Obj(a), Jv::Obj(b)) => {
            if a == b { Ordering::Equal } else { return None }
        }
        _ => Ordering::Equal,
    })
}

/// equality of values in the sense "must share one key": numeric zero in any spelling
fn same_value(a: &V, b: &V) -> bool {
    match (a, b) {
        (V::Int(0), V::Float(f)) | (V::Float(f), V::Int(0)) => f64::from_bits(*f) == 0.0,
        (V::Float(x), V::Float(y)) => {
            let (x, y) = (f64::from_bits(*x), f64::from_bits(*y));
            (x.is_nan() && y.is_nan()) || x == y
        }
        (V::Vector(x), V::Vector(y)) => x.len() == y.len() && x.iter().zip(y).all(|(p, q)| f32::from_bits(*p) == f32::from_bits(*q)),
        (V::Json(x), V::Json(y)) => jsame(x, y),
        (V::Array(x), V::Array(y)) | (V::Tuple(x), V::Tuple(y)) => x.len() == y.len() && x.iter().zip(y).all(|(p, q)| same_value(p, q)),
        _ => a == b,
    }
}

fn jsame(x: &Jv, y: &Jv) -> bool {
    match (x, y) {
        (Jv::Num(a), Jv::Num(b)) => f64::from_bits(*a) == f64::from_bits(*b),
        (Jv::Arr(a), Jv::Arr(b)) => a.len() == b.len() && a.iter().zip(b).all(|(p, q)| jsame(p, q)),
        (Jv::Obj(a), Jv::Obj(b)) => a.len() == b.len() && a.iter().zip(b).all(|((k1, p), (k2, q))| k1 == k2 && jsame(p, q)),
        _ => x == y,
    }
}

// ---------------------------------------------------------------- decode comparison

fn dec_matches(v: &V, d: &k::DecodedKey) -> bool {
    use k::DecodedKey as D;
    match (v, d) {
        (V::Null, D::Null) => true,
        (V::Bool(a), D::Bool(b)) => a == b,
        (V::Int(a), D::Int(b)) => a == b,
        (V::Float(f), d) => {
            let f = f64::from_bits(*f);
            match d {
                D::Nan => f.is_nan(),
                D::NegInfinity => f == f64::NEG_INFINITY,
                D::PosInfinity => f == f64::INFINITY,
                D::Int(0) => f == 0.0, // documented: zero loses its type
                D::Float(g) => *g == f && !f.is_nan(),
                _ => false,
            }
        }
        (V::Text(a), D::Text(b)) => a == b,
        (V::Blob(a), D::Blob(b)) => a == b,
        (V::Date(a), D::Date(b)) => a == b,
        (V::Time(a), D::Time(b)) => a == b,
        (V::Timestamp(a), D::Timestamp(b)) => a == b,
        (V::TimestampTz(a, z), D::TimestampTz { micros, tz_offset_mins }) => a == micros && z == tz_offset_mins,
        (V::Interval(m, dd, u), D::Interval { months, days, micros }) => m == months && dd == days && u == micros,
        (V::Uuid(a), D::Uuid(b)) => a == b,
        (V::Inet4(a, p), D::Inet { is_ipv6, addr, prefix_len }) => !*is_ipv6 && addr.as_slice() == a && p == prefix_len,
        (V::Inet6(a, p), D::Inet { is_ipv6, addr, prefix_len }) => *is_ipv6 && addr.as_slice() == a && p == prefix_len,
        (V::Mac(a), D::MacAddr(b)) => a == b,
        (V::Enum(t, o), D::Enum { type_id, ordinal }) => t == type_id && o == ordinal,
        (V::Vector(a), D::Vector(b)) => a.len() == b.len() && a.iter().zip(b).all(|(p, q)| f32::from_bits(*p) == *q),
        (V::Json(j), D::Json(dj)) => jdec_matches(j, dj),
        (V::Array(a), D::Array(b)) | (V::Tuple(a), D::Tuple(b)) => a.len() == b.len() && a.iter().zip(b).all(|(p, q)| dec_matches(p, q)),
        _ => false,
    }
}

fn jdec_matches(j: &Jv, d: &k::DecodedJson) -> bool {
    use k::DecodedJson as D;
    match (j, d) {
        (Jv::Null, D::Null) => true,
        (Jv::Bool(a), D::Bool(b)) => a == b,
        (Jv::Num(a), D::Number(b)) => f64::from_bits(*a) == *b,
        (Jv::Str(a), D::String(b)) => a == b,
        (Jv::Arr(a), D::Array(b)) => a.len() == b.len() && a.iter().zip(b).all(|(p, q)| jdec_matches(p, q)),
        (Jv::Obj(a), D::Object(b)) => a.len() == b.len() && a.iter().zip(b).all(|((k1, p), (k2, q))| k1 == k2 && jdec_matches(p, q)),
        _ => false,
    }
}

fn tname(v: &V) -> &'static str {
    match v {
        V::Null => "Null",
        V::Bool(_) => "Bool",
        V::Int(_) => "Int",
        V::Float(_) => "Float",
        V::Text(_) => "Text",
        V::Blob(_) => "Blob",
        V::Date(_) => "Date",
        V::Time(_) => "Time",
        V::Timestamp(_) => "Timestamp",
        V::TimestampTz(..) => "TimestampTz",
        V::Interval(..) => "Interval",
        V::Uuid(_) => "Uuid",
        V::Inet4(..) | V::Inet6(..) => "Inet",
        V::Mac(_) => "Mac",
        V::Enum(..) => "Enum",
        V::Vector(_) => "Vector",
        V::Json(_) => "Json",
        V::Array(_) => "Array",
        V::Tuple(_) => "Tuple",
    }
}

/// feature tags of a value that the known findings are keyed on
fn tags(v: &V, out: &mut Vec<&'static str>) {
    match v {
        V::Vector(d) => {
            if d.iter().any(|b| *b == 0x8000_0000) {
                out.push("vector.neg_zero");
            }
            if d.iter().any(|b| f32::from_bits(*b).is_nan()) {
                out.push("vector.nan");
            }
        }
        V::Json(j) => jtags(j, out),
        V::Array(items) | V::Tuple(items) => {
            if items.is_empty() {
                out.push("seq.empty");
            }
            for i in items {
                tags(i, out);
            }
        }
        _ => {}
    }
}

fn jtags(j: &Jv, out: &mut Vec<&'static str>) {
    match j {
        Jv::Num(n) => {
            if *n == 0x8000_0000_0000_0000 {
                out.push("json.neg_zero");
            }
        }
        Jv::Arr(a) => a.iter().for_each(|x| jtags(x, out)),
        Jv::Obj(o) => {
            if o.first().map(|(k, _)| k.is_empty() || k.starts_with('\0')).unwrap_or(false) {
                out.push("json.object_first_key_empty");
            }
            o.iter().for_each(|(_, x)| jtags(x, out));
        }
        _ => {}
    }
}

fn tagstr(vs: &[&V]) -> String {
    let mut t = Vec::new();
    for v in vs {
        tags(v, &mut t);
    }
    t.sort();
    t.dedup();
    if t.is_empty() { "-".into() } else { t.join("+") }
}

impl Check for C26 {
    type Case = Case;
    fn run(&self, case: &Case) -> Outcome {
        let mut out = Outcome::ok();
        let enc_tuple = |t: &[V]| {
            let mut buf = Vec::new();
            for v in t {
                encode(v, &mut buf);
            }
            buf
        };
        // round trip of every single value, and of the concatenated tuple column by column
        for t in [&case.a, &case.b] {
            let buf = enc_tuple(t);
            let mut off = 0usize;
            for v in t.iter() {
                let mut single = Vec::new();
                encode(v, &mut single);
                match k::decode_key(&single) {
                    Ok((d, used)) => {
                        if used != single.len() {
                            out.set_fail(format!("C26|decode_consumed|{}|{}", tname(v), tagstr(&[v])), format!("value {:?}: encoding has {} bytes, decode consumed {}", v, single.len(), used));
                        } else if !dec_matches(v, &d) {
                            out.set_fail(format!("C26|roundtrip|{}|{}", tname(v), tagstr(&[v])), format!("value {:?} encodes to {:02x?} which decodes to {:?}", v, single, d));
                        }
                    }
                    Err(e) => out.set_fail(format!("C26|decode_err|{}|{}", tname(v), tagstr(&[v])), format!("value {:?} encodes to {:02x?}; decode fails: {}", v, single, e)),
                }
                // column-wise decode of the composite key
                if off <= buf.len() {
                    match k::decode_key(&buf[off..]) {
                        Ok((d, used)) => {
                            if !dec_matches(v, &d) || used != single.len() {
                                out.set_fail(format!("C26|roundtrip_in_tuple|{}|{}", tname(v), tagstr(&[v])), format!("column {:?} inside composite key decodes to {:?} ({} bytes, alone {})", v, d, used, single.len()));
                            }
                            off += used;
                        }
                        Err(e) => {
                            out.set_fail(format!("C26|decode_err_in_tuple|{}|{}", tname(v), tagstr(&[v])), format!("column {:?} inside composite key: {}", v, e));
                            off = usize::MAX;
                        }
                    }
                }
            }
        }
        // order of the pair (column by column)
        let (ea, eb) = (enc_tuple(&case.a), enc_tuple(&case.b));
        let n = case.a.len().min(case.b.len());
        let mut expected: Option<Ordering> = Some(Ordering::Equal);
        let mut decided_at = n;
        for i in 0..n {
            match vcmp(&case.a[i], &case.b[i]) {
                None => {
                    expected = None;
                    decided_at = i;
                    break;
                }
                Some(Ordering::Equal) => {
                    if !same_value(&case.a[i], &case.b[i]) {
                        expected = None;
                        decided_at = i;
                        break;
                    }
                }
                Some(o) => {
                    expected = Some(o);
                    decided_at = i;
                    break;
                }
            }
        }
        if expected == Some(Ordering::Equal) && case.a.len() != case.b.len() {
            // one tuple is a strict prefix of the other: prefix sorts first
            expected = Some(case.a.len().cmp(&case.b.len()));
        }
        let got = ea.cmp(&eb);
        let ta = case.a.get(decided_at).map(tname).unwrap_or("-");
        let tb = case.b.get(decided_at).map(tname).unwrap_or("-");
        let pair_tags = {
            let mut vs: Vec<&V> = Vec::new();
            if let Some(v) = case.a.get(decided_at) { vs.push(v) }
            if let Some(v) = case.b.get(decided_at) { vs.push(v) }
            tagstr(&vs)
        };
        match expected {
            Some(o) => {
                if got != o {
                    let kind = if o == Ordering::Equal { "equal_values_distinct_keys" } else if got == Ordering::Equal { "distinct_values_same_key" } else { "order" };
                    out.set_fail(
                        format!("C26|{}|{}|{}|{}", kind, ta, tb, pair_tags),
                        format!("a={:?} b={:?}: value order {:?}, key order {:?}; enc a={:02x?} enc b={:02x?}", case.a, case.b, o, got, ea, eb),
                    );
                }
            }
            None => {
                // undocumented order: still injective
                if got == Ordering::Equal {
                    out.set_fail(
                        format!("C26|distinct_values_same_key|{}|{}|{}", ta, tb, pair_tags),
                        format!("a={:?} b={:?} encode to the same key {:02x?}", case.a, case.b, ea),
                    );
                }
            }
        }
        let common = ea.iter().zip(&eb).take_while(|(x, y)| x == y).count();
        out.add_class(format!("cmp:{}x{}", ta, tb));
        if common >= 1 && ea != eb {
            out.nontrivial = Some(vcore::hash_of(&(ea.clone(), eb.clone())));
            out.add_class("shared_prefix");
        } else if ta != tb {
            out.nontrivial = Some(vcore::hash_of(&(ea.clone(), eb.clone())));
        }
        out
    }
}

// ---------------------------------------------------------------- generators

fn bytes_adversarial(max: usize) -> impl Strategy<Value = Vec<u8>> {
    proptest::collection::vec(prop_oneof![3 => Just(0u8), 3 => Just(0xFFu8), 2 => Just(1u8), 1 => Just(0xFEu8), 2 => Just(b'a'), 2 => any::<u8>()], 0..max)
}

fn text_adversarial() -> impl Strategy<Value = String> {
    proptest::collection::vec(prop_oneof![3 => Just('\0'), 2 => Just('\u{1}'), 3 => Just('a'), 2 => Just('b'), 1 => Just('\u{7f}'), 1 => Just('é'), 1 => Just('\u{ffff}'), 1 => Just('\u{10ffff}'), 1 => any::<char>()], 0..8)
        .prop_map(|v| v.into_iter().collect())
}

fn f64_bits() -> impl Strategy<Value = u64> {
    prop_oneof![
        4 => any::<u64>(),
        1 => Just(0u64),
        1 => Just(0x8000_0000_0000_0000u64),
        1 => Just(f64::INFINITY.to_bits()),
        1 => Just(f64::NEG_INFINITY.to_bits()),
        1 => Just(f64::NAN.to_bits()),
        1 => Just(1u64),                       // smallest subnormal
        1 => Just(0x8000_0000_0000_0001u64),   // negative subnormal
        1 => Just(f64::MIN_POSITIVE.to_bits()),
        1 => Just(f64::MAX.to_bits()),
        1 => Just(f64::MIN.to_bits()),
        3 => (-5i32..5).prop_map(|i| (i as f64 * 0.5).to_bits()),
    ]
}

fn i64_adv() -> impl Strategy<Value = i64> {
    prop_oneof![
        3 => any::<i64>(),
        3 => -3i64..4,
        1 => Just(i64::MIN), 1 => Just(i64::MAX), 1 => Just(i64::MIN + 1),
        2 => (0u32..63).prop_map(|s| 1i64 << s),
        2 => (0u32..63).prop_map(|s| -(1i64 << s)),
        1 => Just(255i64), 1 => Just(256i64), 1 => Just(-255i64), 1 => Just(-256i64),
    ]
}

fn f32_bits(allow_neg_zero: bool) -> impl Strategy<Value = u32> {
    prop_oneof![
        3 => any::<u32>().prop_map(|b| if f32::from_bits(b).is_nan() { 0x3f80_0000 } else { b }),
        1 => Just(0u32),
        1 => Just(f32::INFINITY.to_bits()),
        1 => Just(f32::NEG_INFINITY.to_bits()),
        1 => Just(1u32),
        1 => Just(0x8000_0001u32),
        3 => (-4i32..5).prop_map(|i| (i as f32 * 0.5).to_bits()),
        1 => Just(1e18f32.to_bits()), 1 => Just((-1e18f32).to_bits()),
    ]
    .prop_map(move |b| if !allow_neg_zero && b == 0x8000_0000 { 0 } else { b })
}

#[derive(Clone, Copy)]
pub struct Gates {
    pub vector_neg_zero: bool,
    pub json_neg_zero: bool,
    pub json_obj_empty_first_key: bool,
}

fn json_strategy(g: Gates) -> impl Strategy<Value = Jv> {
    let leaf = prop_oneof![
        Just(Jv::Null),
        any::<bool>().prop_map(Jv::Bool),
        f64_bits().prop_map(move |b| {
            let f = f64::from_bits(b);
            // JSON numbers are finite
            let b = if f.is_nan() || f.is_infinite() { 1.5f64.to_bits() } else { b };
            if !g.json_neg_zero && b == 0x8000_0000_0000_0000 { Jv::Num(0) } else { Jv::Num(b) }
        }),
        text_adversarial().prop_map(Jv::Str),
    ];
    leaf.prop_recursive(3, 12, 4, move |inner| {
        prop_oneof![
            proptest::collection::vec(inner.clone(), 0..4).prop_map(Jv::Arr),
            proptest::collection::vec((text_adversarial(), inner), 0..3).prop_map(move |mut o| {
                if !g.json_obj_empty_first_key {
                    if let Some(first) = o.first_mut() {
                        if first.0.is_empty() || first.0.starts_with('\0') {
                            first.0.insert(0, 'k');
                        }
                    }
                }
                Jv::Obj(o)
            }),
        ]
    })
}

fn scalar(g: Gates) -> BoxedStrategy<V> {
    prop_oneof![
        1 => Just(V::Null),
        1 => any::<bool>().prop_map(V::Bool),
        4 => i64_adv().prop_map(V::Int),
        4 => f64_bits().prop_map(V::Float),
        4 => text_adversarial().prop_map(V::Text),
        4 => bytes_adversarial(8).prop_map(V::Blob),
        1 => prop_oneof![any::<i32>(), -2i32..3, Just(i32::MIN), Just(i32::MAX)].prop_map(V::Date),
        1 => i64_adv().prop_map(V::Time),
        1 => i64_adv().prop_map(V::Timestamp),
        1 => (i64_adv(), prop_oneof![any::<i16>(), -2i16..3, Just(i16::MIN), Just(i16::MAX)]).prop_map(|(t, z)| V::TimestampTz(t, z)),
        1 => (prop_oneof![any::<i32>(), -2i32..3], prop_oneof![any::<i32>(), -2i32..3], i64_adv()).prop_map(|(m, d, u)| V::Interval(m, d, u)),
        1 => proptest::array::uniform16(prop_oneof![Just(0u8), Just(0xFFu8), any::<u8>()]).prop_map(V::Uuid),
        1 => (proptest::array::uniform4(prop_oneof![Just(0u8), Just(0xFFu8), any::<u8>()]), 0u8..=32).prop_map(|(a, p)| V::Inet4(a, p)),
        1 => (proptest::array::uniform16(prop_oneof![Just(0u8), Just(0xFFu8), any::<u8>()]), 0u8..=128).prop_map(|(a, p)| V::Inet6(a, p)),
        1 => proptest::array::uniform6(prop_oneof![Just(0u8), Just(0xFFu8), any::<u8>()]).prop_map(V::Mac),
        1 => (prop_oneof![0u32..3, any::<u32>()], prop_oneof![0u32..3, any::<u32>()]).prop_map(|(t, o)| V::Enum(t, o)),
        2 => proptest::collection::vec(f32_bits(g.vector_neg_zero), 0..5).prop_map(V::Vector),
        3 => json_strategy(g).prop_map(V::Json),
    ]
    .boxed()
}

fn value(g: Gates) -> BoxedStrategy<V> {
    prop_oneof![
        8 => scalar(g),
        1 => proptest::collection::vec(scalar(g), 0..4).prop_map(V::Array),
        1 => proptest::collection::vec(scalar(g), 0..4).prop_map(V::Tuple),
        1 => proptest::collection::vec(prop_oneof![scalar(g), proptest::collection::vec(scalar(g), 0..3).prop_map(V::Array)], 0..3).prop_map(V::Array),
    ]
    .boxed()
}

/// mutate `v` slightly so that encodings share a long prefix
fn near(v: V, sel: u8, extra: u8) -> V {
    match v {
        V::Int(i) => V::Int(i.wrapping_add(sel as i64 % 3 - 1)),
        V::Float(b) => V::Float(match sel % 3 { 0 => b.wrapping_add(1), 1 => b.wrapping_sub(1), _ => b ^ 0x8000_0000_0000_0000 }),
        V::Text(mut s) => {
            match sel % 4 {
                0 => s.push('\0'),
                1 => s.push('a'),
                2 => { s.pop(); }
                _ => s.push(char::from_u32(extra as u32).unwrap_or('z')),
            }
            V::Text(s)
        }
        V::Blob(mut b) => {
            match sel % 4 {
                0 => b.push(0),
                1 => b.push(0xFF),
                2 => { b.pop(); }
                _ => b.push(extra),
            }
            V::Blob(b)
        }
        V::Date(d) => V::Date(d.wrapping_add(1)),
        V::Time(t) => V::Time(t.wrapping_add(1)),
        V::Timestamp(t) => V::Timestamp(t.wrapping_sub(1)),
        V::TimestampTz(t, z) => if sel % 2 == 0 { V::TimestampTz(t, z.wrapping_add(1)) } else { V::TimestampTz(t.wrapping_add(1), z) },
        V::Interval(m, d, u) => match sel % 3 { 0 => V::Interval(m.wrapping_add(1), d, u), 1 => V::Interval(m, d.wrapping_sub(1), u), _ => V::Interval(m, d, u.wrapping_add(1)) },
        V::Uuid(mut u) => { u[(sel % 16) as usize] ^= extra | 1; V::Uuid(u) }
        V::Mac(mut u) => { u[(sel % 6) as usize] ^= extra | 1; V::Mac(u) }
        V::Inet4(mut a, p) => { a[(sel % 4) as usize] ^= extra | 1; V::Inet4(a, p) }
        V::Inet6(mut a, p) => { a[(sel % 16) as usize] ^= extra | 1; V::Inet6(a, p) }
        V::Enum(t, o) => if sel % 2 == 0 { V::Enum(t, o.wrapping_add(1)) } else { V::Enum(t.wrapping_add(1), o) },
        V::Vector(mut d) => {
            if d.is_empty() { d.push(0x3f80_0000) } else { let i = sel as usize % d.len(); let nb = d[i].wrapping_add(1); d[i] = if f32::from_bits(nb).is_nan() || nb == 0x8000_0000 { 0x3f80_0000 } else { nb }; }
            V::Vector(d)
        }
        V::Array(mut a) => { if sel % 2 == 0 { a.push(V::Int(extra as i64)) } else { a.pop(); } V::Array(a) }
        V::Tuple(mut a) => { if sel % 2 == 0 { a.push(V::Null) } else { a.pop(); } V::Tuple(a) }
        V::Json(j) => V::Json(match j {
            Jv::Str(mut s) => { s.push('a'); Jv::Str(s) }
            Jv::Arr(mut a) => { a.push(Jv::Null); Jv::Arr(a) }
            Jv::Num(b) => { let nb = b.wrapping_add(1); if f64::from_bits(nb).is_finite() && nb != 0x8000_0000_0000_0000 { Jv::Num(nb) } else { Jv::Num(b) } }
            other => other,
        }),
        other => other,
    }
}

pub fn strategy(g: Gates) -> BoxedStrategy<Case> {
    let tuple = proptest::collection::vec(value(g), 1..4);
    prop_oneof![
        // independent tuples
        2 => (tuple.clone(), proptest::collection::vec(value(g), 1..4)).prop_map(|(a, b)| Case { a, b }),
        // b = a with one column nudged
        5 => (tuple.clone(), any::<u8>(), any::<u8>(), any::<u16>()).prop_map(|(a, sel, extra, col)| {
            let mut b = a.clone();
            let i = vcore::idx(col, b.len());
            b[i] = near(b[i].clone(), sel, extra);
            Case { a, b }
        }),
        // b = a with one column replaced, keeping a common prefix of columns
        2 => (tuple.clone(), value(g), any::<u16>()).prop_map(|(a, v, col)| {
            let mut b = a.clone();
            let i = vcore::idx(col, b.len());
            b[i] = v;
            Case { a, b }
        }),
        // same-type scalar pairs
        3 => (scalar(g), any::<u8>(), any::<u8>()).prop_map(|(v, s, e)| Case { a: vec![v.clone()], b: vec![near(v, s, e)] }),
        // tuple that is a strict prefix of the other
        1 => (tuple, value(g)).prop_map(|(a, v)| { let mut b = a.clone(); b.push(v); Case { a, b } }),
    ]
    .boxed()
}

pub fn main(tier: Tier, replay: Option<String>) -> i32 {
    if let Some(p) = replay {
        return vcore::replay_file("C26", &C26, &p);
    }
    let ctx = Ctx::new("C26", tier, "exploration");
    ctx.set_rule(
        "proptest-generated pairs of 1..3-column keys over every encodable type (ints, floats incl. +-0/+-inf/NaN/subnormals, text/blob with 0x00/0xFF runs, \
         date/time/timestamp(tz)/interval, uuid/inet/mac, enum, vectors, JSON to depth 3, arrays/tuples incl. nested); half of the pairs differ by a one-step \
         nudge of one column so the encodings share a long prefix. Non-trivial = the two encodings differ but share >= 1 leading byte, or the deciding columns \
         have different types; distinct by hash of the two encodings.",
    );
    ctx.assume("the value order is the one written in src/encoding/key.rs's module documentation; pairs it does not order (int vs float of the same sign, inet with different prefix length and address, JSON objects, vectors of different dimension) are only required to have distinct keys");
    let g = Gates {
        vector_neg_zero: !ctx.gate_closed("vector.neg_zero"),
        json_neg_zero: !ctx.gate_closed("json.neg_zero"),
        json_obj_empty_first_key: !ctx.gate_closed("json.object_first_key_empty"),
    };
    let cases = tier.pick(2_000_000, 60_000_000);
    vcore::drive(&ctx, &C26, move || strategy(g), cases, 16);
    ctx.finish()
}
