//! C31 Row records round-trip through the record format.
//!
//! G: schemas of 1..64 columns over every `DataType` (CHAR(n)/VARCHAR(n) with lengths,
//! composite columns built with a nested `RecordBuilder`, array columns built with
//! `ArrayBuilder`), two rows per schema (A and B) with NULLs, values at the type's limits,
//! empty strings, a low-frequency class of rows whose variable-width data reaches or exceeds
//! the u16 offset range (65 535 bytes).
//! O: (typed path) every column set with its typed `RecordBuilder` setter and read with the
//! typed `RecordView` getter equals the generated value, NULL bitmap included; `build` and
//! `build_into` give the same bytes; (owned path) the same rows as `OwnedValue`s through
//! `build_record_from_values` / `build_record_with_builder` / `build_record_into_buffer`
//! and back through `extract_row_from_record`, schema made with `create_record_schema` like
//! the DML code does; (reset) building row B after `reset()` on a builder that built row A,
//! and after `into_state().reset().into_builder()`, gives the bytes of a fresh builder.
//! A row whose variable data does not fit the u16 offsets may be refused with `Err`; it may
//! not be accepted and read back differently.

use proptest::prelude::*;
use serde::{Deserialize, Serialize};
use turdb::records::jsonb::{JsonbBuilder, JsonbBuilderValue};
use turdb::records::types::{ColumnDef as RCol, DataType};
use turdb::records::{ArrayBuilder, RecordBuilder, RecordBuilderState, RecordView, Schema};
use turdb::storage::toast::ToastPointer;
use turdb::types::{create_record_schema, OwnedValue};
use vcore::{Check, Ctx, Outcome, Tier};

// ---------------------------------------------------------------- case model

#[derive(Debug, Clone, Copy, Serialize, Deserialize, PartialEq, Eq, Hash)]
pub enum Ty {
    Bool,
    Int2,
    Int4,
    Int8,
    Float4,
    Float8,
    Date,
    Time,
    Timestamp,
    TimestampTz,
    Uuid,
    MacAddr,
    Inet4,
    Inet6,
    Text,
    Blob,
    Vector,
    Jsonb,
    Varchar(Option<u32>),
    Char(u32),
    Decimal,
    Interval,
    Int4Range,
    Int8Range,
    DateRange,
    TimestampRange,
    Enum,
    Point,
    Box,
    Circle,
    Composite,
    Array,
}

impl Ty {
    fn dt(self) -> DataType {
        match self {
            Ty::Bool => DataType::Bool,
            Ty::Int2 => DataType::Int2,
            Ty::Int4 => DataType::Int4,
            Ty::Int8 => DataType::Int8,
            Ty::Float4 => DataType::Float4,
            Ty::Float8 => DataType::Float8,
            Ty::Date => DataType::Date,
            Ty::Time => DataType::Time,
            Ty::Timestamp => DataType::Timestamp,
            Ty::TimestampTz => DataType::TimestampTz,
            Ty::Uuid => DataType::Uuid,
            Ty::MacAddr => DataType::MacAddr,
            Ty::Inet4 => DataType::Inet4,
            Ty::Inet6 => DataType::Inet6,
            Ty::Text => DataType::Text,
            Ty::Blob => DataType::Blob,
            Ty::Vector => DataType::Vector,
            Ty::Jsonb => DataType::Jsonb,
            Ty::Varchar(_) => DataType::Varchar,
            Ty::Char(_) => DataType::Char,
            Ty::Decimal => DataType::Decimal,
            Ty::Interval => DataType::Interval,
            Ty::Int4Range => DataType::Int4Range,
            Ty::Int8Range => DataType::Int8Range,
            Ty::DateRange => DataType::DateRange,
            Ty::TimestampRange => DataType::TimestampRange,
            Ty::Enum => DataType::Enum,
            Ty::Point => DataType::Point,
            Ty::Box => DataType::Box,
            Ty::Circle => DataType::Circle,
            Ty::Composite => DataType::Composite,
            Ty::Array => DataType::Array,
        }
    }
    fn name(self) -> &'static str {
        match self {
            Ty::Bool => "Bool",
            Ty::Int2 => "Int2",
            Ty::Int4 => "Int4",
            Ty::Int8 => "Int8",
            Ty::Float4 => "Float4",
            Ty::Float8 => "Float8",
            Ty::Date => "Date",
            Ty::Time => "Time",
            Ty::Timestamp => "Timestamp",
            Ty::TimestampTz => "TimestampTz",
            Ty::Uuid => "Uuid",
            Ty::MacAddr => "MacAddr",
            Ty::Inet4 => "Inet4",
            Ty::Inet6 => "Inet6",
            Ty::Text => "Text",
            Ty::Blob => "Blob",
            Ty::Vector => "Vector",
            Ty::Jsonb => "Jsonb",
            Ty::Varchar(_) => "Varchar",
            Ty::Char(_) => "Char",
            Ty::Decimal => "Decimal",
            Ty::Interval => "Interval",
            Ty::Int4Range => "Int4Range",
            Ty::Int8Range => "Int8Range",
            Ty::DateRange => "DateRange",
            Ty::TimestampRange => "TimestampRange",
            Ty::Enum => "Enum",
            Ty::Point => "Point",
            Ty::Box => "Box",
            Ty::Circle => "Circle",
            Ty::Composite => "Composite",
            Ty::Array => "Array",
        }
    }
    fn is_var(self) -> bool {
        self.dt().fixed_size().is_none()
    }
    fn rcol(self, i: usize) -> RCol {
        match self {
            Ty::Char(n) => RCol::new_char(format!("c{}", i), n),
            Ty::Varchar(n) => RCol::new_varchar(format!("c{}", i), n),
            t => RCol::new(format!("c{}", i), t.dt()),
        }
    }
}

/// small JSON document for JSONB columns (semantics of JSONB are C32's; here the column
/// bytes must survive)
#[derive(Debug, Clone, Serialize, Deserialize, PartialEq, Hash)]
pub enum Jd {
    Null,
    Bool(bool),
    Num(i32),
    Str(String),
    Arr(Vec<Jd>),
    Obj(Vec<(String, Jd)>),
}

#[derive(Debug, Clone, Serialize, Deserialize, PartialEq, Hash)]
pub enum Elem {
    Int(i64),
    /// f64 bits (f32 arrays use the value converted to f32)
    F(u64),
    Bool(bool),
    Text(String),
    Blob(Vec<u8>),
}

#[derive(Debug, Clone, Copy, Serialize, Deserialize, PartialEq, Eq, Hash)]
pub enum ElemTy {
    Int2,
    Int4,
    Int8,
    Float4,
    Float8,
    Bool,
    Text,
    Blob,
}

impl ElemTy {
    fn dt(self) -> DataType {
        match self {
            ElemTy::Int2 => DataType::Int2,
            ElemTy::Int4 => DataType::Int4,
            ElemTy::Int8 => DataType::Int8,
            ElemTy::Float4 => DataType::Float4,
            ElemTy::Float8 => DataType::Float8,
            ElemTy::Bool => DataType::Bool,
            ElemTy::Text => DataType::Text,
            ElemTy::Blob => DataType::Blob,
        }
    }
}

/// field of a composite value
#[derive(Debug, Clone, Serialize, Deserialize, PartialEq, Hash)]
pub enum Field {
    Int4(Option<i32>),
    Int8(Option<i64>),
    Bool(Option<bool>),
    F8(Option<u64>),
    Text(Option<String>),
}

#[derive(Debug, Clone, Serialize, Deserialize, PartialEq, Hash)]
pub enum Val {
    Null,
    Bool(bool),
    /// Int2 / Int4 / Int8 (within the column's range), Date (i32), Time, Timestamp
    Int(i64),
    F32(u32),
    F64(u64),
    TsTz(i64, i32),
    B16([u8; 16]),
    B6([u8; 6]),
    B4([u8; 4]),
    /// `s` repeated `rep` times (keeps replay files of large values small)
    Text { s: String, rep: u32 },
    Blob { b: Vec<u8>, rep: u32 },
    /// f32 bits, the whole list repeated `rep` times
    Vector { bits: Vec<u32>, rep: u32 },
    /// `via_builder`: typed path uses `set_jsonb(&JsonbBuilder)` instead of `set_jsonb_bytes`
    Json { doc: Jd, via_builder: bool },
    Decimal { hi: i64, lo: u64, scale: i16, neg: bool },
    Interval(i64, i32, i32),
    R4 { empty: bool, lo: Option<i32>, hi: Option<i32>, li: bool, ui: bool },
    R8 { empty: bool, lo: Option<i64>, hi: Option<i64>, li: bool, ui: bool },
    Enum(u16, u16),
    /// f64 bits: 2 (point), 4 (box), 3 (circle)
    Geo(Vec<u64>),
    Composite(Vec<Field>),
    Array(ElemTy, Vec<Option<Elem>>),
    /// a well-formed TOAST pointer stored in a Text / Blob column
    Toast { row_id: u64, col: u16, size: u64 },
}

#[derive(Debug, Clone, Serialize, Deserialize)]
pub struct Col {
    pub ty: Ty,
    pub a: Val,
    pub b: Val,
}

#[derive(Debug, Clone, Serialize, Deserialize)]
pub struct Case {
    pub cols: Vec<Col>,
}

pub struct C31;

// ---------------------------------------------------------------- materialisation

fn text_of(v: &Val) -> String {
    match v {
        Val::Text { s, rep } => s.repeat(*rep as usize),
        _ => String::new(),
    }
}

fn blob_of(v: &Val) -> Vec<u8> {
    match v {
        Val::Blob { b, rep } => b.repeat(*rep as usize),
        Val::Toast { row_id, col, size } => ToastPointer::new(*row_id & 0x0000_FFFF_FFFF_FFFF, *col, *size).encode().to_vec(),
        _ => Vec::new(),
    }
}

fn vector_of(v: &Val) -> Vec<f32> {
    match v {
        Val::Vector { bits, rep } => {
            let one: Vec<f32> = bits.iter().map(|b| f32::from_bits(*b)).collect();
            let mut out = Vec::with_capacity(one.len() * *rep as usize);
            for _ in 0..*rep {
                out.extend_from_slice(&one);
            }
            out
        }
        _ => Vec::new(),
    }
}

fn jd_to_builder_value(j: &Jd) -> JsonbBuilderValue {
    match j {
        Jd::Null => JsonbBuilderValue::Null,
        Jd::Bool(b) => JsonbBuilderValue::Bool(*b),
        Jd::Num(n) => JsonbBuilderValue::Number(*n as f64),
        Jd::Str(s) => JsonbBuilderValue::String(s.clone()),
        Jd::Arr(a) => JsonbBuilderValue::Array(a.iter().map(jd_to_builder_value).collect()),
        Jd::Obj(o) => JsonbBuilderValue::Object(o.iter().map(|(k, v)| (k.clone(), jd_to_builder_value(v))).collect()),
    }
}

fn jsonb_builder(j: &Jd) -> JsonbBuilder {
    match j {
        Jd::Null => JsonbBuilder::new_null(),
        Jd::Bool(b) => JsonbBuilder::new_bool(*b),
        Jd::Num(n) => JsonbBuilder::new_number(*n as f64),
        Jd::Str(s) => JsonbBuilder::new_string(s.clone()),
        Jd::Arr(a) => {
            let mut b = JsonbBuilder::new_array();
            for e in a {
                b.push(jd_to_builder_value(e));
            }
            b
        }
        Jd::Obj(o) => {
            let mut b = JsonbBuilder::new_object();
            for (k, v) in o {
                b.set(k.clone(), jd_to_builder_value(v));
            }
            b
        }
    }
}

fn decimal_digits(hi: i64, lo: u64) -> i128 {
    ((hi as i128) << 64) | (lo as i128)
}

fn field_schema(fields: &[Field]) -> Schema {
    Schema::new(
        fields
            .iter()
            .enumerate()
            .map(|(i, f)| {
                RCol::new(
                    format!("f{}", i),
                    match f {
                        Field::Int4(_) => DataType::Int4,
                        Field::Int8(_) => DataType::Int8,
                        Field::Bool(_) => DataType::Bool,
                        Field::F8(_) => DataType::Float8,
                        Field::Text(_) => DataType::Text,
                    },
                )
            })
            .collect(),
    )
}

fn field_is_null(f: &Field) -> bool {
    matches!(f, Field::Int4(None) | Field::Int8(None) | Field::Bool(None) | Field::F8(None) | Field::Text(None))
}

fn composite_bytes(fields: &[Field]) -> Result<Vec<u8>, String> {
    let schema = field_schema(fields);
    let mut b = RecordBuilder::new(&schema);
    for (i, f) in fields.iter().enumerate() {
        let r = match f {
            Field::Int4(Some(v)) => b.set_int4(i, *v),
            Field::Int8(Some(v)) => b.set_int8(i, *v),
            Field::Bool(Some(v)) => b.set_bool(i, *v),
            Field::F8(Some(v)) => b.set_float8(i, f64::from_bits(*v)),
            Field::Text(Some(v)) => b.set_text(i, v),
            _ => {
                b.set_null(i);
                Ok(())
            }
        };
        r.map_err(|e| format!("nested setter: {}", e))?;
    }
    b.build().map_err(|e| format!("nested build: {}", e))
}

fn array_bytes(et: ElemTy, items: &[Option<Elem>]) -> Vec<u8> {
    let mut b = ArrayBuilder::new(et.dt());
    for it in items {
        match (et, it) {
            (_, None) => b.push_null(),
            (ElemTy::Int2, Some(Elem::Int(v))) => b.push_int2(*v as i16),
            (ElemTy::Int4, Some(Elem::Int(v))) => b.push_int4(*v as i32),
            (ElemTy::Int8, Some(Elem::Int(v))) => b.push_int8(*v),
            (ElemTy::Float4, Some(Elem::F(v))) => b.push_float4(f64::from_bits(*v) as f32),
            (ElemTy::Float8, Some(Elem::F(v))) => b.push_float8(f64::from_bits(*v)),
            (ElemTy::Bool, Some(Elem::Bool(v))) => b.push_bool(*v),
            (ElemTy::Text, Some(Elem::Text(v))) => b.push_text(v),
            (ElemTy::Blob, Some(Elem::Blob(v))) => b.push_blob(v),
            // ill-typed element in a hand-written replay file: treat as NULL
            _ => b.push_null(),
        }
    }
    b.build()
}

/// bytes a variable-width value occupies in the record (0 for fixed-width and NULL)
fn var_len(ty: Ty, v: &Val) -> usize {
    if !ty.is_var() {
        return 0;
    }
    match v {
        Val::Null => 0,
        Val::Text { s, rep } => {
            let n = s.len() * *rep as usize;
            if let Ty::Char(w) = ty {
                // padded with spaces up to w characters
                let chars = s.chars().count() * *rep as usize;
                n + (w as usize).saturating_sub(chars)
            } else {
                n
            }
        }
        Val::Blob { b, rep } => b.len() * *rep as usize,
        Val::Toast { .. } => 17,
        Val::Vector { bits, rep } => 4 + 4 * bits.len() * *rep as usize,
        Val::Decimal { .. } => 19,
        Val::Json { doc, .. } => jsonb_builder(doc).build().len(),
        Val::Composite(f) => composite_bytes(f).map(|b| b.len()).unwrap_or(0),
        Val::Array(et, items) => array_bytes(*et, items).len(),
        _ => 0,
    }
}

// ---------------------------------------------------------------- typed path

/// does the value belong to the column type (replay files are trusted only this far)
fn fits(ty: Ty, v: &Val) -> bool {
    match (ty, v) {
        (_, Val::Null) => true,
        (Ty::Bool, Val::Bool(_)) => true,
        (Ty::Int2, Val::Int(i)) => i16::try_from(*i).is_ok(),
        (Ty::Int4 | Ty::Date, Val::Int(i)) => i32::try_from(*i).is_ok(),
        (Ty::Int8 | Ty::Time | Ty::Timestamp, Val::Int(_)) => true,
        (Ty::Float4, Val::F32(_)) | (Ty::Float8, Val::F64(_)) => true,
        (Ty::TimestampTz, Val::TsTz(..)) => true,
        (Ty::Uuid | Ty::Inet6, Val::B16(_)) => true,
        (Ty::MacAddr, Val::B6(_)) | (Ty::Inet4, Val::B4(_)) => true,
        (Ty::Text, Val::Text { .. }) => true,
        (Ty::Varchar(n), Val::Text { s, rep }) => n.map(|n| s.chars().count() * *rep as usize <= n as usize).unwrap_or(true),
        (Ty::Char(n), Val::Text { s, rep }) => s.chars().count() * *rep as usize <= n as usize,
        (Ty::Blob, Val::Blob { .. }) => true,
        (Ty::Text | Ty::Blob | Ty::Varchar(_), Val::Toast { .. }) => true,
        (Ty::Vector, Val::Vector { .. }) => true,
        (Ty::Jsonb, Val::Json { .. }) => true,
        (Ty::Decimal, Val::Decimal { .. }) => true,
        (Ty::Interval, Val::Interval(..)) => true,
        (Ty::Int4Range | Ty::DateRange, Val::R4 { .. }) => true,
        (Ty::Int8Range | Ty::TimestampRange, Val::R8 { .. }) => true,
        (Ty::Enum, Val::Enum(..)) => true,
        (Ty::Point, Val::Geo(g)) => g.len() == 2,
        (Ty::Box, Val::Geo(g)) => g.len() == 4,
        (Ty::Circle, Val::Geo(g)) => g.len() == 3,
        (Ty::Composite, Val::Composite(f)) => !f.is_empty(),
        (Ty::Array, Val::Array(..)) => true,
        _ => false,
    }
}

fn set_typed(b: &mut RecordBuilder<'_>, i: usize, ty: Ty, v: &Val) -> Result<(), String> {
    let g = |x: u64| f64::from_bits(x);
    let r = match (ty, v) {
        (_, Val::Null) => {
            b.set_null(i);
            Ok(())
        }
        (Ty::Bool, Val::Bool(x)) => b.set_bool(i, *x),
        (Ty::Int2, Val::Int(x)) => b.set_int2(i, *x as i16),
        (Ty::Int4, Val::Int(x)) => b.set_int4(i, *x as i32),
        (Ty::Int8, Val::Int(x)) => b.set_int8(i, *x),
        (Ty::Date, Val::Int(x)) => b.set_date(i, *x as i32),
        (Ty::Time, Val::Int(x)) => b.set_time(i, *x),
        (Ty::Timestamp, Val::Int(x)) => b.set_timestamp(i, *x),
        (Ty::Float4, Val::F32(x)) => b.set_float4(i, f32::from_bits(*x)),
        (Ty::Float8, Val::F64(x)) => b.set_float8(i, f64::from_bits(*x)),
        (Ty::TimestampTz, Val::TsTz(t, z)) => b.set_timestamptz(i, *t, *z),
        (Ty::Uuid, Val::B16(x)) => b.set_uuid(i, x),
        (Ty::Inet6, Val::B16(x)) => b.set_inet6(i, x),
        (Ty::MacAddr, Val::B6(x)) => b.set_macaddr(i, x),
        (Ty::Inet4, Val::B4(x)) => b.set_inet4(i, x),
        (Ty::Text, Val::Text { .. }) => b.set_text(i, &text_of(v)),
        (Ty::Varchar(_), Val::Text { .. }) => b.set_varchar(i, &text_of(v)),
        (Ty::Char(_), Val::Text { .. }) => b.set_char(i, &text_of(v)),
        (Ty::Blob, Val::Blob { .. }) | (Ty::Text | Ty::Blob | Ty::Varchar(_), Val::Toast { .. }) => b.set_blob(i, &blob_of(v)),
        (Ty::Vector, Val::Vector { .. }) => b.set_vector(i, &vector_of(v)),
        (Ty::Jsonb, Val::Json { doc, via_builder }) => {
            let jb = jsonb_builder(doc);
            if *via_builder {
                b.set_jsonb(i, &jb)
            } else {
                b.set_jsonb_bytes(i, &jb.build())
            }
        }
        (Ty::Decimal, Val::Decimal { hi, lo, scale, neg }) => b.set_decimal(i, decimal_digits(*hi, *lo), *scale, *neg),
        (Ty::Interval, Val::Interval(m, d, mo)) => b.set_interval(i, *m, *d, *mo),
        (Ty::Int4Range, Val::R4 { empty, lo, hi, li, ui }) => {
            if *empty {
                b.set_int4_range_empty(i)
            } else {
                b.set_int4_range(i, *lo, *hi, *li, *ui)
            }
        }
        (Ty::DateRange, Val::R4 { empty, lo, hi, li, ui }) => {
            if *empty {
                b.set_date_range_empty(i)
            } else {
                b.set_date_range(i, *lo, *hi, *li, *ui)
            }
        }
        (Ty::Int8Range, Val::R8 { empty, lo, hi, li, ui }) => {
            if *empty {
                b.set_int8_range_empty(i)
            } else {
                b.set_int8_range(i, *lo, *hi, *li, *ui)
            }
        }
        (Ty::TimestampRange, Val::R8 { empty, lo, hi, li, ui }) => {
            if *empty {
                b.set_timestamp_range_empty(i)
            } else {
                b.set_timestamp_range(i, *lo, *hi, *li, *ui)
            }
        }
        (Ty::Enum, Val::Enum(t, o)) => b.set_enum(i, *t, *o),
        (Ty::Point, Val::Geo(p)) => b.set_point(i, g(p[0]), g(p[1])),
        (Ty::Box, Val::Geo(p)) => b.set_box(i, (g(p[0]), g(p[1])), (g(p[2]), g(p[3]))),
        (Ty::Circle, Val::Geo(p)) => b.set_circle(i, (g(p[0]), g(p[1])), g(p[2])),
        (Ty::Composite, Val::Composite(f)) => {
            let bytes = composite_bytes(f)?;
            b.set_composite(i, &bytes)
        }
        (Ty::Array, Val::Array(et, items)) => b.set_array(i, &array_bytes(*et, items)),
        _ => return Err(format!("value {:?} does not fit column type {:?}", v, ty)),
    };
    r.map_err(|e| format!("{}", e))
}

fn feq(a: f64, b: u64) -> bool {
    a.to_bits() == b
}

macro_rules! rd {
    ($e:expr) => {
        match $e {
            Ok(v) => v,
            Err(e) => return Some(("getter_err", format!("{}", e))),
        }
    };
}

/// compare one non-NULL column read with its typed getter; `None` = equal
fn check_typed(view: &RecordView<'_>, i: usize, ty: Ty, v: &Val) -> Option<(&'static str, String)> {
    let bad = |got: String| Some(("value_mismatch", format!("wrote {} got {}", brief(v), got)));
    match (ty, v) {
        (Ty::Bool, Val::Bool(x)) => {
            let g = rd!(view.get_bool(i));
            if g != *x { return bad(format!("{}", g)); }
        }
        (Ty::Int2, Val::Int(x)) => {
            let g = rd!(view.get_int2(i));
            if g as i64 != *x { return bad(format!("{}", g)); }
        }
        (Ty::Int4, Val::Int(x)) => {
            let g = rd!(view.get_int4(i));
            if g as i64 != *x { return bad(format!("{}", g)); }
        }
        (Ty::Int8, Val::Int(x)) => {
            let g = rd!(view.get_int8(i));
            if g != *x { return bad(format!("{}", g)); }
        }
        (Ty::Date, Val::Int(x)) => {
            let g = rd!(view.get_date(i));
            if g as i64 != *x { return bad(format!("{}", g)); }
        }
        (Ty::Time, Val::Int(x)) => {
            let g = rd!(view.get_time(i));
            if g != *x { return bad(format!("{}", g)); }
        }
        (Ty::Timestamp, Val::Int(x)) => {
            let g = rd!(view.get_timestamp(i));
            if g != *x { return bad(format!("{}", g)); }
        }
        (Ty::Float4, Val::F32(x)) => {
            let g = rd!(view.get_float4(i));
            if g.to_bits() != *x { return bad(format!("{:?} (bits {:08x})", g, g.to_bits())); }
        }
        (Ty::Float8, Val::F64(x)) => {
            let g = rd!(view.get_float8(i));
            if !feq(g, *x) { return bad(format!("{:?} (bits {:016x})", g, g.to_bits())); }
        }
        (Ty::TimestampTz, Val::TsTz(t, z)) => {
            let g = rd!(view.get_timestamptz(i));
            if g != (*t, *z) { return bad(format!("{:?}", g)); }
        }
        (Ty::Uuid, Val::B16(x)) => {
            let g = rd!(view.get_uuid(i));
            if g != x { return bad(format!("{:02x?}", g)); }
        }
        (Ty::Inet6, Val::B16(x)) => {
            let g = rd!(view.get_inet6(i));
            if g != x { return bad(format!("{:02x?}", g)); }
        }
        (Ty::MacAddr, Val::B6(x)) => {
            let g = rd!(view.get_macaddr(i));
            if g != x { return bad(format!("{:02x?}", g)); }
        }
        (Ty::Inet4, Val::B4(x)) => {
            let g = rd!(view.get_inet4(i));
            if g != x { return bad(format!("{:02x?}", g)); }
        }
        (Ty::Text, Val::Text { .. }) => {
            let g = rd!(view.get_text(i));
            if g != text_of(v) { return bad(brief_str(g)); }
        }
        (Ty::Varchar(_), Val::Text { .. }) => {
            let g = rd!(view.get_varchar(i));
            if g != text_of(v) { return bad(brief_str(g)); }
        }
        (Ty::Char(n), Val::Text { .. }) => {
            // CHAR(n): blank-padded to n characters (RecordBuilder::set_char)
            let mut want = text_of(v);
            let have = want.chars().count();
            for _ in have..(n as usize) {
                want.push(' ');
            }
            let g = rd!(view.get_char(i));
            if g != want { return bad(brief_str(g)); }
        }
        (Ty::Blob, Val::Blob { .. }) | (Ty::Blob, Val::Toast { .. }) => {
            let g = rd!(view.get_blob(i));
            if g != blob_of(v).as_slice() { return bad(brief_bytes(g)); }
        }
        (Ty::Text | Ty::Varchar(_), Val::Toast { .. }) => {
            let g = rd!(view.get_var_raw(i));
            if g != blob_of(v).as_slice() { return bad(brief_bytes(g)); }
        }
        (Ty::Vector, Val::Vector { .. }) => {
            let want = vector_of(v);
            let g = rd!(view.get_vector_copy(i));
            if g.len() != want.len() || g.iter().zip(&want).any(|(a, b)| a.to_bits() != b.to_bits()) {
                return bad(format!("vector of {} components", g.len()));
            }
            // the zero-copy getter may refuse an unaligned payload, it may not return other data
            if let Ok(z) = view.get_vector(i) {
                if z.len() != want.len() || z.iter().zip(&want).any(|(a, b)| a.to_bits() != b.to_bits()) {
                    return Some(("value_mismatch_zero_copy", format!("get_vector returned {} components that differ from the {} written", z.len(), want.len())));
                }
            }
        }
        (Ty::Jsonb, Val::Json { doc, .. }) => {
            let want = jsonb_builder(doc).build();
            let g = rd!(view.get_jsonb(i));
            if g.data() != want.as_slice() { return bad(brief_bytes(g.data())); }
        }
        (Ty::Decimal, Val::Decimal { hi, lo, scale, neg }) => {
            let g = rd!(view.get_decimal(i));
            if g.digits() != decimal_digits(*hi, *lo) || g.scale() != *scale || g.is_negative() != *neg {
                return bad(format!("digits={} scale={} negative={}", g.digits(), g.scale(), g.is_negative()));
            }
        }
        (Ty::Interval, Val::Interval(m, d, mo)) => {
            let g = rd!(view.get_interval(i));
            if g != (*m, *d, *mo) { return bad(format!("{:?}", g)); }
        }
        (Ty::Int4Range | Ty::DateRange, Val::R4 { empty, lo, hi, li, ui }) => {
            let g = if ty == Ty::Int4Range { rd!(view.get_int4_range(i)) } else { rd!(view.get_date_range(i)) };
            let ok = if *empty { g.is_empty } else { !g.is_empty && g.lower == *lo && g.upper == *hi && g.lower_inclusive == *li && g.upper_inclusive == *ui };
            if !ok { return bad(format!("{:?}", g)); }
        }
        (Ty::Int8Range | Ty::TimestampRange, Val::R8 { empty, lo, hi, li, ui }) => {
            let g = if ty == Ty::Int8Range { rd!(view.get_int8_range(i)) } else { rd!(view.get_timestamp_range(i)) };
            let ok = if *empty { g.is_empty } else { !g.is_empty && g.lower == *lo && g.upper == *hi && g.lower_inclusive == *li && g.upper_inclusive == *ui };
            if !ok { return bad(format!("{:?}", g)); }
        }
        (Ty::Enum, Val::Enum(t, o)) => {
            let g = rd!(view.get_enum(i));
            if g != (*t, *o) { return bad(format!("{:?}", g)); }
        }
        (Ty::Point, Val::Geo(p)) => {
            let g = rd!(view.get_point(i));
            if !(feq(g.0, p[0]) && feq(g.1, p[1])) { return bad(format!("{:?}", g)); }
        }
        (Ty::Box, Val::Geo(p)) => {
            let g = rd!(view.get_box(i));
            if !(feq(g.0 .0, p[0]) && feq(g.0 .1, p[1]) && feq(g.1 .0, p[2]) && feq(g.1 .1, p[3])) { return bad(format!("{:?}", g)); }
        }
        (Ty::Circle, Val::Geo(p)) => {
            let g = rd!(view.get_circle(i));
            if !(feq(g.0 .0, p[0]) && feq(g.0 .1, p[1]) && feq(g.1, p[2])) { return bad(format!("{:?}", g)); }
        }
        (Ty::Composite, Val::Composite(fields)) => {
            let want = match composite_bytes(fields) {
                Ok(b) => b,
                Err(e) => return Some(("nested_build_err", e)),
            };
            let raw = rd!(view.get_var_raw(i));
            if raw != want.as_slice() { return bad(brief_bytes(raw)); }
            let cv = rd!(view.get_composite(i, fields.len()));
            if cv.field_count() != fields.len() {
                return Some(("composite_field_count", format!("{} fields written, view reports {}", fields.len(), cv.field_count())));
            }
            for (k, f) in fields.iter().enumerate() {
                if cv.is_null(k) != field_is_null(f) {
                    return Some(("composite_null_flag", format!("field {} of {:?}: is_null={}", k, fields, cv.is_null(k))));
                }
                // "bounds checking on all field access": NULL fields are refused, present ones readable
                if cv.get_field(k).is_ok() == field_is_null(f) {
                    return Some(("composite_get_field", format!("field {} of {:?}: get_field ok={}", k, fields, cv.get_field(k).is_ok())));
                }
            }
            if cv.get_field(fields.len()).is_ok() {
                return Some(("composite_get_field", format!("field index {} of a {}-field composite accepted", fields.len(), fields.len())));
            }
            // same binary layout as a record: the nested values read back through RecordView
            let ns = field_schema(fields);
            let nv = rd!(RecordView::new(raw, &ns));
            for (k, f) in fields.iter().enumerate() {
                if nv.is_null(k) != field_is_null(f) {
                    return Some(("composite_null_flag", format!("nested field {}: is_null={}", k, nv.is_null(k))));
                }
                let same = match f {
                    Field::Int4(Some(x)) => rd!(nv.get_int4(k)) == *x,
                    Field::Int8(Some(x)) => rd!(nv.get_int8(k)) == *x,
                    Field::Bool(Some(x)) => rd!(nv.get_bool(k)) == *x,
                    Field::F8(Some(x)) => rd!(nv.get_float8(k)).to_bits() == *x,
                    Field::Text(Some(x)) => rd!(nv.get_text(k)) == x,
                    _ => true,
                };
                if !same {
                    return Some(("composite_field_value", format!("nested field {} of {:?} reads back differently", k, fields)));
                }
            }
        }
        (Ty::Array, Val::Array(et, items)) => {
            let av = rd!(view.get_array(i));
            if av.len() != items.len() || av.is_empty() != items.is_empty() {
                return Some(("array_len", format!("{} elements written, view reports {}", items.len(), av.len())));
            }
            if av.elem_type() != et.dt() {
                return Some(("array_elem_type", format!("wrote {:?} got {:?}", et.dt(), av.elem_type())));
            }
            for (k, it) in items.iter().enumerate() {
                if av.is_null(k) != it.is_none() {
                    return Some(("array_null_flag", format!("element {} of {:?}: is_null={}", k, items, av.is_null(k))));
                }
                let same = match (et, it) {
                    (_, None) => true,
                    (ElemTy::Int2, Some(Elem::Int(x))) => rd!(av.get_int2(k)) == *x as i16,
                    (ElemTy::Int4, Some(Elem::Int(x))) => rd!(av.get_int4(k)) == *x as i32,
                    (ElemTy::Int8, Some(Elem::Int(x))) => rd!(av.get_int8(k)) == *x,
                    (ElemTy::Float4, Some(Elem::F(x))) => rd!(av.get_float4(k)).to_bits() == (f64::from_bits(*x) as f32).to_bits(),
                    (ElemTy::Float8, Some(Elem::F(x))) => rd!(av.get_float8(k)).to_bits() == *x,
                    (ElemTy::Bool, Some(Elem::Bool(x))) => rd!(av.get_bool(k)) == *x,
                    (ElemTy::Text, Some(Elem::Text(x))) => rd!(av.get_text(k)) == x,
                    (ElemTy::Blob, Some(Elem::Blob(x))) => rd!(av.get_blob(k)) == x.as_slice(),
                    _ => true,
                };
                if !same {
                    return Some(("array_element_value", format!("element {} of {:?} array {:?} reads back differently", k, et, items)));
                }
            }
        }
        _ => {}
    }
    None
}

fn brief_str(s: &str) -> String {
    if s.len() > 60 {
        format!("text of {} bytes starting {:?}", s.len(), s.chars().take(20).collect::<String>())
    } else {
        format!("{:?}", s)
    }
}

fn brief_bytes(b: &[u8]) -> String {
    if b.len() > 40 {
        format!("{} bytes starting {:02x?}", b.len(), &b[..16])
    } else {
        format!("{:02x?}", b)
    }
}

fn brief(v: &Val) -> String {
    match v {
        Val::Text { s, rep } if s.len() * *rep as usize > 60 => format!("Text({:?} x {} = {} bytes)", s, rep, s.len() * *rep as usize),
        Val::Blob { b, rep } if b.len() * *rep as usize > 40 => format!("Blob({:02x?} x {} = {} bytes)", b, rep, b.len() * *rep as usize),
        Val::Vector { bits, rep } if bits.len() * *rep as usize > 16 => format!("Vector({} components)", bits.len() * *rep as usize),
        other => format!("{:?}", other),
    }
}

// ---------------------------------------------------------------- owned path

/// the `OwnedValue` a caller stores in a column of type `ty` for `v`; `None` when
/// `OwnedValue` has no variant for it (non-NULL ranges) — the owned row then carries NULL.
fn to_owned(ty: Ty, v: &Val) -> Option<OwnedValue> {
    let g = |x: u64| f64::from_bits(x);
    Some(match (ty, v) {
        (_, Val::Null) => OwnedValue::Null,
        (Ty::Bool, Val::Bool(x)) => OwnedValue::Bool(*x),
        (Ty::Int2 | Ty::Int4 | Ty::Int8, Val::Int(x)) => OwnedValue::Int(*x),
        (Ty::Date, Val::Int(x)) => OwnedValue::Date(*x as i32),
        (Ty::Time, Val::Int(x)) => OwnedValue::Time(*x),
        (Ty::Timestamp, Val::Int(x)) => OwnedValue::Timestamp(*x),
        (Ty::Float4, Val::F32(x)) => OwnedValue::Float(f32::from_bits(*x) as f64),
        (Ty::Float8, Val::F64(x)) => OwnedValue::Float(g(*x)),
        (Ty::TimestampTz, Val::TsTz(t, z)) => OwnedValue::TimestampTz(*t, *z),
        (Ty::Uuid, Val::B16(x)) => OwnedValue::Uuid(*x),
        (Ty::Inet6, Val::B16(x)) => OwnedValue::Inet6(*x),
        (Ty::MacAddr, Val::B6(x)) => OwnedValue::MacAddr(*x),
        (Ty::Inet4, Val::B4(x)) => OwnedValue::Inet4(*x),
        (Ty::Text | Ty::Varchar(_) | Ty::Char(_), Val::Text { .. }) => OwnedValue::Text(text_of(v)),
        (Ty::Blob, Val::Blob { .. }) => OwnedValue::Blob(blob_of(v)),
        (Ty::Text | Ty::Varchar(_) | Ty::Blob, Val::Toast { .. }) => OwnedValue::ToastPointer(blob_of(v)),
        (Ty::Vector, Val::Vector { .. }) => OwnedValue::Vector(vector_of(v)),
        (Ty::Jsonb, Val::Json { doc, .. }) => OwnedValue::Jsonb(jsonb_builder(doc).build()),
        (Ty::Decimal, Val::Decimal { hi, lo, scale, .. }) => OwnedValue::Decimal(decimal_digits(*hi, *lo), *scale),
        (Ty::Interval, Val::Interval(m, d, mo)) => OwnedValue::Interval(*m, *d, *mo),
        (Ty::Enum, Val::Enum(t, o)) => OwnedValue::Enum(*t, *o),
        (Ty::Point, Val::Geo(p)) => OwnedValue::Point(g(p[0]), g(p[1])),
        (Ty::Box, Val::Geo(p)) => OwnedValue::Box((g(p[0]), g(p[1])), (g(p[2]), g(p[3]))),
        (Ty::Circle, Val::Geo(p)) => OwnedValue::Circle((g(p[0]), g(p[1])), g(p[2])),
        // composite / array columns are carried as their encoded bytes (from_record_column reads them as Blob)
        (Ty::Composite, Val::Composite(f)) => OwnedValue::Blob(composite_bytes(f).ok()?),
        (Ty::Array, Val::Array(et, items)) => OwnedValue::Blob(array_bytes(*et, items)),
        _ => return None,
    })
}

fn f64_same(a: f64, b: f64) -> bool {
    a.to_bits() == b.to_bits() || (a.is_nan() && b.is_nan())
}

fn ov_same(a: &OwnedValue, b: &OwnedValue) -> bool {
    use OwnedValue as O;
    match (a, b) {
        (O::Float(x), O::Float(y)) => f64_same(*x, *y),
        (O::Vector(x), O::Vector(y)) => x.len() == y.len() && x.iter().zip(y).all(|(p, q)| p.to_bits() == q.to_bits()),
        (O::Point(a1, a2), O::Point(b1, b2)) => f64_same(*a1, *b1) && f64_same(*a2, *b2),
        (O::Box(a1, a2), O::Box(b1, b2)) => f64_same(a1.0, b1.0) && f64_same(a1.1, b1.1) && f64_same(a2.0, b2.0) && f64_same(a2.1, b2.1),
        (O::Circle(a1, a2), O::Circle(b1, b2)) => f64_same(a1.0, b1.0) && f64_same(a1.1, b1.1) && f64_same(*a2, *b2),
        _ => a == b,
    }
}

fn brief_ov(v: &OwnedValue) -> String {
    match v {
        OwnedValue::Text(s) => format!("Text({})", brief_str(s)),
        OwnedValue::Blob(b) => format!("Blob({})", brief_bytes(b)),
        OwnedValue::Jsonb(b) => format!("Jsonb({})", brief_bytes(b)),
        OwnedValue::Vector(x) if x.len() > 16 => format!("Vector({} components)", x.len()),
        o => format!("{:?}", o),
    }
}

// ---------------------------------------------------------------- the check

#[derive(Clone, Copy, PartialEq)]
enum Row {
    A,
    B,
}

fn pick(c: &Col, r: Row) -> &Val {
    if r == Row::A { &c.a } else { &c.b }
}

fn fill_typed(b: &mut RecordBuilder<'_>, cols: &[Col], r: Row) -> Result<(), (usize, String)> {
    for (i, c) in cols.iter().enumerate() {
        set_typed(b, i, c.ty, pick(c, r)).map_err(|e| (i, e))?;
    }
    Ok(())
}

const U16_MAX: usize = u16::MAX as usize;

impl Check for C31 {
    type Case = Case;
    fn run(&self, case: &Case) -> Outcome {
        let mut out = Outcome::ok();
        let cols = &case.cols;
        if cols.is_empty() || cols.len() > 64 || cols.iter().any(|c| !fits(c.ty, &c.a) || !fits(c.ty, &c.b)) {
            out.add_class("ill_formed_case_skipped");
            return out;
        }
        let schema = Schema::new(cols.iter().enumerate().map(|(i, c)| c.ty.rcol(i)).collect());
        let n_var = cols.iter().filter(|c| c.ty.is_var()).count();

        // ---- typed path, rows A and B
        let mut fresh_bytes: [Option<Vec<u8>>; 2] = [None, None];
        for (ri, r) in [Row::A, Row::B].into_iter().enumerate() {
            let total_var: usize = cols.iter().map(|c| var_len(c.ty, pick(c, r))).sum();
            let oversize = total_var > U16_MAX;
            let tag = if oversize { "|oversize" } else { "" };
            let mut b = RecordBuilder::new(&schema);
            if let Err((i, e)) = fill_typed(&mut b, cols, r) {
                out.set_fail(format!("C31|typed|setter_err|{}", cols[i].ty.name()), format!("column {} {:?}: setter refused {}: {}", i, cols[i].ty, brief(pick(&cols[i], r)), e));
                return out;
            }
            let bytes = match b.build() {
                Ok(x) => x,
                Err(e) => {
                    if oversize {
                        out.add_class("oversize_refused");
                        continue;
                    }
                    out.set_fail("C31|typed|build_err", format!("{} columns, {} bytes of variable data: build failed: {}", cols.len(), total_var, e));
                    return out;
                }
            };
            if oversize {
                out.add_class("oversize_accepted");
            } else if total_var >= 65_000 {
                out.add_class("near_u16_limit_accepted");
            }
            let mut into = vec![0xAAu8; 7];
            match b.build_into(&mut into) {
                Ok(()) => {
                    if into != bytes {
                        out.set_fail(format!("C31|typed|build_into_differs{}", tag), format!("build() gave {} bytes, build_into() {} bytes", bytes.len(), into.len()));
                        return out;
                    }
                }
                Err(e) => {
                    out.set_fail(format!("C31|typed|build_into_err{}", tag), format!("build() succeeded, build_into() failed: {}", e));
                    return out;
                }
            }
            let view = match RecordView::new(&bytes, &schema) {
                Ok(v) => v,
                Err(e) => {
                    out.set_fail(format!("C31|typed|view_err{}", tag), format!("RecordView::new on {} built bytes: {}", bytes.len(), e));
                    return out;
                }
            };
            for (i, c) in cols.iter().enumerate() {
                let v = pick(c, r);
                let want_null = matches!(v, Val::Null);
                if view.is_null(i) != want_null {
                    out.set_fail(
                        format!("C31|typed|null_flag|{}{}", c.ty.name(), tag),
                        format!("column {} {:?} wrote {} but is_null={}", i, c.ty, brief(v), view.is_null(i)),
                    );
                    return out;
                }
                if want_null {
                    continue;
                }
                if let Some((kind, detail)) = check_typed(&view, i, c.ty, v) {
                    out.set_fail(
                        format!("C31|typed|{}|{}{}", kind, c.ty.name(), tag),
                        format!("column {} of {} ({:?}), {} bytes of variable data in the row: {}", i, cols.len(), c.ty, total_var, detail),
                    );
                    return out;
                }
            }
            fresh_bytes[ri] = Some(bytes);
        }

        // ---- reset: A then reset then B == fresh B (both reuse mechanisms)
        if let (Some(_), Some(fresh_b)) = (&fresh_bytes[0], &fresh_bytes[1]) {
            let mut b = RecordBuilder::new(&schema);
            let _ = fill_typed(&mut b, cols, Row::A);
            let _ = b.build();
            b.reset();
            let r1 = fill_typed(&mut b, cols, Row::B).map_err(|(_, e)| e).and_then(|_| b.build().map_err(|e| format!("{}", e)));
            match r1 {
                Ok(x) if &x == fresh_b => {}
                Ok(x) => {
                    out.set_fail("C31|reset|bytes_differ|builder_reset", format!("row B built after reset() has {} bytes and differs from a fresh build ({} bytes)", x.len(), fresh_b.len()));
                    return out;
                }
                Err(e) => {
                    out.set_fail("C31|reset|build_err|builder_reset", format!("row B builds fresh but fails after reset(): {}", e));
                    return out;
                }
            }
            let mut st: RecordBuilderState = b.into_state();
            st.reset(&schema);
            let mut b2 = st.into_builder(&schema);
            let r2 = fill_typed(&mut b2, cols, Row::B).map_err(|(_, e)| e).and_then(|_| b2.build().map_err(|e| format!("{}", e)));
            match r2 {
                Ok(x) if &x == fresh_b => {}
                Ok(_) => {
                    out.set_fail("C31|reset|bytes_differ|state_reset", "row B built from a reset RecordBuilderState differs from a fresh build");
                    return out;
                }
                Err(e) => {
                    out.set_fail("C31|reset|build_err|state_reset", format!("row B builds fresh but fails from a reset RecordBuilderState: {}", e));
                    return out;
                }
            }
            let mut b3 = RecordBuilderState::new(&schema).into_builder(&schema);
            let r3 = fill_typed(&mut b3, cols, Row::B).map_err(|(_, e)| e).and_then(|_| b3.build().map_err(|e| format!("{}", e)));
            if r3.as_ref().ok() != Some(fresh_b) {
                out.set_fail("C31|reset|bytes_differ|state_new", "row B built from RecordBuilderState::new differs from RecordBuilder::new");
                return out;
            }
            out.add_class("reset_checked");
        }

        // ---- owned path: the way the DML code builds and reads rows
        let tcols: Vec<turdb::schema::ColumnDef> = cols.iter().enumerate().map(|(i, c)| turdb::schema::ColumnDef::new(format!("c{}", i), c.ty.dt())).collect();
        let oschema = create_record_schema(&tcols);
        let mut reuse = RecordBuilder::new(&oschema);
        let mut buffer: Vec<u8> = Vec::new();
        for r in [Row::A, Row::B] {
            let row: Vec<OwnedValue> = cols.iter().map(|c| to_owned(c.ty, pick(c, r)).unwrap_or(OwnedValue::Null)).collect();
            // CHAR padding is a typed-setter feature; the owned path stores the text as is
            let total_var: usize = cols
                .iter()
                .zip(&row)
                .map(|(c, v)| if matches!(v, OwnedValue::Null) { 0 } else { var_len(if let Ty::Char(_) = c.ty { Ty::Text } else { c.ty }, pick(c, r)) })
                .sum();
            let oversize = total_var > U16_MAX;
            let tag = if oversize { "|oversize" } else { "" };
            let bytes = match OwnedValue::build_record_from_values(&row, &oschema) {
                Ok(x) => x,
                Err(e) => {
                    if oversize {
                        out.add_class("oversize_refused");
                        continue;
                    }
                    out.set_fail("C31|owned|build_err", format!("build_record_from_values failed on a row that fits the schema: {}", e));
                    return out;
                }
            };
            match OwnedValue::build_record_with_builder(&row, &mut reuse) {
                Ok(x) if x == bytes => {}
                Ok(_) => {
                    out.set_fail(format!("C31|reset|bytes_differ|build_record_with_builder{}", tag), "reused builder gives other bytes than build_record_from_values");
                    return out;
                }
                Err(e) => {
                    out.set_fail(format!("C31|reset|build_err|build_record_with_builder{}", tag), format!("{}", e));
                    return out;
                }
            }
            match OwnedValue::build_record_into_buffer(&row, &mut reuse, &mut buffer) {
                Ok(()) if buffer == bytes => {}
                Ok(()) => {
                    out.set_fail(format!("C31|reset|bytes_differ|build_record_into_buffer{}", tag), "reused builder + buffer gives other bytes than build_record_from_values");
                    return out;
                }
                Err(e) => {
                    out.set_fail(format!("C31|reset|build_err|build_record_into_buffer{}", tag), format!("{}", e));
                    return out;
                }
            }
            let view = match RecordView::new(&bytes, &oschema) {
                Ok(v) => v,
                Err(e) => {
                    out.set_fail(format!("C31|owned|view_err{}", tag), format!("{}", e));
                    return out;
                }
            };
            let got = match OwnedValue::extract_row_from_record(&view, &tcols) {
                Ok(g) => g,
                Err(e) => {
                    out.set_fail(format!("C31|owned|extract_err{}", tag), format!("extract_row_from_record failed on a record built by build_record_from_values: {}", e));
                    return out;
                }
            };
            if got.len() != row.len() {
                out.set_fail("C31|owned|row_len", format!("{} values written, {} read", row.len(), got.len()));
                return out;
            }
            let all_var_empty = cols.iter().all(|c| c.ty.is_var()) && total_var == 0;
            for (i, (w, g)) in row.iter().zip(&got).enumerate() {
                let want = w.clone();
                if !ov_same(&want, g) {
                    let kind = if matches!(g, OwnedValue::Null) {
                        "value_became_null"
                    } else if matches!(want, OwnedValue::Null) {
                        "null_became_value"
                    } else if std::mem::discriminant(&want) != std::mem::discriminant(g) {
                        "variant_changed"
                    } else {
                        "value_mismatch"
                    };
                    let feat = if all_var_empty {
                        "|all_var_empty"
                    } else if matches!((&want, g), (OwnedValue::Blob(_), OwnedValue::ToastPointer(_))) {
                        "|blob_looks_like_toast_pointer"
                    } else {
                        ""
                    };
                    out.set_fail(
                        format!("C31|owned|{}|{}{}{}", kind, cols[i].ty.name(), feat, tag),
                        format!("column {} of {} ({:?}): wrote {} read {} (row has {} bytes of variable data, record {} bytes)", i, cols.len(), cols[i].ty, brief_ov(&want), brief_ov(g), total_var, bytes.len()),
                    );
                    return out;
                }
            }
        }

        // ---- classes and the non-trivial rule
        let a_null = |c: &Col| matches!(c.a, Val::Null);
        let var_present: Vec<usize> = cols.iter().enumerate().filter(|(_, c)| c.ty.is_var() && !a_null(c)).map(|(i, _)| i).collect();
        let mut nt = false;
        if var_present.len() >= 2 {
            let (first, last) = (var_present[0], *var_present.last().unwrap());
            nt = cols[first + 1..last].iter().any(a_null);
        }
        out.add_class(match cols.len() {
            1 => "cols=1",
            2..=8 => "cols=2..8",
            9..=32 => "cols=9..32",
            _ => "cols=33..64",
        });
        if cols.iter().any(|c| a_null(c) || matches!(c.b, Val::Null)) {
            out.add_class("has_null");
        }
        if n_var >= 2 {
            out.add_class("var_cols>=2");
        }
        if n_var == cols.len() {
            out.add_class("all_columns_variable");
        }
        if n_var == 0 {
            out.add_class("all_columns_fixed");
        }
        for c in cols {
            out.add_class(format!("ty:{}", c.ty.name()));
        }
        if nt {
            out.add_class("nontrivial");
            out.nontrivial = Some(vcore::hash_of(&(cols.iter().map(|c| (c.ty, c.a.clone())).collect::<Vec<_>>())));
        }
        out
    }
}

// ---------------------------------------------------------------- generators

#[derive(Clone, Copy)]
pub struct Gates {
    /// Blob values of exactly 17 bytes starting with 0xFE (the TOAST pointer marker)
    pub blob_like_toast: bool,
}

fn i64_adv() -> impl Strategy<Value = i64> {
    prop_oneof![
        3 => any::<i64>(),
        3 => -3i64..4,
        1 => Just(i64::MIN), 1 => Just(i64::MAX),
        2 => (0u32..63).prop_map(|s| 1i64 << s),
        2 => (0u32..63).prop_map(|s| -(1i64 << s)),
    ]
}

fn i32_adv() -> impl Strategy<Value = i32> {
    prop_oneof![3 => any::<i32>(), 3 => -3i32..4, 1 => Just(i32::MIN), 1 => Just(i32::MAX)]
}

fn f64_bits() -> impl Strategy<Value = u64> {
    prop_oneof![
        4 => any::<u64>(),
        1 => Just(0u64),
        1 => Just(0x8000_0000_0000_0000u64),
        1 => Just(f64::INFINITY.to_bits()),
        1 => Just(f64::NEG_INFINITY.to_bits()),
        1 => Just(f64::NAN.to_bits()),
        1 => Just(1u64),
        1 => Just(f64::MAX.to_bits()),
        3 => (-5i32..5).prop_map(|i| (i as f64 * 0.5).to_bits()),
    ]
}

fn f32_bits() -> impl Strategy<Value = u32> {
    prop_oneof![
        4 => any::<u32>(),
        1 => Just(0u32),
        1 => Just(0x8000_0000u32),
        1 => Just(f32::INFINITY.to_bits()),
        1 => Just(f32::NAN.to_bits()),
        1 => Just(1u32),
        3 => (-5i32..5).prop_map(|i| (i as f32 * 0.5).to_bits()),
    ]
}

fn small_text(max_chars: usize) -> impl Strategy<Value = String> {
    proptest::collection::vec(
        prop_oneof![4 => Just('a'), 2 => Just(' '), 1 => Just('\0'), 1 => Just('é'), 1 => Just('\u{10ffff}'), 1 => Just('"'), 2 => any::<char>()],
        0..=max_chars,
    )
    .prop_map(|v| v.into_iter().collect())
}

/// text values: mostly short (a third empty), sometimes around the TOAST threshold, rarely
/// reaching the u16 offset limit
fn text_val() -> impl Strategy<Value = Val> {
    prop_oneof![
        30 => Just(Val::Text { s: String::new(), rep: 1 }),
        50 => small_text(12).prop_map(|s| Val::Text { s, rep: 1 }),
        12 => (small_text(3), 1u32..400).prop_map(|(s, rep)| Val::Text { s, rep }),
        1 => prop_oneof![Just(65_535u32), Just(65_536), Just(65_534), Just(32_768), Just(40_000), Just(70_000), 60_000u32..70_000].prop_map(|rep| Val::Text { s: "x".into(), rep }),
    ]
}

fn blob_val(g: Gates) -> impl Strategy<Value = Val> {
    prop_oneof![
        25 => Just(Val::Blob { b: Vec::new(), rep: 1 }),
        50 => proptest::collection::vec(prop_oneof![Just(0u8), Just(0xFFu8), Just(0xFEu8), any::<u8>()], 0..24).prop_map(|b| Val::Blob { b, rep: 1 }),
        // 17 bytes: the size of a TOAST pointer; first byte often the marker
        6 => (prop_oneof![Just(0xFEu8), any::<u8>()], proptest::collection::vec(any::<u8>(), 16)).prop_map(|(f, mut rest)| { rest.insert(0, f); Val::Blob { b: rest, rep: 1 } }),
        10 => (proptest::collection::vec(any::<u8>(), 1..4), 1u32..400).prop_map(|(b, rep)| Val::Blob { b, rep }),
        1 => prop_oneof![Just(65_535u32), Just(65_536), Just(40_000), 60_000u32..70_000].prop_map(|rep| Val::Blob { b: vec![0xAB], rep }),
    ]
    .prop_map(move |v| {
        if !g.blob_like_toast {
            if let Val::Blob { b, rep } = &v {
                if b.len() * *rep as usize == 17 && b[0] == 0xFE {
                    let mut b = b.clone();
                    b[0] = 0xFD;
                    return Val::Blob { b, rep: *rep };
                }
            }
        }
        v
    })
}

fn toast_val() -> impl Strategy<Value = Val> {
    (any::<u64>(), any::<u16>(), any::<u64>()).prop_map(|(row_id, col, size)| Val::Toast { row_id, col, size })
}

fn jd() -> impl Strategy<Value = Jd> {
    let leaf = prop_oneof![Just(Jd::Null), any::<bool>().prop_map(Jd::Bool), (-1000i32..1000).prop_map(Jd::Num), small_text(6).prop_map(Jd::Str)];
    leaf.prop_recursive(3, 10, 3, |inner| {
        prop_oneof![
            proptest::collection::vec(inner.clone(), 0..4).prop_map(Jd::Arr),
            proptest::collection::vec((small_text(4), inner), 0..4).prop_map(Jd::Obj),
        ]
    })
}

fn field() -> impl Strategy<Value = Field> {
    prop_oneof![
        proptest::option::weighted(0.7, i32_adv()).prop_map(Field::Int4),
        proptest::option::weighted(0.7, i64_adv()).prop_map(Field::Int8),
        proptest::option::weighted(0.7, any::<bool>()).prop_map(Field::Bool),
        proptest::option::weighted(0.7, f64_bits()).prop_map(Field::F8),
        proptest::option::weighted(0.7, small_text(8)).prop_map(Field::Text),
    ]
}

fn array_val() -> impl Strategy<Value = Val> {
    let et = prop_oneof![Just(ElemTy::Int2), Just(ElemTy::Int4), Just(ElemTy::Int8), Just(ElemTy::Float4), Just(ElemTy::Float8), Just(ElemTy::Bool), Just(ElemTy::Text), Just(ElemTy::Blob)];
    et.prop_flat_map(|et| {
        let elem: BoxedStrategy<Elem> = match et {
            ElemTy::Int2 => prop_oneof![any::<i16>(), Just(i16::MIN), Just(i16::MAX)].prop_map(|v| Elem::Int(v as i64)).boxed(),
            ElemTy::Int4 => i32_adv().prop_map(|v| Elem::Int(v as i64)).boxed(),
            ElemTy::Int8 => i64_adv().prop_map(Elem::Int).boxed(),
            ElemTy::Float4 | ElemTy::Float8 => f64_bits().prop_map(Elem::F).boxed(),
            ElemTy::Bool => any::<bool>().prop_map(Elem::Bool).boxed(),
            ElemTy::Text => small_text(6).prop_map(Elem::Text).boxed(),
            ElemTy::Blob => proptest::collection::vec(any::<u8>(), 0..6).prop_map(Elem::Blob).boxed(),
        };
        proptest::collection::vec(proptest::option::weighted(0.75, elem), 0..20).prop_map(move |items| Val::Array(et, items))
    })
}

fn r4() -> impl Strategy<Value = Val> {
    (proptest::bool::weighted(0.15), proptest::option::weighted(0.8, i32_adv()), proptest::option::weighted(0.8, i32_adv()), any::<bool>(), any::<bool>())
        .prop_map(|(empty, lo, hi, li, ui)| Val::R4 { empty, lo, hi, li, ui })
}

fn r8() -> impl Strategy<Value = Val> {
    (proptest::bool::weighted(0.15), proptest::option::weighted(0.8, i64_adv()), proptest::option::weighted(0.8, i64_adv()), any::<bool>(), any::<bool>())
        .prop_map(|(empty, lo, hi, li, ui)| Val::R8 { empty, lo, hi, li, ui })
}

fn bytes16() -> impl Strategy<Value = [u8; 16]> {
    proptest::array::uniform16(prop_oneof![Just(0u8), Just(0xFFu8), any::<u8>()])
}

fn val_for(ty: Ty, g: Gates) -> BoxedStrategy<Val> {
    match ty {
        Ty::Bool => any::<bool>().prop_map(Val::Bool).boxed(),
        Ty::Int2 => prop_oneof![any::<i16>(), -2i16..3, Just(i16::MIN), Just(i16::MAX)].prop_map(|v| Val::Int(v as i64)).boxed(),
        Ty::Int4 | Ty::Date => i32_adv().prop_map(|v| Val::Int(v as i64)).boxed(),
        Ty::Int8 | Ty::Time | Ty::Timestamp => i64_adv().prop_map(Val::Int).boxed(),
        Ty::Float4 => f32_bits().prop_map(Val::F32).boxed(),
        Ty::Float8 => f64_bits().prop_map(Val::F64).boxed(),
        Ty::TimestampTz => (i64_adv(), i32_adv()).prop_map(|(t, z)| Val::TsTz(t, z)).boxed(),
        Ty::Uuid | Ty::Inet6 => bytes16().prop_map(Val::B16).boxed(),
        Ty::MacAddr => proptest::array::uniform6(any::<u8>()).prop_map(Val::B6).boxed(),
        Ty::Inet4 => proptest::array::uniform4(any::<u8>()).prop_map(Val::B4).boxed(),
        Ty::Text => prop_oneof![20 => text_val(), 1 => toast_val()].boxed(),
        Ty::Varchar(None) => prop_oneof![20 => text_val(), 1 => toast_val()].boxed(),
        Ty::Varchar(Some(n)) => small_text(n.min(40) as usize).prop_map(|s| Val::Text { s, rep: 1 }).boxed(),
        Ty::Char(n) => small_text(n.min(40) as usize).prop_map(|s| Val::Text { s, rep: 1 }).boxed(),
        Ty::Blob => prop_oneof![20 => blob_val(g), 1 => toast_val()].boxed(),
        Ty::Vector => prop_oneof![
            40 => proptest::collection::vec(f32_bits(), 0..9).prop_map(|bits| Val::Vector { bits, rep: 1 }),
            6 => (proptest::collection::vec(f32_bits(), 1..4), 1u32..600).prop_map(|(bits, rep)| Val::Vector { bits, rep }),
            1 => prop_oneof![Just(16_382u32), Just(16_383), Just(16_384), 16_000u32..17_000].prop_map(|rep| Val::Vector { bits: vec![0x3f80_0000], rep }),
        ]
        .boxed(),
        Ty::Jsonb => (jd(), any::<bool>()).prop_map(|(doc, via_builder)| Val::Json { doc, via_builder }).boxed(),
        Ty::Decimal => (prop_oneof![any::<i64>(), -2i64..2, Just(i64::MIN), Just(i64::MAX)], prop_oneof![any::<u64>(), 0u64..1000], prop_oneof![any::<i16>(), 0i16..10], any::<bool>())
            .prop_map(|(hi, lo, scale, neg)| Val::Decimal { hi, lo, scale, neg })
            .boxed(),
        Ty::Interval => (i64_adv(), i32_adv(), i32_adv()).prop_map(|(m, d, mo)| Val::Interval(m, d, mo)).boxed(),
        Ty::Int4Range | Ty::DateRange => r4().boxed(),
        Ty::Int8Range | Ty::TimestampRange => r8().boxed(),
        Ty::Enum => (prop_oneof![any::<u16>(), 0u16..3], prop_oneof![any::<u16>(), 0u16..3]).prop_map(|(t, o)| Val::Enum(t, o)).boxed(),
        Ty::Point => proptest::collection::vec(f64_bits(), 2).prop_map(Val::Geo).boxed(),
        Ty::Box => proptest::collection::vec(f64_bits(), 4).prop_map(Val::Geo).boxed(),
        Ty::Circle => proptest::collection::vec(f64_bits(), 3).prop_map(Val::Geo).boxed(),
        Ty::Composite => proptest::collection::vec(field(), 1..10).prop_map(Val::Composite).boxed(),
        Ty::Array => array_val().boxed(),
    }
}

fn ty_strategy() -> impl Strategy<Value = Ty> {
    prop_oneof![
        // variable-width (about half)
        8 => Just(Ty::Text),
        5 => Just(Ty::Blob),
        2 => Just(Ty::Vector),
        2 => Just(Ty::Jsonb),
        2 => proptest::option::weighted(0.7, 0u32..30).prop_map(Ty::Varchar),
        2 => (0u32..20).prop_map(Ty::Char),
        2 => Just(Ty::Decimal),
        1 => Just(Ty::Composite),
        2 => Just(Ty::Array),
        // fixed-width
        2 => Just(Ty::Bool), 2 => Just(Ty::Int2), 3 => Just(Ty::Int4), 3 => Just(Ty::Int8),
        2 => Just(Ty::Float4), 2 => Just(Ty::Float8),
        1 => Just(Ty::Date), 1 => Just(Ty::Time), 1 => Just(Ty::Timestamp), 1 => Just(Ty::TimestampTz),
        1 => Just(Ty::Uuid), 1 => Just(Ty::MacAddr), 1 => Just(Ty::Inet4), 1 => Just(Ty::Inet6),
        1 => Just(Ty::Interval),
        1 => Just(Ty::Int4Range), 1 => Just(Ty::Int8Range), 1 => Just(Ty::DateRange), 1 => Just(Ty::TimestampRange),
        1 => Just(Ty::Enum), 1 => Just(Ty::Point), 1 => Just(Ty::Box), 1 => Just(Ty::Circle),
    ]
}

fn col_strategy(g: Gates) -> impl Strategy<Value = Col> {
    ty_strategy().prop_flat_map(move |ty| {
        let v = move || prop_oneof![3 => val_for(ty, g), 1 => Just(Val::Null)];
        (v(), v()).prop_map(move |(a, b)| Col { ty, a, b })
    })
}

pub fn strategy(g: Gates) -> BoxedStrategy<Case> {
    prop_oneof![6 => 1usize..=6, 5 => 1usize..=16, 2 => 17usize..=64, 1 => Just(64usize)]
        .prop_flat_map(move |n| proptest::collection::vec(col_strategy(g), n))
        .prop_map(|cols| Case { cols })
        .boxed()
}

pub fn main(tier: Tier, replay: Option<String>) -> i32 {
    if let Some(p) = replay {
        return vcore::replay_file("C31", &C31, &p);
    }
    let ctx = Ctx::new("C31", tier, "exploration");
    ctx.set_rule(
        "proptest-generated schemas of 1..64 columns over all 32 DataTypes (about half variable-width; CHAR(n)/VARCHAR(n) with lengths; composite values built with a nested RecordBuilder, \
         arrays with ArrayBuilder) and two rows A/B per schema, each column NULL with probability 1/4; values at type limits, empty strings/blobs, NaN/-0.0 floats, texts/blobs/vectors up to a few KiB and a \
         low-frequency class (about 1% of text/blob/vector values) whose variable data reaches 65 534..70 000 bytes. Each case runs the typed setter/getter path, the OwnedValue path (build_record_from_values / _with_builder / _into_buffer, \
         extract_row_from_record) and the reset comparisons. Non-trivial = row A has >= 2 non-NULL variable-width columns with a NULL column between them; distinct by hash of (types, row A).",
    );
    ctx.assume("OwnedValue has no variant for range types: in the OwnedValue path range columns carry NULL only (non-NULL ranges are covered by the typed path)");
    ctx.assume("the zero-copy RecordView::get_vector may refuse an unaligned payload (documented); only a returned slice is compared");
    ctx.assume("a row whose variable-width data exceeds 65 535 bytes may be refused by build(); accepted rows must read back equal");
    let g = Gates { blob_like_toast: !ctx.gate_closed("blob.like_toast_pointer") };
    let cases = tier.pick(300_000, 6_000_000);
    vcore::drive(&ctx, &C31, move || strategy(g), cases, 16);
    ctx.finish()
}
