//! C17 Joins return the SQL-defined rows under any memory budget.
//!
//! G: 2–3 generated tables (0–40 rows in quick, up to 2000 formula-generated rows in
//! thorough; join-key columns with NULLs and many duplicates) and a join query: INNER / LEFT /
//! RIGHT / FULL OUTER / CROSS / comma joins of 2–3 items (self joins included), ON = equality
//! between columns of two items (numeric or text), optionally AND-ed with an extra predicate,
//! or a non-equi comparison; optional WHERE; explicit column lists or `*`.
//! O1 (differential): bag equality with bundled SQLite on identical data. O2 (metamorphic):
//! the same query under `PRAGMA join_memory_budget` ∈ {1 KiB, 16 KiB, 256 KiB, 10 MiB}
//! returns equal bags. Spilling is observed through the database directory (any entry that
//! appears / any directory mtime change while the query runs) and reported as a class.

use std::collections::BTreeSet;

use proptest::prelude::*;
use serde::{Deserialize, Serialize};
use vcore::{Check, Ctx, Outcome, Tier};

use crate::equery::*;

#[derive(Debug, Clone, Serialize, Deserialize)]
pub struct Case {
    pub schema: Schema,
    pub q: Select,
}

pub struct C17 {
    pub gates: BTreeSet<String>,
    pub all_tags: bool,
}

pub const BUDGETS: [usize; 4] = [1024, 16 * 1024, 256 * 1024, 10 * 1024 * 1024];

pub const TRIGGERS: &[&str] = &[
    "join.select_star",
    "select.constant_item",
    "join.condition_on_constant",
    "text.toasted_value",
    "join.right",
    "join.full",
    "join.three_items",
    "join.outer_with_where",
    "join.outer_on_extra_predicate",
    "join.inner_on_extra_predicate",
    "join.indexed_table",
    "select.same_name_column_of_other_type",
];

fn dir_fingerprint(p: &std::path::Path) -> Vec<(String, u128)> {
    // names + mtimes of the database directory's entries (one level deep + `partition/`)
    let mut v = Vec::new();
    let visit = |d: &std::path::Path, v: &mut Vec<(String, u128)>| {
        if let Ok(rd) = std::fs::read_dir(d) {
            for e in rd.flatten() {
                let m = e.metadata().ok();
                let is_dir = m.as_ref().map(|m| m.is_dir()).unwrap_or(false);
                let name = e.path().display().to_string();
                if is_dir {
                    let mt = m.and_then(|m| m.modified().ok()).and_then(|t| t.duration_since(std::time::UNIX_EPOCH).ok()).map(|d| d.as_nanos()).unwrap_or(0);
                    v.push((name, mt));
                } else if name.ends_with(".spill") {
                    v.push((name, 1));
                }
            }
        }
    };
    visit(p, &mut v);
    let mt = std::fs::metadata(p).ok().and_then(|m| m.modified().ok()).and_then(|t| t.duration_since(std::time::UNIX_EPOCH).ok()).map(|d| d.as_nanos()).unwrap_or(0);
    v.push((".".into(), mt));
    v.sort();
    v
}

/// static + data-dependent tags of a join query; returns (keys have NULLs and duplicates)
pub fn join_tags(case: &Case, tags: &mut BTreeSet<&'static str>) -> bool {
    let q = &case.q;
    let n = case.schema.tables.len();
    if q.from.len() >= 3 {
        tags.insert("join.three_items");
    }
    let mut seen = BTreeSet::new();
    for f in &q.from {
        if let Src::Table(t) = &f.src {
            if !seen.insert(*t as usize % n) {
                tags.insert("join.self_join");
            }
        }
    }
    let mut kinds = BTreeSet::new();
    for f in q.from.iter().skip(1) {
        kinds.insert(f.join);
    }
    let outer = kinds.iter().any(|k| matches!(k, JoinKind::Left | JoinKind::Right | JoinKind::Full));
    if kinds.len() > 1 {
        tags.insert("join.mixed_kinds");
    }
    if q.filter.is_some() {
        tags.insert(if outer { "join.outer_with_where" } else { "join.inner_with_where" });
    }
    let mut nulls_and_dups = false;
    for (i, f) in q.from.iter().enumerate().skip(1) {
        let Some(on) = &f.on else { continue };
        // shape of the ON clause
        let (equi, extra): (Option<&E>, Option<&E>) = match on {
            E::And(a, b) => (Some(a), Some(b)),
            e => (Some(e), None),
        };
        if let Some(E::Cmp(op, a, b)) = equi {
            if let (E::ICol { item: ia, cls, sel: sa }, E::ICol { item: ib, sel: sb, .. }) = (&**a, &**b) {
                if *op != CmpOp::Eq {
                    tags.insert("join.non_equi_condition");
                } else if *cls == Cls::Text {
                    tags.insert("join.text_key");
                }
                // data: NULLs and duplicates among the two key columns
                let mut part = q.clone();
                part.from.truncate(i + 1);
                let sc = part.top_scope(&case.schema);
                let mut keyvals: Vec<Vec<Val>> = Vec::new();
                for (it, sel) in [(*ia, *sa), (*ib, *sb)] {
                    if let Some((fi, c, _)) = sc.pick_in_item(it, *cls, sel) {
                        if let Src::Table(t) = &q.from[fi].src {
                            let data = case.schema.tables[*t as usize % n].data();
                            keyvals.push(data.iter().map(|r| r[c].clone()).collect());
                        }
                    }
                }
                if keyvals.len() < 2 {
                    tags.insert("join.condition_on_constant");
                }
                if keyvals.len() == 2 {
                    let has_null = keyvals.iter().any(|k| k.iter().any(|v| v.is_null()));
                    let has_dup = keyvals.iter().any(|k| {
                        let mut s: Vec<&Val> = k.iter().filter(|v| !v.is_null()).collect();
                        s.sort_by(|a, b| val_cmp(a, b));
                        s.windows(2).any(|w| val_eq(w[0], w[1]))
                    });
                    if has_null {
                        tags.insert("join.null_key");
                    }
                    if has_null && has_dup {
                        nulls_and_dups = true;
                    }
                    // int column joined with double column
                    let kinds: BTreeSet<bool> = keyvals.iter().flat_map(|k| k.iter().filter(|v| !v.is_null()).map(|v| matches!(v, Val::Float(_)))).collect();
                    if kinds.len() > 1 {
                        tags.insert("join.int_vs_double_key");
                    }
                }
            } else {
                tags.insert("join.other_condition");
            }
        } else {
            tags.insert("join.other_condition");
        }
        if extra.is_some() {
            tags.insert(match f.join {
                JoinKind::Inner => "join.inner_on_extra_predicate",
                _ => "join.outer_on_extra_predicate",
            });
        }
    }
    {
        let sc = q.top_scope(&case.schema);
        for it in &q.items {
            if let E::ICol { item, cls, sel } = &it.e {
                if sc.pick_in_item(*item, *cls, *sel).is_none() {
                    tags.insert("select.constant_item");
                }
            }
        }
        if q.items.is_empty() {
            tags.insert("join.select_star");
        }
        // a selected column whose name exists with a different type in another from-item
        let tys: Vec<Vec<Ty>> = q
            .from
            .iter()
            .map(|f| match &f.src {
                Src::Table(t) => {
                    let mut v = vec![Ty::Int];
                    v.extend(case.schema.tables[*t as usize % n].cols.iter().copied());
                    v
                }
                _ => vec![],
            })
            .collect();
        for it in &q.items {
            if let E::ICol { item, cls, sel } = &it.e {
                if let Some((i, c, _)) = sc.pick_in_item(*item, *cls, *sel) {
                    for (j, other) in tys.iter().enumerate() {
                        if j != i && c < other.len() && c < tys[i].len() && other[c] != tys[i][c] {
                            tags.insert("select.same_name_column_of_other_type");
                        }
                    }
                }
            }
        }
    }
    if case.schema.tables.iter().any(|t| matches!(t.rows, Rows::Formula { .. })) {
        tags.insert("join.large_input");
    }
    if case.schema.tables.iter().any(|t| t.nrows() == 0) {
        tags.insert("join.empty_input");
    }
    if case.schema.tables.iter().any(|t| t.pk) {
        tags.insert("table.primary_key");
    }
    {
        // a table with a primary key or a secondary index takes part in the join
        let used: BTreeSet<usize> = q.from.iter().filter_map(|f| if let Src::Table(t) = &f.src { Some(*t as usize % n) } else { None }).collect();
        if used.iter().any(|t| case.schema.tables[*t].pk || case.schema.tables[*t].index.is_some()) {
            tags.insert("join.indexed_table");
        }
    }
    if q.filter.is_some() && tags.contains("join.self_join") {
        tags.insert("join.self_join_with_where");
    }
    if case.schema.tables.iter().any(|t| t.index.is_some()) {
        tags.insert("table.secondary_index");
    }
    if case.schema.tables.iter().any(|t| t.long_text) {
        tags.insert("text.toasted_value");
    }
    nulls_and_dups
}

impl C17 {
    fn go(&self, case: &Case, gates: &BTreeSet<String>) -> Outcome {
        let mut out = Outcome::ok();
        let (sql, mut tags) = render(&case.schema, &case.q, Dialect::Turdb, false);
        let (lite, _) = render(&case.schema, &case.q, Dialect::Sqlite, false);
        let nt = join_tags(case, &mut tags);
        if let Some(g) = tags.iter().find(|t| gates.contains(**t)) {
            out.add_class(format!("gated:{}", g));
            return out;
        }
        let sigtags = tagstr(tags.iter().copied().filter(|t| self.all_tags || TRIGGERS.contains(t)));
        let w = match World::setup("C17", &case.schema) {
            Ok(w) => w,
            Err(_) => {
                out.add_class("setup_rejected");
                return out;
            }
        };
        let exp = match w.sqlite(&lite) {
            Ok(r) => r,
            Err(e) => {
                out.add_class("oracle_rejected");
                if std::env::var("VERIF_DEV_ORACLE").is_ok() {
                    eprintln!("sqlite rejects: {} -> {}", lite, e);
                }
                return out;
            }
        };
        for t in &tags {
            out.add_class(format!("tag:{}", t));
        }
        out.add_class(match exp.len() {
            0 => "result=0",
            1..=50 => "result=1..50",
            51..=5000 => "result=51..5000",
            _ => "result>5000",
        });
        let mut first: Option<Vec<Row>> = None;
        let mut spilled_any = false;
        for (bi, b) in BUDGETS.iter().enumerate() {
            if let Err(e) = w.turdb.h().execute(&format!("PRAGMA join_memory_budget = {}", b)) {
                out.set_fail("C17|pragma|rejected", format!("PRAGMA join_memory_budget = {} -> {}", b, e));
                return out;
            }
            let before = dir_fingerprint(&w.turdb.path);
            let got = w.turdb(&sql);
            let after = dir_fingerprint(&w.turdb.path);
            let spilled = before != after;
            if spilled {
                spilled_any = true;
                out.add_class(format!("spill_observed:budget={}", b));
            }
            match got {
                Ok(got) => {
                    if let Some((kind, d)) = bag_mismatch(&exp, &got) {
                        out.set_fail(format!("C17|vs_reference|{}|{}", kind, sigtags), format!("budget {}: {}\n  {}", b, sql, d));
                        return out;
                    }
                    if let Some(f) = &first {
                        if let Some((kind, d)) = bag_mismatch(f, &got) {
                            out.set_fail(format!("C17|budget_changes_result|{}|{}", kind, sigtags), format!("budget {} vs {}: {}\n  {}", BUDGETS[0], b, sql, d));
                            return out;
                        }
                    } else {
                        first = Some(got);
                    }
                }
                Err(e) => {
                    if bi > 0 && first.is_some() {
                        out.set_fail(format!("C17|budget_changes_result|error|{}", sigtags), format!("budget {}: {} -> {} (accepted under budget {})", b, sql, e, BUDGETS[0]));
                        return out;
                    }
                    out.add_class(format!("rejected:{}", construct_of(&tags)));
                    if std::env::var("VERIF_DEV_REJECTS").is_ok() {
                        eprintln!("rejected: {} -> {}", sql, e);
                    }
                    return out;
                }
            }
        }
        out.add_class("checked");
        if !spilled_any {
            out.add_class("spill_observed:never");
        }
        if nt {
            out.add_class("nontrivial");
            out.nontrivial = Some(vcore::hash_of(&(sql, format!("{:?}", case.schema))));
        }
        out
    }
}

impl Check for C17 {
    type Case = Case;
    fn run(&self, case: &Case) -> Outcome {
        self.go(case, &self.gates)
    }
    fn run_strict(&self, case: &Case) -> Outcome {
        self.go(case, &BTreeSet::new())
    }
}

fn join_kind_strategy(cfg: &GenCfg) -> BoxedStrategy<JoinKind> {
    let mut alts: Vec<(u32, BoxedStrategy<JoinKind>)> = vec![(4, Just(JoinKind::Inner).boxed())];
    for (w, k, name) in [(3, JoinKind::Left, "join.left"), (2, JoinKind::Right, "join.right"), (2, JoinKind::Full, "join.full"), (1, JoinKind::Cross, "join.cross"), (1, JoinKind::Comma, "join.comma")] {
        if cfg.on(name) {
            alts.push((w, Just(k).boxed()));
        }
    }
    proptest::strategy::Union::new_weighted(alts).boxed()
}

/// ON clause for from-item `i` (joined with items 0..i)
fn on_strategy(cfg: &GenCfg, i: u8) -> BoxedStrategy<Option<E>> {
    let cls = prop_oneof![4 => Just(Cls::Num), 1 => Just(Cls::Text)];
    let equi = (cls, 0..i, any::<u8>(), any::<u8>(), prop_oneof![9 => Just(CmpOp::Eq), 1 => cmpop_strategy()]).prop_map(move |(cls, other, s1, s2, op)| {
        E::Cmp(op, Box::new(E::ICol { item: other, cls, sel: s1 }), Box::new(E::ICol { item: i, cls, sel: s2 }))
    });
    let mut pcfg = cfg.clone();
    pcfg.depth = 1;
    let extra = pred_strategy(&pcfg);
    if cfg.on("join.inner_on_extra_predicate") || cfg.on("join.outer_on_extra_predicate") {
        prop_oneof![
            6 => equi.clone().prop_map(Some),
            3 => (equi, extra).prop_map(|(a, b)| Some(E::And(Box::new(a), Box::new(b)))),
        ]
        .boxed()
    } else {
        equi.prop_map(Some).boxed()
    }
}

pub fn join_select_strategy(cfg: &GenCfg) -> BoxedStrategy<Select> {
    let mut wcfg = cfg.clone();
    wcfg.depth = 1;
    let filter = if cfg.on("where") { prop_oneof![3 => Just(None), 2 => pred_strategy(&wcfg).prop_map(Some)].boxed() } else { Just(None).boxed() };
    let three = if cfg.on("join.three_items") { prop_oneof![3 => Just(false), 1 => Just(true)].boxed() } else { Just(false).boxed() };
    (
        proptest::collection::vec(any::<u8>(), 3),
        (join_kind_strategy(cfg), on_strategy(cfg, 1)),
        (join_kind_strategy(cfg), on_strategy(cfg, 2)),
        three,
        filter,
        // select list: star / ids + a few columns
        {
            let cls_max: u8 = if cfg.on("select.constant_item") { 3 } else { 1 };
            let cols = proptest::collection::vec((0u8..3, any::<u8>(), 0u8..cls_max), 0..3).prop_map(Some);
            if cfg.on("join.select_star") { prop_oneof![1 => Just(None), 5 => cols].boxed() } else { cols.boxed() }
        },
        any::<bool>(),
    )
        .prop_map(|(tabs, j1, j2, three, filter, cols, alias)| {
            let mut q = Select::default();
            q.alias = alias;
            q.from.push(FromItem { src: Src::Table(tabs[0]), join: JoinKind::Comma, on: None });
            let mut push = |t: u8, (k, on): (JoinKind, Option<E>)| {
                let on = if matches!(k, JoinKind::Cross | JoinKind::Comma) { None } else { on };
                q.from.push(FromItem { src: Src::Table(t), join: k, on });
            };
            push(tabs[1], j1);
            if three {
                push(tabs[2], j2);
            }
            let n = q.from.len() as u8;
            q.filter = filter;
            if let Some(cols) = cols {
                // ids of every item (so rows are identifiable), then extra columns
                for i in 0..n {
                    q.items.push(Item { e: E::ICol { item: i, cls: Cls::Num, sel: 0 }, alias: false });
                }
                for (item, sel, c) in cols {
                    let cls = [Cls::Num, Cls::Text, Cls::Bool][c as usize];
                    q.items.push(Item { e: E::ICol { item: item % n, cls, sel }, alias: false });
                }
            }
            q
        })
        .boxed()
}

fn big_table_strategy(max_n: u16) -> BoxedStrategy<Table> {
    (proptest::collection::vec(ty_strategy(), 0..=2), 50..=max_n, any::<u32>(), prop_oneof![Just(8u8), Just(64u8), Just(200u8)])
        .prop_map(|(mut cols, n, seed, distinct_keys)| {
            cols.insert(0, Ty::Int);
            Table { cols, rows: Rows::Formula { n, seed, distinct_keys }, pk: false, index: None, long_text: false }
        })
        .boxed()
}

pub fn strategy(gates: &BTreeSet<String>, max_rows: usize, big_rows: u16) -> BoxedStrategy<Case> {
    let mut cfg = GenCfg::new(1);
    cfg.off = gates.clone();
    let small = schema_strategy(2, 3, max_rows, cfg.on("join.indexed_table"));
    // large inputs: two formula tables joined on their first column (an INT key with NULLs and duplicates)
    let big = (big_table_strategy(big_rows), big_table_strategy(big_rows), join_kind_strategy(&cfg), proptest::collection::vec(any::<u8>(), 0..2)).prop_map(|(a, b, k, extra)| {
        let k = if matches!(k, JoinKind::Cross | JoinKind::Comma) { JoinKind::Inner } else { k };
        let mut q = Select::default();
        q.from.push(FromItem { src: Src::Table(0), join: JoinKind::Comma, on: None });
        // sel 1 = the first non-id numeric column = the key column c0
        q.from.push(FromItem { src: Src::Table(1), join: k, on: Some(E::Cmp(CmpOp::Eq, Box::new(E::ICol { item: 0, cls: Cls::Num, sel: 1 }), Box::new(E::ICol { item: 1, cls: Cls::Num, sel: 1 }))) });
        for i in 0..2 {
            q.items.push(Item { e: E::ICol { item: i, cls: Cls::Num, sel: 0 }, alias: false });
        }
        for s in extra {
            q.items.push(Item { e: E::ICol { item: s % 2, cls: Cls::Num, sel: 1 + s / 2 }, alias: false });
        }
        Case { schema: Schema { tables: vec![a, b] }, q }
    });
    let smallcase = (small, join_select_strategy(&cfg)).prop_map(|(schema, q)| Case { schema, q });
    if cfg.on("join.large_input") {
        prop_oneof![12 => smallcase, 1 => big].boxed()
    } else {
        smallcase.boxed()
    }
}

pub fn main(tier: Tier, replay: Option<String>) -> i32 {
    let findings = vcore::Findings::load_default();
    let gates: BTreeSet<String> = findings.closed_gates("C17").into_iter().collect();
    let check = C17 { gates: gates.clone(), all_tags: std::env::var("VERIF_DEV_ALLTAGS").is_ok() };
    if let Some(p) = replay {
        return vcore::replay_file("C17", &check, &p);
    }
    let ctx = Ctx::new("C17", tier, "exploration");
    ctx.set_rule(
        "2-3 proptest-generated tables (0-40 rows from small pools with 20% NULLs; plus, in 1 of 13 cases, two formula-generated tables of 50-300 rows (quick) / 50-2000 rows (thorough) \
         whose INT key column has 8/64/200 distinct values and 9% NULLs) and one join query over 2-3 from-items (INNER/LEFT/RIGHT/FULL/CROSS/comma, self joins, ON = column equality \
         [AND extra predicate] or a non-equi comparison, optional WHERE, explicit columns or *), run under PRAGMA join_memory_budget in {1 KiB, 16 KiB, 256 KiB, 10 MiB}. \
         Non-trivial = the two columns of a join condition hold NULLs and duplicate values (the property's 'and the smallest budget spilled' conjunct is reported as class \
         spill_observed:* instead, because no SQL join on this tree ever spills); distinct by hash of (SQL text, schema).",
    );
    ctx.assume("bundled SQLite (3.46) implements INNER/LEFT/RIGHT/FULL/CROSS join semantics; results compared as bags, Bool as 0/1");
    ctx.note(
        "spilling: Database::join_memory_budget() (src/database/config.rs) has no caller and ExecutorBuilder::build_grace_hash_join (the only constructor that passes a spill directory) \
         has no caller in the SQL path, so PRAGMA join_memory_budget is stored and never consulted; the class spill_observed:never counts the cases in which no directory entry appeared or changed",
    );
    let cases = dev_cases(tier.pick(5000, 120_000));
    let g = gates.clone();
    let big = tier.pick(300u16, 2000u16);
    vcore::drive(&ctx, &check, move || strategy(&g, 40, big), cases, 16);
    ctx.finish()
}
