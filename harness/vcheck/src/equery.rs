//! E-query: the shared engine of the query-semantics checks C14–C19 (DESIGN.md §4.0).
//!
//! * schema + data generator: 1–3 tables `t0..t2`, each `id INT` (unique, never NULL, optional
//!   PRIMARY KEY) plus 1–5 columns `c0..c4` of INT/BIGINT/DOUBLE/TEXT/BOOLEAN; cells are
//!   *selectors* into small per-type pools (two of ten selectors are NULL), so duplicates and
//!   NULLs are common and any case shrinks as a plain value. Doubles are multiples of 0.5.
//! * query AST (`E` expressions with typed leaves that carry selectors, `Select`) and one
//!   renderer for both dialects (TurDB and SQLite coincide on the generated subset except
//!   `OFFSET` without `LIMIT`).
//! * `World`: one fresh TurDB database and one in-memory SQLite connection loaded with
//!   identical data.
//! * a small Kleene-logic evaluator for scalar expressions over one row (C14's second oracle,
//!   C19's non-triviality rule).
//! * result comparison: bags with Bool normalised to 0/1 and floats at relative 1e-9.
//!
//! Dialect restrictions (where SQLite differs from the SQL standard the generator is
//! restricted, never the oracle bent): no division/modulo, no text↔number comparison, no
//! implicit casts, no bare columns next to aggregates, scalar subqueries return ≤ 1 row by
//! construction, LIKE is made case-sensitive in SQLite (`PRAGMA case_sensitive_like`), no
//! INTERSECT ALL / EXCEPT ALL, no `A op B INTERSECT C` (precedence differs), integer ranges
//! cannot overflow.

use std::collections::BTreeSet;

use proptest::prelude::*;
use serde::{Deserialize, Serialize};

pub use crate::hist::{CmpOp, Row, Ty, Val};
use crate::world::Db;

// ------------------------------------------------------------------------------ schema + data

#[derive(Debug, Clone, PartialEq, Serialize, Deserialize)]
pub enum Rows {
    /// one selector vector per row (always 5 wide; surplus selectors are ignored)
    Explicit(Vec<Vec<u8>>),
    /// `n` rows whose selectors are derived from `seed` (large join inputs)
    Formula { n: u16, seed: u32, distinct_keys: u8 },
}

#[derive(Debug, Clone, PartialEq, Serialize, Deserialize)]
pub struct Table {
    pub cols: Vec<Ty>,
    pub rows: Rows,
    /// `id INT PRIMARY KEY` instead of a plain `id INT`
    pub pk: bool,
    /// secondary index on column `c{i % ncols}`
    pub index: Option<u8>,
    /// the text pool value 'abc' is 'abc' followed by 1200 'x' (above the TOAST threshold)
    #[serde(default)]
    pub long_text: bool,
}

#[derive(Debug, Clone, PartialEq, Serialize, Deserialize)]
pub struct Schema {
    pub tables: Vec<Table>,
}

pub fn pool(ty: Ty, sel: u8) -> Val {
    let s = (sel % 10) as usize;
    if s >= 8 {
        return Val::Null;
    }
    match ty {
        Ty::Int => Val::Int([0i64, 1, 2, 3, -1, 5, 7, 10][s]),
        Ty::BigInt => Val::Int([0i64, 1, 2, -1, 5, 3_000_000_000, -3_000_000_000, 10][s]),
        Ty::Double => Val::Float([0.0f64, 0.5, 1.0, 1.5, -0.5, 2.0, 2.5, 10.0][s]),
        Ty::Text => Val::Text(["a", "b", "ab", "abc", "", "B", "ba", "a_c"][s].to_string()),
        Ty::Bool => Val::Bool(s < 4),
    }
}

pub const LIKE_PATTERNS: [&str; 8] = ["a%", "%b", "_b", "%", "a_c", "ab", "%a%", ""];

impl Table {
    pub fn nrows(&self) -> usize {
        match &self.rows {
            Rows::Explicit(r) => r.len(),
            Rows::Formula { n, .. } => *n as usize,
        }
    }
    /// materialised rows: id (1-based row number) followed by the column values
    pub fn data(&self) -> Vec<Row> {
        let n = self.nrows();
        let mut out = Vec::with_capacity(n);
        for r in 0..n {
            let mut row = Vec::with_capacity(self.cols.len() + 1);
            row.push(Val::Int(r as i64 + 1));
            for (c, ty) in self.cols.iter().enumerate() {
                let v = match &self.rows {
                    Rows::Explicit(rows) => {
                        let v = pool(*ty, rows[r].get(c).copied().unwrap_or(0));
                        match v {
                            Val::Text(s) if self.long_text && s == "abc" => Val::Text(format!("abc{}", "x".repeat(1200))),
                            v => v,
                        }
                    }
                    Rows::Formula { seed, distinct_keys, .. } => {
                        let h = vcore::splitmix((*seed as u64) << 32 ^ (r as u64) << 8 ^ c as u64);
                        if c == 0 && matches!(ty, Ty::Int | Ty::BigInt) {
                            // join key column: `distinct_keys` different values plus NULLs
                            let k = (*distinct_keys).max(1) as u64;
                            if h % 11 == 0 {
                                Val::Null
                            } else {
                                Val::Int(((h >> 8) % k) as i64)
                            }
                        } else {
                            pool(*ty, (h % 251) as u8)
                        }
                    }
                };
                row.push(v);
            }
            out.push(row);
        }
        out
    }
}

#[derive(Debug, Clone, Copy, PartialEq, Eq, Hash, Serialize, Deserialize, PartialOrd, Ord)]
pub enum Cls {
    Num,
    Text,
    Bool,
}

pub fn cls_of(ty: Ty) -> Cls {
    match ty {
        Ty::Int | Ty::BigInt | Ty::Double => Cls::Num,
        Ty::Text => Cls::Text,
        Ty::Bool => Cls::Bool,
    }
}

// ------------------------------------------------------------------------------ AST

#[derive(Debug, Clone, Copy, PartialEq, Eq, Hash, Serialize, Deserialize)]
pub enum AggFn {
    CountStar,
    Count,
    Sum,
    Avg,
    Min,
    Max,
}

/// Expressions. Leaves carry selectors that are resolved against the scope at render /
/// evaluation time (a column selector picks among the scope's columns of the wanted class;
/// when the scope has none, a literal is used), so every tree is meaningful for every schema.
#[derive(Debug, Clone, PartialEq, Serialize, Deserialize)]
pub enum E {
    // ---- numeric
    NCol { up: u8, sel: u8 },
    /// small integer literal
    ILit(i8),
    /// double literal = q / 2
    DLit(i8),
    NNull,
    Add(Box<E>, Box<E>),
    Sub(Box<E>, Box<E>),
    Mul(Box<E>, Box<E>),
    /// column of class `cls` of from-item `item` (join conditions); falls back to the item's id
    ICol { item: u8, cls: Cls, sel: u8 },
    // ---- text
    TCol { up: u8, sel: u8 },
    TLit(u8),
    TNull,
    // ---- boolean
    BCol { up: u8, sel: u8 },
    BLit(bool),
    BNull,
    /// numeric or text comparison (operands of one class)
    Cmp(CmpOp, Box<E>, Box<E>),
    /// boolean column compared with TRUE / FALSE
    CmpB(bool, Box<E>, bool),
    And(Box<E>, Box<E>),
    Or(Box<E>, Box<E>),
    Not(Box<E>),
    IsNull(Box<E>, bool),
    InList(Box<E>, Vec<E>, bool),
    Between(Box<E>, Box<E>, Box<E>, bool),
    Like(Box<E>, u8, bool),
    /// always-true / always-false constant comparisons `1=1`, `1=0` (C19 rewrites)
    ConstCmp(bool),
    // ---- subqueries
    InSub(Box<E>, Box<Select>, bool),
    Exists(Box<Select>, bool),
    /// scalar subquery of the given class (the generator makes it return <= 1 row)
    Scalar(Cls, Box<Select>),
    // ---- aggregates (grouped contexts only)
    Agg(AggFn, Option<Box<E>>, bool),
}

#[derive(Debug, Clone, Copy, PartialEq, Eq, Hash, Serialize, Deserialize, PartialOrd, Ord)]
pub enum JoinKind {
    /// first item, or comma-separated item
    Comma,
    Inner,
    Left,
    Right,
    Full,
    Cross,
}

#[derive(Debug, Clone, PartialEq, Serialize, Deserialize)]
pub enum Src {
    Table(u8),
    Derived(Box<Select>),
}

#[derive(Debug, Clone, PartialEq, Serialize, Deserialize)]
pub struct FromItem {
    pub src: Src,
    pub join: JoinKind,
    pub on: Option<E>,
}

#[derive(Debug, Clone, PartialEq, Serialize, Deserialize)]
pub struct Item {
    pub e: E,
    pub alias: bool,
}

#[derive(Debug, Clone, PartialEq, Serialize, Deserialize)]
pub enum OKind {
    /// `ORDER BY <n>` (ordinal of a select item)
    Ordinal(u8),
    /// the text of select item n repeated
    ItemExpr(u8),
    /// the alias of select item n
    Alias(u8),
    /// an expression that is not in the select list
    Hidden(E),
}

#[derive(Debug, Clone, PartialEq, Serialize, Deserialize)]
pub struct OKey {
    pub kind: OKind,
    pub desc: bool,
}

#[derive(Debug, Clone, Copy, PartialEq, Eq, Hash, Serialize, Deserialize)]
pub enum SetOp {
    Union,
    UnionAll,
    Intersect,
    Except,
}

#[derive(Debug, Clone, PartialEq, Serialize, Deserialize, Default)]
pub struct Select {
    pub from: Vec<FromItem>,
    pub filter: Option<E>,
    /// empty = `*`
    pub items: Vec<Item>,
    pub distinct: bool,
    pub group_by: Vec<E>,
    pub having: Option<E>,
    pub setops: Vec<(SetOp, Select)>,
    pub order_by: Vec<OKey>,
    pub limit: Option<u8>,
    pub offset: Option<u8>,
    /// refer to tables through aliases `x<n>` (forced in subqueries and for repeated tables)
    pub alias: bool,
}

impl Select {
    pub fn table(t: u8) -> Select {
        Select { from: vec![FromItem { src: Src::Table(t), join: JoinKind::Comma, on: None }], ..Default::default() }
    }
}

// ------------------------------------------------------------------------------ scopes

#[derive(Clone, Debug)]
pub struct SCol {
    pub name: String,
    pub cls: Cls,
    pub is_id: bool,
}

#[derive(Clone, Debug)]
pub struct SItem {
    pub alias: String,
    pub cols: Vec<SCol>,
}

#[derive(Clone, Debug, Default)]
pub struct Scope {
    pub items: Vec<SItem>,
    pub qualify: bool,
}

impl Scope {
    /// (item index, column index, flat index) of the `sel`-th column of class `cls`
    pub fn pick(&self, cls: Cls, sel: u8) -> Option<(usize, usize, usize)> {
        let mut cands = Vec::new();
        let mut flat = 0usize;
        for (i, it) in self.items.iter().enumerate() {
            for (c, col) in it.cols.iter().enumerate() {
                if col.cls == cls {
                    cands.push((i, c, flat));
                }
                flat += 1;
            }
        }
        if cands.is_empty() {
            None
        } else {
            Some(cands[sel as usize % cands.len()])
        }
    }
    /// like `pick`, restricted to from-item `item % n`; for Num falls back to that item's first column
    pub fn pick_in_item(&self, item: u8, cls: Cls, sel: u8) -> Option<(usize, usize, usize)> {
        if self.items.is_empty() {
            return None;
        }
        let i = item as usize % self.items.len();
        let base: usize = self.items[..i].iter().map(|x| x.cols.len()).sum();
        let cands: Vec<usize> = self.items[i].cols.iter().enumerate().filter(|(_, c)| c.cls == cls).map(|(c, _)| c).collect();
        if cands.is_empty() {
            return None;
        }
        let c = cands[sel as usize % cands.len()];
        Some((i, c, base + c))
    }
    pub fn width(&self) -> usize {
        self.items.iter().map(|i| i.cols.len()).sum()
    }
    pub fn col_text(&self, i: usize, c: usize, force_qualify: bool) -> String {
        if self.qualify || force_qualify {
            format!("{}.{}", self.items[i].alias, self.items[i].cols[c].name)
        } else {
            self.items[i].cols[c].name.clone()
        }
    }
}

pub fn table_scope_cols(t: &Table) -> Vec<SCol> {
    let mut cols = vec![SCol { name: "id".into(), cls: Cls::Num, is_id: true }];
    for (i, ty) in t.cols.iter().enumerate() {
        cols.push(SCol { name: format!("c{}", i), cls: cls_of(*ty), is_id: false });
    }
    cols
}

// ------------------------------------------------------------------------------ rendering

#[derive(Clone, Copy, PartialEq, Eq, Debug)]
pub enum Dialect {
    Turdb,
    Sqlite,
}

pub struct Rctx<'a> {
    pub schema: &'a Schema,
    pub dialect: Dialect,
    pub stack: Vec<Scope>,
    pub next_alias: usize,
    /// construct tags collected while rendering (see `tag` calls)
    pub tags: BTreeSet<&'static str>,
    /// append hidden ORDER BY keys of the top-level select to its select list
    pub expose_hidden: bool,
}

impl<'a> Rctx<'a> {
    pub fn new(schema: &'a Schema, dialect: Dialect) -> Self {
        Rctx { schema, dialect, stack: Vec::new(), next_alias: 0, tags: BTreeSet::new(), expose_hidden: false }
    }
    fn tag(&mut self, t: &'static str) {
        self.tags.insert(t);
    }
    fn scope_at(&self, up: u8) -> (&Scope, bool) {
        let n = self.stack.len();
        let up = (up as usize).min(n.saturating_sub(1));
        (&self.stack[n - 1 - up], up > 0)
    }
    fn col(&mut self, cls: Cls, up: u8, sel: u8) -> Option<String> {
        let nested = self.stack.len() > 1;
        let (sc, outer) = self.scope_at(up);
        let (i, c, _) = sc.pick(cls, sel)?;
        let s = sc.col_text(i, c, nested);
        if outer {
            self.tag("correlated");
        }
        Some(s)
    }
}

pub fn text_lit(sel: u8) -> String {
    match pool(Ty::Text, sel % 8) {
        Val::Text(s) => s,
        _ => String::new(),
    }
}

fn sql_str(s: &str) -> String {
    format!("'{}'", s.replace('\'', "''"))
}

pub fn ilit(v: i8) -> i64 {
    // keep literals inside the value pools' neighbourhood
    (v as i64).rem_euclid(13) - 2
}

pub fn dlit(q: i8) -> f64 {
    ((q as i64).rem_euclid(13) - 3) as f64 / 2.0
}

impl E {
    pub fn cls(&self) -> Cls {
        match self {
            E::NCol { .. } | E::ILit(_) | E::DLit(_) | E::NNull | E::Add(..) | E::Sub(..) | E::Mul(..) => Cls::Num,
            E::TCol { .. } | E::TLit(_) | E::TNull => Cls::Text,
            E::Scalar(c, _) => *c,
            E::ICol { cls, .. } => *cls,
            E::Agg(f, arg, _) => match f {
                AggFn::CountStar | AggFn::Count | AggFn::Sum | AggFn::Avg => Cls::Num,
                AggFn::Min | AggFn::Max => arg.as_ref().map(|a| a.cls()).unwrap_or(Cls::Num),
            },
            _ => Cls::Bool,
        }
    }

    pub fn has_agg(&self) -> bool {
        let mut found = false;
        self.walk(&mut |e| {
            if matches!(e, E::Agg(..)) {
                found = true;
            }
        });
        found
    }

    /// pre-order walk over this expression (does not descend into subqueries)
    pub fn walk(&self, f: &mut dyn FnMut(&E)) {
        f(self);
        match self {
            E::Add(a, b) | E::Sub(a, b) | E::Mul(a, b) | E::Cmp(_, a, b) | E::And(a, b) | E::Or(a, b) => {
                a.walk(f);
                b.walk(f);
            }
            E::CmpB(_, a, _) | E::Not(a) | E::IsNull(a, _) | E::Like(a, _, _) | E::InSub(a, _, _) => a.walk(f),
            E::InList(a, l, _) => {
                a.walk(f);
                for x in l {
                    x.walk(f);
                }
            }
            E::Between(a, b, c, _) => {
                a.walk(f);
                b.walk(f);
                c.walk(f);
            }
            E::Agg(_, Some(a), _) => a.walk(f),
            _ => {}
        }
    }

    pub fn depth(&self) -> usize {
        match self {
            E::Add(a, b) | E::Sub(a, b) | E::Mul(a, b) | E::Cmp(_, a, b) | E::And(a, b) | E::Or(a, b) => 1 + a.depth().max(b.depth()),
            E::CmpB(_, a, _) | E::Not(a) | E::IsNull(a, _) | E::Like(a, _, _) | E::InSub(a, _, _) => 1 + a.depth(),
            E::InList(a, l, _) => 1 + l.iter().map(|x| x.depth()).max().unwrap_or(0).max(a.depth()),
            E::Between(a, b, c, _) => 1 + a.depth().max(b.depth()).max(c.depth()),
            E::Agg(_, Some(a), _) => 1 + a.depth(),
            _ => 0,
        }
    }

    pub fn render(&self, r: &mut Rctx) -> String {
        match self {
            E::NCol { up, sel } => r.col(Cls::Num, *up, *sel).unwrap_or_else(|| "0".into()),
            E::ILit(v) => {
                let v = ilit(*v);
                if v < 0 {
                    format!("({})", v)
                } else {
                    v.to_string()
                }
            }
            E::DLit(q) => {
                let v = dlit(*q);
                if v < 0.0 {
                    format!("({:?})", v)
                } else {
                    format!("{:?}", v)
                }
            }
            E::NNull | E::TNull | E::BNull => {
                r.tag("null_literal");
                "NULL".into()
            }
            E::Add(a, b) => {
                r.tag("arith");
                format!("({} + {})", a.render(r), b.render(r))
            }
            E::Sub(a, b) => {
                r.tag("arith");
                format!("({} - {})", a.render(r), b.render(r))
            }
            E::Mul(a, b) => {
                r.tag("arith");
                format!("({} * {})", a.render(r), b.render(r))
            }
            E::ICol { item, cls, sel } => {
                let sc = r.stack.last().unwrap();
                match sc.pick_in_item(*item, *cls, *sel) {
                    Some((i, c, _)) => sc.col_text(i, c, true),
                    None => match cls {
                        Cls::Num => "0".into(),
                        Cls::Text => "'a'".into(),
                        Cls::Bool => "TRUE".into(),
                    },
                }
            }
            E::TCol { up, sel } => r.col(Cls::Text, *up, *sel).unwrap_or_else(|| "'a'".into()),
            E::TLit(s) => sql_str(&text_lit(*s)),
            E::BCol { up, sel } => match r.col(Cls::Bool, *up, *sel) {
                Some(c) => {
                    r.tag("bool_column_as_predicate");
                    c
                }
                None => "TRUE".into(),
            },
            E::BLit(b) => {
                r.tag("bool_literal");
                if *b { "TRUE".into() } else { "FALSE".into() }
            }
            E::Cmp(op, a, b) => {
                if a.cls() == Cls::Text {
                    r.tag("cmp_text");
                }
                if matches!(**a, E::NNull | E::TNull) || matches!(**b, E::NNull | E::TNull) {
                    r.tag("cmp_with_null_literal");
                }
                format!("{} {} {}", a.render(r), op.sql(), b.render(r))
            }
            E::CmpB(eq, a, v) => match &**a {
                E::BCol { up, sel } => match r.col(Cls::Bool, *up, *sel) {
                    Some(c) => {
                        r.tag("cmp_bool");
                        format!("{} {} {}", c, if *eq { "=" } else { "<>" }, if *v { "TRUE" } else { "FALSE" })
                    }
                    None => "1 = 1".into(),
                },
                _ => "1 = 1".into(),
            },
            E::And(a, b) => {
                r.tag("and");
                format!("({}) AND ({})", a.render(r), b.render(r))
            }
            E::Or(a, b) => {
                r.tag("or");
                format!("({}) OR ({})", a.render(r), b.render(r))
            }
            E::Not(a) => {
                r.tag("not");
                format!("NOT ({})", a.render(r))
            }
            E::IsNull(a, neg) => {
                if a.cls() == Cls::Bool && !matches!(**a, E::BCol { .. }) {
                    r.tag("is_null_over_predicate");
                } else {
                    r.tag("is_null");
                }
                let inner = a.render(r);
                let inner = if a.depth() > 0 { format!("({})", inner) } else { inner };
                format!("{} IS {}NULL", inner, if *neg { "NOT " } else { "" })
            }
            E::InList(a, l, neg) => {
                r.tag(if *neg { "not_in_list" } else { "in_list" });
                if l.iter().any(|x| matches!(x, E::NNull | E::TNull)) {
                    r.tag(if *neg { "not_in_list_with_null" } else { "in_list_with_null" });
                }
                let items: Vec<String> = l.iter().map(|x| x.render(r)).collect();
                format!("{} {}IN ({})", a.render(r), if *neg { "NOT " } else { "" }, items.join(", "))
            }
            E::Between(a, lo, hi, neg) => {
                r.tag(if *neg { "not_between" } else { "between" });
                format!("{} {}BETWEEN {} AND {}", a.render(r), if *neg { "NOT " } else { "" }, lo.render(r), hi.render(r))
            }
            E::Like(a, p, neg) => {
                r.tag(if *neg { "not_like" } else { "like" });
                format!("{} {}LIKE {}", a.render(r), if *neg { "NOT " } else { "" }, sql_str(LIKE_PATTERNS[*p as usize % 8]))
            }
            E::ConstCmp(t) => {
                r.tag("const_cmp");
                if *t { "1 = 1".into() } else { "1 = 0".into() }
            }
            E::InSub(a, q, neg) => {
                r.tag(if *neg { "not_in_subquery" } else { "in_subquery" });
                let lhs = a.render(r);
                format!("{} {}IN ({})", lhs, if *neg { "NOT " } else { "" }, q.render_nested(r))
            }
            E::Exists(q, neg) => {
                r.tag(if *neg { "not_exists" } else { "exists" });
                format!("{}EXISTS ({})", if *neg { "NOT " } else { "" }, q.render_nested(r))
            }
            E::Scalar(_, q) => {
                r.tag("scalar_subquery");
                format!("({})", q.render_nested(r))
            }
            E::Agg(f, arg, distinct) => {
                let a = match (f, arg) {
                    (AggFn::CountStar, _) | (_, None) => return "COUNT(*)".into(),
                    (_, Some(a)) => a.render(r),
                };
                let name = match f {
                    AggFn::Count => "COUNT",
                    AggFn::Sum => "SUM",
                    AggFn::Avg => "AVG",
                    AggFn::Min => "MIN",
                    AggFn::Max => "MAX",
                    AggFn::CountStar => unreachable!(),
                };
                if *distinct {
                    r.tag("agg_distinct");
                }
                format!("{}({}{})", name, if *distinct { "DISTINCT " } else { "" }, a)
            }
        }
    }
}

impl Select {
    /// number of output columns and their classes (needs the schema for `*`)
    pub fn out_classes(&self, schema: &Schema) -> Vec<Cls> {
        if self.items.is_empty() {
            let mut v = Vec::new();
            for f in &self.from {
                match &f.src {
                    Src::Table(t) => {
                        let t = &schema.tables[*t as usize % schema.tables.len()];
                        v.extend(table_scope_cols(t).into_iter().map(|c| c.cls));
                    }
                    Src::Derived(q) => v.extend(q.out_classes(schema)),
                }
            }
            v
        } else {
            self.items.iter().map(|i| i.e.cls()).collect()
        }
    }

    /// Build this select's scope; returns the scope and the rendered FROM items' sources.
    fn build_scope(&self, r: &mut Rctx) -> (Scope, Vec<String>) {
        let nested = !r.stack.is_empty();
        let ntab = r.schema.tables.len();
        // repeated table => aliases needed
        let mut seen = BTreeSet::new();
        let mut repeated = false;
        for f in &self.from {
            if let Src::Table(t) = &f.src {
                if !seen.insert(*t as usize % ntab) {
                    repeated = true;
                }
            }
        }
        let use_alias = self.alias || nested || repeated;
        let mut scope = Scope { items: Vec::new(), qualify: self.from.len() > 1 || use_alias };
        let mut srcs = Vec::new();
        for f in &self.from {
            match &f.src {
                Src::Table(t) => {
                    let ti = *t as usize % ntab;
                    let name = format!("t{}", ti);
                    let cols = table_scope_cols(&r.schema.tables[ti]);
                    if use_alias {
                        let a = format!("x{}", r.next_alias);
                        r.next_alias += 1;
                        r.tag("table_alias");
                        srcs.push(format!("{} AS {}", name, a));
                        scope.items.push(SItem { alias: a, cols });
                    } else {
                        srcs.push(name.clone());
                        scope.items.push(SItem { alias: name, cols });
                    }
                }
                Src::Derived(q) => {
                    r.tag("derived_table");
                    let a = format!("x{}", r.next_alias);
                    r.next_alias += 1;
                    let classes = q.out_classes(r.schema);
                    let cols = classes.iter().enumerate().map(|(i, c)| SCol { name: format!("k{}", i), cls: *c, is_id: false }).collect();
                    let sql = q.render_derived(r);
                    srcs.push(format!("({}) AS {}", sql, a));
                    scope.items.push(SItem { alias: a, cols });
                    scope.qualify = true;
                }
            }
        }
        (scope, srcs)
    }

    pub fn render_nested(&self, r: &mut Rctx) -> String {
        let saved = r.expose_hidden;
        r.expose_hidden = false;
        let s = self.render(r);
        r.expose_hidden = saved;
        s
    }

    /// derived tables: every item gets the alias k<i> so that the outer scope can name it
    fn render_derived(&self, r: &mut Rctx) -> String {
        let mut q = self.clone();
        for it in q.items.iter_mut() {
            it.alias = true;
        }
        // a derived table is not correlated: it starts a fresh scope stack
        let saved = std::mem::take(&mut r.stack);
        let saved_e = r.expose_hidden;
        r.expose_hidden = false;
        // keep it "nested" for aliasing purposes by pushing an empty scope
        r.stack.push(Scope::default());
        let s = q.render(r);
        r.stack = saved;
        r.expose_hidden = saved_e;
        s
    }

    /// scope of this select as seen from its own clauses (top level only; used by evaluators)
    pub fn top_scope(&self, schema: &Schema) -> Scope {
        let mut r = Rctx::new(schema, Dialect::Turdb);
        self.build_scope(&mut r).0
    }

    pub fn render(&self, r: &mut Rctx) -> String {
        let top = r.stack.is_empty();
        let expose = top && r.expose_hidden;
        let (scope, srcs) = self.build_scope(r);
        r.stack.push(scope);
        let mut from = String::new();
        for (i, f) in self.from.iter().enumerate() {
            if i == 0 {
                from.push_str(&srcs[i]);
                continue;
            }
            let kw = match f.join {
                JoinKind::Comma => {
                    r.tag("join.comma");
                    from.push_str(&format!(", {}", srcs[i]));
                    continue;
                }
                JoinKind::Inner => {
                    r.tag("join.inner");
                    "INNER JOIN"
                }
                JoinKind::Left => {
                    r.tag("join.left");
                    "LEFT JOIN"
                }
                JoinKind::Right => {
                    r.tag("join.right");
                    "RIGHT JOIN"
                }
                JoinKind::Full => {
                    r.tag("join.full");
                    "FULL OUTER JOIN"
                }
                JoinKind::Cross => {
                    r.tag("join.cross");
                    from.push_str(&format!(" CROSS JOIN {}", srcs[i]));
                    continue;
                }
            };
            // the ON clause sees the items joined so far
            let full = r.stack.pop().unwrap();
            let mut partial = full.clone();
            partial.items.truncate(i + 1);
            r.stack.push(partial);
            let on = match &f.on {
                Some(e) => e.render(r),
                None => "1 = 1".into(),
            };
            r.stack.pop();
            r.stack.push(full);
            from.push_str(&format!(" {} {} ON {}", kw, srcs[i], on));
        }
        let mut items: Vec<String> = Vec::new();
        if self.items.is_empty() {
            r.tag("select_star");
            items.push("*".into());
        } else {
            for (i, it) in self.items.iter().enumerate() {
                let s = it.e.render(r);
                if it.alias {
                    items.push(format!("{} AS k{}", s, i));
                } else {
                    items.push(s);
                }
            }
        }
        let nitems = if self.items.is_empty() { self.out_classes(r.schema).len().max(1) } else { self.items.len() };
        let mut order = Vec::new();
        for k in &self.order_by {
            let s = match &k.kind {
                OKind::Ordinal(n) => {
                    r.tag("order_by.ordinal");
                    format!("{}", (*n as usize % nitems) + 1)
                }
                OKind::ItemExpr(n) => {
                    if self.items.is_empty() {
                        format!("{}", (*n as usize % nitems) + 1)
                    } else {
                        let it = &self.items[*n as usize % nitems];
                        if it.e.depth() > 0 {
                            r.tag("order_by.expression");
                        }
                        it.e.render(r)
                    }
                }
                OKind::Alias(n) => {
                    let i = *n as usize % nitems;
                    if !self.items.is_empty() && self.items[i].alias {
                        r.tag("order_by.alias");
                        format!("k{}", i)
                    } else {
                        format!("{}", i + 1)
                    }
                }
                OKind::Hidden(e) => {
                    r.tag("order_by.hidden_key");
                    if e.depth() > 0 {
                        r.tag("order_by.expression");
                    }
                    let s = e.render(r);
                    if expose {
                        items.push(s.clone());
                    }
                    s
                }
            };
            if k.desc {
                r.tag("order_by.desc");
            }
            order.push(format!("{}{}", s, if k.desc { " DESC" } else { "" }));
        }
        let mut sql = format!("SELECT {}{} FROM {}", if self.distinct { "DISTINCT " } else { "" }, items.join(", "), from);
        if self.distinct {
            r.tag("distinct");
        }
        if let Some(w) = &self.filter {
            r.tag("where");
            sql.push_str(&format!(" WHERE {}", w.render(r)));
        }
        if !self.group_by.is_empty() {
            r.tag("group_by");
            let g: Vec<String> = self
                .group_by
                .iter()
                .map(|e| {
                    if e.depth() > 0 {
                        r.tag("group_by.expression");
                    }
                    e.render(r)
                })
                .collect();
            sql.push_str(&format!(" GROUP BY {}", g.join(", ")));
        }
        if let Some(h) = &self.having {
            r.tag("having");
            sql.push_str(&format!(" HAVING {}", h.render(r)));
        }
        r.stack.pop();
        for (op, q) in &self.setops {
            let kw = match op {
                SetOp::Union => {
                    r.tag("setop.union");
                    "UNION"
                }
                SetOp::UnionAll => {
                    r.tag("setop.union_all");
                    "UNION ALL"
                }
                SetOp::Intersect => {
                    r.tag("setop.intersect");
                    "INTERSECT"
                }
                SetOp::Except => {
                    r.tag("setop.except");
                    "EXCEPT"
                }
            };
            let mut q = q.clone();
            q.order_by.clear();
            q.limit = None;
            q.offset = None;
            q.setops.clear();
            let saved = r.expose_hidden;
            r.expose_hidden = false;
            let s = q.render(r);
            r.expose_hidden = saved;
            sql.push_str(&format!(" {} {}", kw, s));
        }
        if !order.is_empty() {
            r.tag("order_by");
            sql.push_str(&format!(" ORDER BY {}", order.join(", ")));
        }
        match (self.limit, self.offset) {
            (Some(l), Some(o)) => {
                r.tag("limit");
                r.tag("offset");
                sql.push_str(&format!(" LIMIT {} OFFSET {}", l, o));
            }
            (Some(l), None) => {
                r.tag("limit");
                sql.push_str(&format!(" LIMIT {}", l));
            }
            (None, Some(o)) => {
                r.tag("offset");
                if r.dialect == Dialect::Sqlite {
                    sql.push_str(&format!(" LIMIT -1 OFFSET {}", o));
                } else {
                    sql.push_str(&format!(" OFFSET {}", o));
                }
            }
            (None, None) => {}
        }
        sql
    }
}

/// Render for one dialect; returns the SQL and the construct tags.
pub fn render(schema: &Schema, q: &Select, d: Dialect, expose_hidden: bool) -> (String, BTreeSet<&'static str>) {
    let mut r = Rctx::new(schema, d);
    r.expose_hidden = expose_hidden;
    let s = q.render(&mut r);
    (s, r.tags)
}

// ------------------------------------------------------------------------------ evaluator

/// SQL truth values / scalar values of the evaluator: `Val::Null` is UNKNOWN for booleans.
#[derive(Debug)]
pub struct Unsupported;

fn num_cmp(a: &Val, b: &Val) -> Option<std::cmp::Ordering> {
    match (a, b) {
        (Val::Int(x), Val::Int(y)) => Some(x.cmp(y)),
        (Val::Int(x), Val::Float(y)) => (*x as f64).partial_cmp(y),
        (Val::Float(x), Val::Int(y)) => x.partial_cmp(&(*y as f64)),
        (Val::Float(x), Val::Float(y)) => x.partial_cmp(y),
        (Val::Text(x), Val::Text(y)) => Some(x.as_bytes().cmp(y.as_bytes())),
        (Val::Bool(x), Val::Bool(y)) => Some(x.cmp(y)),
        _ => None,
    }
}

fn cmp3(op: CmpOp, a: &Val, b: &Val) -> Result<Val, Unsupported> {
    if a.is_null() || b.is_null() {
        return Ok(Val::Null);
    }
    let o = num_cmp(a, b).ok_or(Unsupported)?;
    use std::cmp::Ordering::*;
    Ok(Val::Bool(match op {
        CmpOp::Eq => o == Equal,
        CmpOp::Ne => o != Equal,
        CmpOp::Lt => o == Less,
        CmpOp::Le => o != Greater,
        CmpOp::Gt => o == Greater,
        CmpOp::Ge => o != Less,
    }))
}

pub fn and3(a: &Val, b: &Val) -> Val {
    match (a, b) {
        (Val::Bool(false), _) | (_, Val::Bool(false)) => Val::Bool(false),
        (Val::Bool(true), Val::Bool(true)) => Val::Bool(true),
        _ => Val::Null,
    }
}

pub fn or3(a: &Val, b: &Val) -> Val {
    match (a, b) {
        (Val::Bool(true), _) | (_, Val::Bool(true)) => Val::Bool(true),
        (Val::Bool(false), Val::Bool(false)) => Val::Bool(false),
        _ => Val::Null,
    }
}

pub fn not3(a: &Val) -> Val {
    match a {
        Val::Bool(b) => Val::Bool(!b),
        _ => Val::Null,
    }
}

pub fn like(text: &[u8], pat: &[u8]) -> bool {
    match pat.first() {
        None => text.is_empty(),
        Some(b'%') => (0..=text.len()).any(|i| like(&text[i..], &pat[1..])),
        Some(b'_') => !text.is_empty() && like(&text[1..], &pat[1..]),
        Some(c) => text.first() == Some(c) && like(&text[1..], &pat[1..]),
    }
}

fn arith(op: char, a: &Val, b: &Val) -> Result<Val, Unsupported> {
    Ok(match (a, b) {
        (Val::Null, _) | (_, Val::Null) => Val::Null,
        (Val::Int(x), Val::Int(y)) => Val::Int(match op {
            '+' => x.checked_add(*y).ok_or(Unsupported)?,
            '-' => x.checked_sub(*y).ok_or(Unsupported)?,
            _ => x.checked_mul(*y).ok_or(Unsupported)?,
        }),
        _ => {
            let f = |v: &Val| match v {
                Val::Int(i) => Ok(*i as f64),
                Val::Float(f) => Ok(*f),
                _ => Err(Unsupported),
            };
            let (x, y) = (f(a)?, f(b)?);
            Val::Float(match op {
                '+' => x + y,
                '-' => x - y,
                _ => x * y,
            })
        }
    })
}

/// Evaluate a scalar expression over one row of a single scope (no subqueries, no
/// aggregates, no outer references). Booleans come back as `Val::Bool` / `Val::Null`.
pub fn eval(e: &E, scope: &Scope, row: &[Val]) -> Result<Val, Unsupported> {
    let col = |cls: Cls, up: u8, sel: u8, dflt: Val| -> Result<Val, Unsupported> {
        if up > 0 {
            // single scope: `up` is clamped by the renderer as well
        }
        Ok(match scope.pick(cls, sel) {
            Some((_, _, flat)) => row[flat].clone(),
            None => dflt,
        })
    };
    Ok(match e {
        E::NCol { up, sel } => col(Cls::Num, *up, *sel, Val::Int(0))?,
        E::ILit(v) => Val::Int(ilit(*v)),
        E::DLit(q) => Val::Float(dlit(*q)),
        E::NNull | E::TNull | E::BNull => Val::Null,
        E::Add(a, b) => arith('+', &eval(a, scope, row)?, &eval(b, scope, row)?)?,
        E::Sub(a, b) => arith('-', &eval(a, scope, row)?, &eval(b, scope, row)?)?,
        E::Mul(a, b) => arith('*', &eval(a, scope, row)?, &eval(b, scope, row)?)?,
        E::ICol { item, cls, sel } => match scope.pick_in_item(*item, *cls, *sel) {
            Some((_, _, flat)) => row[flat].clone(),
            None => match cls {
                Cls::Num => Val::Int(0),
                Cls::Text => Val::Text("a".into()),
                Cls::Bool => Val::Bool(true),
            },
        },
        E::TCol { up, sel } => col(Cls::Text, *up, *sel, Val::Text("a".into()))?,
        E::TLit(s) => Val::Text(text_lit(*s)),
        E::BCol { up, sel } => col(Cls::Bool, *up, *sel, Val::Bool(true))?,
        E::BLit(b) => Val::Bool(*b),
        E::Cmp(op, a, b) => cmp3(*op, &eval(a, scope, row)?, &eval(b, scope, row)?)?,
        E::CmpB(eq, a, v) => match &**a {
            E::BCol { sel, .. } if scope.pick(Cls::Bool, *sel).is_some() => cmp3(if *eq { CmpOp::Eq } else { CmpOp::Ne }, &eval(a, scope, row)?, &Val::Bool(*v))?,
            _ => Val::Bool(true),
        },
        E::And(a, b) => and3(&eval(a, scope, row)?, &eval(b, scope, row)?),
        E::Or(a, b) => or3(&eval(a, scope, row)?, &eval(b, scope, row)?),
        E::Not(a) => not3(&eval(a, scope, row)?),
        E::IsNull(a, neg) => Val::Bool(eval(a, scope, row)?.is_null() != *neg),
        E::InList(a, l, neg) => {
            let x = eval(a, scope, row)?;
            let mut acc = Val::Bool(false);
            for it in l {
                acc = or3(&acc, &cmp3(CmpOp::Eq, &x, &eval(it, scope, row)?)?);
            }
            if l.is_empty() {
                return Err(Unsupported);
            }
            if *neg { not3(&acc) } else { acc }
        }
        E::Between(a, lo, hi, neg) => {
            let x = eval(a, scope, row)?;
            let v = and3(&cmp3(CmpOp::Ge, &x, &eval(lo, scope, row)?)?, &cmp3(CmpOp::Le, &x, &eval(hi, scope, row)?)?);
            if *neg { not3(&v) } else { v }
        }
        E::Like(a, p, neg) => match eval(a, scope, row)? {
            Val::Null => Val::Null,
            Val::Text(s) => Val::Bool(like(s.as_bytes(), LIKE_PATTERNS[*p as usize % 8].as_bytes()) != *neg),
            _ => return Err(Unsupported),
        },
        E::ConstCmp(t) => Val::Bool(*t),
        E::InSub(..) | E::Exists(..) | E::Scalar(..) | E::Agg(..) => return Err(Unsupported),
    })
}

// ------------------------------------------------------------------------------ the two databases

pub struct World {
    pub turdb: Db,
    pub sqlite: rusqlite::Connection,
}

pub fn create_sql(i: usize, t: &Table) -> Vec<String> {
    let mut cols = vec![if t.pk { "id INT PRIMARY KEY".to_string() } else { "id INT".to_string() }];
    for (c, ty) in t.cols.iter().enumerate() {
        cols.push(format!("c{} {}", c, ty.sql()));
    }
    let mut out = vec![format!("CREATE TABLE t{} ({})", i, cols.join(", "))];
    if let Some(ix) = t.index {
        if !t.cols.is_empty() {
            let c = ix as usize % t.cols.len();
            if !matches!(t.cols[c], Ty::Bool) {
                out.push(format!("CREATE INDEX ix_t{}_c{} ON t{} (c{})", i, c, i, c));
            }
        }
    }
    out
}

pub fn insert_sql(i: usize, rows: &[Row], chunk: usize) -> Vec<String> {
    rows.chunks(chunk.max(1))
        .map(|ch| {
            let vals: Vec<String> = ch.iter().map(|r| format!("({})", r.iter().map(|v| v.sql()).collect::<Vec<_>>().join(", "))).collect();
            format!("INSERT INTO t{} VALUES {}", i, vals.join(", "))
        })
        .collect()
}

impl World {
    /// Err = TurDB (or SQLite) rejected the schema or the data: the case is dropped
    pub fn setup(tag: &str, schema: &Schema) -> Result<World, String> {
        let turdb = Db::create(tag);
        let sqlite = rusqlite::Connection::open_in_memory().map_err(|e| format!("sqlite open: {}", e))?;
        sqlite.execute_batch("PRAGMA case_sensitive_like = ON;").map_err(|e| format!("sqlite pragma: {}", e))?;
        for (i, t) in schema.tables.iter().enumerate() {
            let data = t.data();
            let mut stmts = create_sql(i, t);
            // the index is created before the rows arrive in half of the tables, after in the rest
            let index_late = stmts.len() > 1 && t.index.map(|x| x >= 128).unwrap_or(false);
            let late = if index_late { stmts.pop() } else { None };
            stmts.extend(insert_sql(i, &data, 50));
            stmts.extend(late);
            for s in &stmts {
                turdb.h().execute(s).map_err(|e| format!("turdb setup `{}`: {}", short(s), e))?;
                sqlite.execute_batch(s).map_err(|e| format!("sqlite setup `{}`: {}", short(s), e))?;
            }
        }
        Ok(World { turdb, sqlite })
    }

    pub fn turdb(&self, sql: &str) -> Result<Vec<Row>, String> {
        self.turdb.query(sql)
    }

    pub fn sqlite(&self, sql: &str) -> Result<Vec<Row>, String> {
        let mut st = self.sqlite.prepare(sql).map_err(|e| e.to_string())?;
        let n = st.column_count();
        let mut rows = st.query([]).map_err(|e| e.to_string())?;
        let mut out = Vec::new();
        loop {
            match rows.next() {
                Ok(Some(r)) => {
                    let mut row = Vec::with_capacity(n);
                    for i in 0..n {
                        row.push(match r.get_ref(i).map_err(|e| e.to_string())? {
                            rusqlite::types::ValueRef::Null => Val::Null,
                            rusqlite::types::ValueRef::Integer(v) => Val::Int(v),
                            rusqlite::types::ValueRef::Real(v) => Val::Float(v),
                            rusqlite::types::ValueRef::Text(t) => Val::Text(String::from_utf8_lossy(t).into_owned()),
                            rusqlite::types::ValueRef::Blob(_) => Val::Text("<<blob>>".into()),
                        });
                    }
                    out.push(row);
                }
                Ok(None) => break,
                Err(e) => return Err(e.to_string()),
            }
        }
        Ok(out)
    }
}

pub fn short(s: &str) -> String {
    if s.len() > 300 {
        format!("{}…", &s[..300])
    } else {
        s.to_string()
    }
}

// ------------------------------------------------------------------------------ comparison

/// Bool -> 0/1 (SQLite has no boolean type; the properties speak about truth values)
pub fn norm(v: &Val) -> Val {
    match v {
        Val::Bool(b) => Val::Int(*b as i64),
        o => o.clone(),
    }
}

pub fn norm_rows(rows: &[Row]) -> Vec<Row> {
    rows.iter().map(|r| r.iter().map(norm).collect()).collect()
}

fn as_f64(v: &Val) -> Option<f64> {
    match v {
        Val::Int(i) => Some(*i as f64),
        Val::Float(f) => Some(*f),
        Val::Bool(b) => Some(*b as i64 as f64),
        _ => None,
    }
}

/// value equality: numbers by value (relative 1e-9 when a float is involved), Bool as 0/1
pub fn val_eq(a: &Val, b: &Val) -> bool {
    match (a, b) {
        (Val::Null, Val::Null) => true,
        (Val::Text(x), Val::Text(y)) => x == y,
        (Val::Int(x), Val::Int(y)) => x == y,
        _ => match (as_f64(a), as_f64(b)) {
            (Some(x), Some(y)) => x == y || (x - y).abs() <= 1e-9 * x.abs().max(y.abs()),
            _ => false,
        },
    }
}

pub fn row_eq(a: &[Val], b: &[Val]) -> bool {
    a.len() == b.len() && a.iter().zip(b).all(|(x, y)| val_eq(x, y))
}

/// total order on values for canonical sorting and for the ORDER BY validity predicate:
/// NULL < numbers (by value) < text (bytewise)
pub fn val_cmp(a: &Val, b: &Val) -> std::cmp::Ordering {
    use std::cmp::Ordering::*;
    let rank = |v: &Val| match v {
        Val::Null => 0,
        Val::Text(_) => 2,
        _ => 1,
    };
    match rank(a).cmp(&rank(b)) {
        Equal => match (a, b) {
            (Val::Text(x), Val::Text(y)) => x.as_bytes().cmp(y.as_bytes()),
            (Val::Int(x), Val::Int(y)) => x.cmp(y),
            (Val::Null, Val::Null) => Equal,
            _ => as_f64(a).unwrap_or(0.0).partial_cmp(&as_f64(b).unwrap_or(0.0)).unwrap_or(Equal),
        },
        o => o,
    }
}

pub fn sort_canon(rows: &mut [Row]) {
    rows.sort_by(|a, b| {
        for (x, y) in a.iter().zip(b.iter()) {
            let o = val_cmp(x, y);
            if o != std::cmp::Ordering::Equal {
                return o;
            }
        }
        a.len().cmp(&b.len())
    });
}

pub fn fmt_rows(rows: &[Row]) -> String {
    let mut s = String::new();
    for r in rows.iter().take(6) {
        s.push_str(&format!("({}) ", r.iter().map(|v| v.sql()).collect::<Vec<_>>().join(", ")));
    }
    if rows.len() > 6 {
        s.push_str(&format!("… +{}", rows.len() - 6));
    }
    s
}

/// multiset difference: (rows of `exp` not matched in `got`, rows of `got` not matched in `exp`)
pub fn bag_diff(exp: &[Row], got: &[Row]) -> (Vec<Row>, Vec<Row>) {
    let mut e = exp.to_vec();
    let mut g = got.to_vec();
    sort_canon(&mut e);
    sort_canon(&mut g);
    if e.len() == g.len() && e.iter().zip(g.iter()).all(|(a, b)| row_eq(a, b)) {
        return (vec![], vec![]);
    }
    // merge walk on the canonical order; tolerant equality first, order second
    let (mut i, mut j) = (0, 0);
    let (mut missing, mut extra) = (Vec::new(), Vec::new());
    while i < e.len() && j < g.len() {
        if row_eq(&e[i], &g[j]) {
            i += 1;
            j += 1;
            continue;
        }
        let mut o = std::cmp::Ordering::Equal;
        for (x, y) in e[i].iter().zip(g[j].iter()) {
            o = val_cmp(x, y);
            if o != std::cmp::Ordering::Equal {
                break;
            }
        }
        if o == std::cmp::Ordering::Equal {
            o = e[i].len().cmp(&g[j].len());
        }
        if o == std::cmp::Ordering::Less {
            missing.push(e[i].clone());
            i += 1;
        } else {
            extra.push(g[j].clone());
            j += 1;
        }
    }
    missing.extend_from_slice(&e[i..]);
    extra.extend_from_slice(&g[j..]);
    (missing, extra)
}

/// Compare two bags; None = equal, Some((kind, detail)) otherwise.
pub fn bag_mismatch(exp: &[Row], got: &[Row]) -> Option<(&'static str, String)> {
    let (missing, extra) = bag_diff(&norm_rows(exp), &norm_rows(got));
    if missing.is_empty() && extra.is_empty() {
        return None;
    }
    let kind = match (missing.is_empty(), extra.is_empty()) {
        (false, true) => "rows_missing",
        (true, false) => "rows_extra",
        _ => "rows_differ",
    };
    Some((kind, format!("expected {} rows, got {}; missing: {}; unexpected: {}", exp.len(), got.len(), fmt_rows(&missing), fmt_rows(&extra))))
}

/// development aid: VERIF_DEV_CASES overrides a tier's case count (reduced-patience thorough runs)
pub fn dev_cases(default: u64) -> u64 {
    std::env::var("VERIF_DEV_CASES").ok().and_then(|s| s.parse().ok()).unwrap_or(default)
}

pub fn tagstr<'a>(tags: impl IntoIterator<Item = &'a str>) -> String {
    let mut t: Vec<&str> = tags.into_iter().collect();
    t.sort();
    t.dedup();
    if t.is_empty() {
        "-".into()
    } else {
        t.join("+")
    }
}

/// `rejected:<construct>` label for an error returned by TurDB: the most specific construct
/// of the statement, so that the evidence shows which constructs the tree does not accept
pub fn construct_of(tags: &BTreeSet<&'static str>) -> &'static str {
    const ORDER: [&str; 30] = [
        "scalar_subquery", "not_in_subquery", "in_subquery", "not_exists", "exists", "derived_table", "setop.except", "setop.intersect", "setop.union", "setop.union_all",
        "join.full", "join.right", "join.left", "join.cross", "join.inner", "join.comma", "having", "group_by.expression", "group_by", "agg_distinct",
        "order_by.hidden_key", "order_by.alias", "order_by.ordinal", "order_by.expression", "order_by", "offset", "limit", "distinct", "is_null_over_predicate", "where",
    ];
    for o in ORDER {
        if tags.contains(o) {
            return o;
        }
    }
    "select"
}

// ------------------------------------------------------------------------------ strategies

#[derive(Clone, Debug)]
pub struct GenCfg {
    /// maximum nesting depth of boolean connectives
    pub depth: u32,
    /// allow references to the enclosing query's columns (`up = 1`)
    pub outer_refs: bool,
    /// constructs not to generate (closed gates / dropped constructs)
    pub off: BTreeSet<String>,
    /// remaining subquery nesting depth (0 = no subquery atoms)
    pub subq: u32,
}

impl GenCfg {
    pub fn new(depth: u32) -> GenCfg {
        GenCfg { depth, outer_refs: false, off: BTreeSet::new(), subq: 0 }
    }
    pub fn on(&self, c: &str) -> bool {
        !self.off.contains(c)
    }
}

pub fn ty_strategy() -> BoxedStrategy<Ty> {
    prop_oneof![4 => Just(Ty::Int), 1 => Just(Ty::BigInt), 2 => Just(Ty::Double), 3 => Just(Ty::Text), 1 => Just(Ty::Bool)].boxed()
}

pub fn table_strategy(max_rows: usize, allow_index: bool) -> BoxedStrategy<Table> {
    let nrows = prop_oneof![1 => Just(0usize), 2 => 1..=3usize, 6 => 0..=max_rows.max(1)];
    (
        proptest::collection::vec(ty_strategy(), 1..=5),
        nrows.prop_flat_map(|n| proptest::collection::vec(proptest::collection::vec(any::<u8>(), 5), n)),
        prop_oneof![3 => Just(false), 1 => Just(true)],
        prop_oneof![3 => Just(None), 1 => any::<u8>().prop_map(Some)],
        prop_oneof![9 => Just(false), 1 => Just(true)],
    )
        .prop_map(move |(cols, rows, pk, index, long_text)| Table { cols, rows: Rows::Explicit(rows), pk: pk && allow_index, index: if allow_index { index } else { None }, long_text })
        .boxed()
}

pub fn schema_strategy(min_tables: usize, max_tables: usize, max_rows: usize, allow_index: bool) -> BoxedStrategy<Schema> {
    proptest::collection::vec(table_strategy(max_rows, allow_index), min_tables..=max_tables).prop_map(|tables| Schema { tables }).boxed()
}

fn up_strategy(cfg: &GenCfg) -> BoxedStrategy<u8> {
    if cfg.outer_refs {
        prop_oneof![3 => Just(0u8), 1 => Just(1u8)].boxed()
    } else {
        Just(0u8).boxed()
    }
}

pub fn cmpop_strategy() -> BoxedStrategy<CmpOp> {
    prop_oneof![3 => Just(CmpOp::Eq), 2 => Just(CmpOp::Ne), 1 => Just(CmpOp::Lt), 1 => Just(CmpOp::Le), 1 => Just(CmpOp::Gt), 1 => Just(CmpOp::Ge)].boxed()
}

/// numeric expressions: columns, literals, NULL, + - * (depth-limited)
pub fn num_strategy(cfg: &GenCfg, depth: u32) -> BoxedStrategy<E> {
    let up = up_strategy(cfg);
    let mut leaves: Vec<(u32, BoxedStrategy<E>)> = vec![
        (6, (up, any::<u8>()).prop_map(|(up, sel)| E::NCol { up, sel }).boxed()),
        (3, any::<i8>().prop_map(E::ILit).boxed()),
        (1, any::<i8>().prop_map(E::DLit).boxed()),
    ];
    if cfg.on("null_literal") {
        leaves.push((1, Just(E::NNull).boxed()));
    }
    let leaf = proptest::strategy::Union::new_weighted(leaves).boxed();
    if depth == 0 || !cfg.on("arith") {
        return leaf;
    }
    let sub = num_strategy(cfg, depth - 1);
    prop_oneof![
        6 => leaf,
        1 => (sub.clone(), sub.clone()).prop_map(|(a, b)| E::Add(Box::new(a), Box::new(b))),
        1 => (sub.clone(), sub.clone()).prop_map(|(a, b)| E::Sub(Box::new(a), Box::new(b))),
        1 => (sub.clone(), any::<i8>()).prop_map(|(a, b)| E::Mul(Box::new(a), Box::new(E::ILit(b.rem_euclid(4))))),
    ]
    .boxed()
}

pub fn text_strategy(cfg: &GenCfg) -> BoxedStrategy<E> {
    let up = up_strategy(cfg);
    let mut leaves: Vec<(u32, BoxedStrategy<E>)> = vec![(6, (up, any::<u8>()).prop_map(|(up, sel)| E::TCol { up, sel }).boxed()), (3, any::<u8>().prop_map(E::TLit).boxed())];
    if cfg.on("null_literal") {
        leaves.push((1, Just(E::TNull).boxed()));
    }
    proptest::strategy::Union::new_weighted(leaves).boxed()
}

/// atomic predicates (no connectives)
pub fn atom_strategy(cfg: &GenCfg) -> BoxedStrategy<E> {
    let num = num_strategy(cfg, 1);
    let numleaf = num_strategy(cfg, 0);
    let text = text_strategy(cfg);
    let up = up_strategy(cfg);
    let mut alts: Vec<(u32, BoxedStrategy<E>)> = vec![
        (8, (cmpop_strategy(), num.clone(), num.clone()).prop_map(|(op, a, b)| E::Cmp(op, Box::new(a), Box::new(b))).boxed()),
        (4, (cmpop_strategy(), text.clone(), text.clone()).prop_map(|(op, a, b)| E::Cmp(op, Box::new(a), Box::new(b))).boxed()),
        (2, (any::<bool>(), up.clone(), any::<u8>(), any::<bool>()).prop_map(|(eq, up, sel, v)| E::CmpB(eq, Box::new(E::BCol { up, sel }), v)).boxed()),
        (3, (num.clone(), any::<bool>()).prop_map(|(a, n)| E::IsNull(Box::new(a), n)).boxed()),
        (2, (text.clone(), any::<bool>()).prop_map(|(a, n)| E::IsNull(Box::new(a), n)).boxed()),
    ];
    if cfg.on("in_list") {
        alts.push((3, (num.clone(), proptest::collection::vec(numleaf.clone(), 1..4), any::<bool>()).prop_map(|(a, l, n)| E::InList(Box::new(a), l, n)).boxed()));
        alts.push((2, (text.clone(), proptest::collection::vec(text.clone(), 1..4), any::<bool>()).prop_map(|(a, l, n)| E::InList(Box::new(a), l, n)).boxed()));
    }
    if cfg.on("between") {
        alts.push((3, (num.clone(), numleaf.clone(), numleaf.clone(), any::<bool>()).prop_map(|(a, lo, hi, n)| E::Between(Box::new(a), Box::new(lo), Box::new(hi), n)).boxed()));
        alts.push((1, (text.clone(), text.clone(), text.clone(), any::<bool>()).prop_map(|(a, lo, hi, n)| E::Between(Box::new(a), Box::new(lo), Box::new(hi), n)).boxed()));
    }
    if cfg.on("like") {
        alts.push((3, (text.clone(), any::<u8>(), any::<bool>()).prop_map(|(a, p, n)| E::Like(Box::new(a), p, n)).boxed()));
    }
    if cfg.on("bool_column_as_predicate") {
        alts.push((1, (up, any::<u8>()).prop_map(|(up, sel)| E::BCol { up, sel }).boxed()));
    }
    if cfg.on("bool_literal") {
        alts.push((1, any::<bool>().prop_map(E::BLit).boxed()));
    }
    if cfg.subq > 0 {
        let mut inner = cfg.clone();
        inner.subq = cfg.subq - 1;
        inner.outer_refs = cfg.on("correlated");
        inner.depth = 1;
        if cfg.on("in_subquery") {
            let neg = if cfg.on("not_in_subquery") { any::<bool>().boxed() } else { Just(false).boxed() };
            let lhs = if cfg.on("in_subquery.lhs_not_a_column") { num.clone() } else { (up_strategy(cfg), any::<u8>()).prop_map(|(up, sel)| E::NCol { up, sel }).boxed() };
            let tlhs = if cfg.on("in_subquery.lhs_not_a_column") { text.clone() } else { (up_strategy(cfg), any::<u8>()).prop_map(|(up, sel)| E::TCol { up, sel }).boxed() };
            alts.push((6, (lhs, column_select_strategy(&inner, Cls::Num), neg.clone()).prop_map(|(a, q, n)| E::InSub(Box::new(a), Box::new(q), n)).boxed()));
            alts.push((2, (tlhs, column_select_strategy(&inner, Cls::Text), neg).prop_map(|(a, q, n)| E::InSub(Box::new(a), Box::new(q), n)).boxed()));
        }
        if cfg.on("exists") {
            alts.push((6, (column_select_strategy(&inner, Cls::Num), any::<bool>()).prop_map(|(q, n)| E::Exists(Box::new(q), n)).boxed()));
        }
        if cfg.on("scalar_subquery") {
            alts.push((6, (cmpop_strategy(), num.clone(), scalar_select_strategy(&inner)).prop_map(|(op, a, q)| E::Cmp(op, Box::new(a), Box::new(E::Scalar(Cls::Num, Box::new(q))))).boxed()));
        }
    }
    proptest::strategy::Union::new_weighted(alts).boxed()
}

/// `column = literal [AND / OR rest]`: the shapes for which the planner chooses an index lookup
/// when the column is a primary key or has a secondary index
pub fn lookup_pred_strategy(cfg: &GenCfg) -> BoxedStrategy<E> {
    let mut c = cfg.clone();
    c.depth = 2;
    let rest = pred_strategy(&c);
    let eq = prop_oneof![
        3 => (any::<u8>(), any::<i8>()).prop_map(|(sel, k)| E::Cmp(CmpOp::Eq, Box::new(E::NCol { up: 0, sel }), Box::new(E::ILit(k)))),
        1 => (any::<u8>(), any::<i8>()).prop_map(|(sel, k)| E::Cmp(CmpOp::Eq, Box::new(E::DLit(k)), Box::new(E::NCol { up: 0, sel }))),
        2 => (any::<u8>(), any::<u8>()).prop_map(|(sel, k)| E::Cmp(CmpOp::Eq, Box::new(E::TCol { up: 0, sel }), Box::new(E::TLit(k)))),
    ];
    // comparisons on the same column as the equality (the residual-filter trap)
    let same = (any::<u8>(), any::<i8>(), any::<i8>(), cmpop_strategy()).prop_map(|(sel, k, k2, op)| {
        E::And(
            Box::new(E::Cmp(CmpOp::Eq, Box::new(E::NCol { up: 0, sel }), Box::new(E::ILit(k)))),
            Box::new(E::Cmp(op, Box::new(E::NCol { up: 0, sel }), Box::new(E::ILit(k2)))),
        )
    });
    prop_oneof![
        1 => eq.clone(),
        2 => same,
        3 => (eq.clone(), rest.clone()).prop_map(|(a, b)| E::And(Box::new(a), Box::new(b))),
        1 => (eq.clone(), rest.clone()).prop_map(|(a, b)| E::And(Box::new(b), Box::new(a))),
        1 => (eq, rest).prop_map(|(a, b)| E::Or(Box::new(a), Box::new(b))),
    ]
    .boxed()
}

/// `SELECT <one column of class cls> FROM t [WHERE p]` (IN / EXISTS subqueries)
pub fn column_select_strategy(cfg: &GenCfg, cls: Cls) -> BoxedStrategy<Select> {
    let filter = if cfg.on("subquery.inner_where") { prop_oneof![2 => Just(None), 3 => pred_strategy(cfg).prop_map(Some)].boxed() } else { Just(None).boxed() };
    (any::<u8>(), any::<u8>(), filter)
        .prop_map(move |(t, sel, filter)| {
            let mut q = Select::table(t);
            q.items = vec![Item { e: if cls == Cls::Text { E::TCol { up: 0, sel } } else { E::NCol { up: 0, sel } }, alias: false }];
            q.filter = filter;
            q
        })
        .boxed()
}

/// numeric scalar subquery that returns at most one row: an aggregate without GROUP BY, or
/// a column of the row with `id = k`
pub fn scalar_select_strategy(cfg: &GenCfg) -> BoxedStrategy<Select> {
    let filter = prop_oneof![2 => Just(None), 3 => pred_strategy(cfg).prop_map(Some)];
    let agg = prop_oneof![Just(AggFn::CountStar), Just(AggFn::Min), Just(AggFn::Max), Just(AggFn::Sum), Just(AggFn::Avg)];
    prop_oneof![
        3 => (any::<u8>(), any::<u8>(), agg, filter).prop_map(|(t, sel, f, filter)| {
            let mut q = Select::table(t);
            q.items = vec![Item { e: E::Agg(f, Some(Box::new(E::NCol { up: 0, sel })), false), alias: false }];
            q.filter = filter;
            q
        }),
        1 => (any::<u8>(), any::<u8>(), 0i8..6).prop_map(|(t, sel, k)| {
            let mut q = Select::table(t);
            q.items = vec![Item { e: E::NCol { up: 0, sel }, alias: false }];
            // `id = k`: id is unique, so at most one row; k beyond the table gives zero rows
            q.filter = Some(E::Cmp(CmpOp::Eq, Box::new(E::ICol { item: 0, cls: Cls::Num, sel: 0 }), Box::new(E::ILit(k))));
            q
        }),
    ]
    .boxed()
}

/// boolean expressions with AND / OR / NOT / (p) IS [NOT] NULL up to `cfg.depth`
pub fn pred_strategy(cfg: &GenCfg) -> BoxedStrategy<E> {
    fn go(cfg: &GenCfg, d: u32) -> BoxedStrategy<E> {
        let atom = atom_strategy(cfg);
        if d == 0 {
            return atom;
        }
        let sub = go(cfg, d - 1);
        let mut alts: Vec<(u32, BoxedStrategy<E>)> = vec![
            (4, atom),
            (3, (sub.clone(), sub.clone()).prop_map(|(a, b)| E::And(Box::new(a), Box::new(b))).boxed()),
            (3, (sub.clone(), sub.clone()).prop_map(|(a, b)| E::Or(Box::new(a), Box::new(b))).boxed()),
        ];
        if cfg.on("not") {
            alts.push((3, sub.clone().prop_map(|a| E::Not(Box::new(a))).boxed()));
        }
        if cfg.on("is_null_over_predicate") {
            alts.push((1, (sub.clone(), any::<bool>()).prop_map(|(a, n)| E::IsNull(Box::new(a), n)).boxed()));
        }
        proptest::strategy::Union::new_weighted(alts).boxed()
    }
    go(cfg, cfg.depth)
}
