//! `vcheck SQL` — development aid: reads statements (one per line) from stdin, runs them on a
//! fresh database and prints results. Lines: `.reopen`, `.close`, `.clone N` (switch handle).

use std::io::BufRead;
use turdb::{Database, ExecuteResult};

pub fn fmt_result(r: &eyre::Result<ExecuteResult>) -> String {
    match r {
        Ok(ExecuteResult::Select { columns, rows }) => {
            let mut s = format!("SELECT {:?}\n", columns);
            for row in rows {
                s.push_str(&format!("   {:?}\n", row.values));
            }
            s
        }
        Ok(o) => format!("{:?}\n", o),
        Err(e) => format!("ERR {}\n", e),
    }
}

pub fn main() -> i32 {
    let dir = vcore::tmp::TempDir::new("sqlprobe");
    let path = dir.join("db");
    let mut handles: Vec<Database> = vec![Database::create(&path).expect("create")];
    let mut cur = 0usize;
    for line in std::io::stdin().lock().lines() {
        let line = line.unwrap();
        let l = line.trim();
        if l.is_empty() || l.starts_with("--") {
            continue;
        }
        println!("> {}", l);
        if l == ".reopen" {
            let r = handles[0].close();
            println!("close: {:?}", r.map(|_| ()));
            handles.clear();
            match Database::open(&path) {
                Ok(d) => handles.push(d),
                Err(e) => {
                    println!("open failed: {}", e);
                    return 1;
                }
            }
            cur = 0;
            continue;
        }
        if l == ".dropopen" {
            handles.clear();
            match Database::open(&path) {
                Ok(d) => handles.push(d),
                Err(e) => {
                    println!("open failed: {}", e);
                    return 1;
                }
            }
            cur = 0;
            continue;
        }
        if let Some(q) = l.strip_prefix(".crashquery ") {
            // copy the directory as a kill would leave it, open the copy (recovery runs) and run one query there
            let cp = dir.join(&format!("crashcopy{}", handles.len()));
            vcore::tmp::copy_dir(&path, &cp).expect("copy");
            match Database::open(&cp) {
                Ok(d) => print!("(recovered copy) {}", fmt_result(&d.execute(q))),
                Err(e) => println!("(recovered copy) open failed: {}", e),
            }
            continue;
        }
        if let Some(n) = l.strip_prefix(".h ") {
            let n: usize = n.trim().parse().unwrap_or(0);
            while handles.len() <= n {
                let c = handles[0].clone();
                handles.push(c);
            }
            cur = n;
            continue;
        }
        let r = vcore::catch(|| handles[cur].execute(l));
        match r {
            Ok(r) => print!("{}", fmt_result(&r)),
            Err(p) => println!("PANIC {}:{} {}", p.file, p.line, p.message),
        }
    }
    0
}
