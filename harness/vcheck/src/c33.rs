//! C33 Spilled rows round-trip through the spill format.
//!
//! G: sequences of 1..12 rows of 0..64 columns over every value variant the spill code
//! accepts (`types::Value` for the Grace-hash-join format, `OwnedValue` — which adds Bool,
//! Date, Time, Timestamp — for the subquery spill file): NULLs, integer and float zeros,
//! -0.0, infinities, NaNs, empty and multi-KiB text/blob/jsonb/vector payloads.
//! O (a) `RowSerde`: all rows serialised into ONE buffer and decoded back in order: each row
//! equals its input (same variant, same value, floats bitwise, NaN stays NaN), the offset
//! after a row equals the sum of the `row_size` of the rows so far, the last offset is the
//! end of the buffer, and `row_size` equals the bytes `serialize_row_into` appended.
//! (b) the same rows through `PartitionSpiller::write_row` -> (budget-triggered or explicit
//! `spill_partition`) -> `start_read` / `read_next`: every partition returns its rows in write
//! order, whether it stayed in memory, was spilled at the end, or was spilled midway and
//! appended to. (c) the rows as `OwnedValue`s through `SpillableBuffer::push` ->
//! `into_vec` / `iter`, with memory limits that force and that avoid the spill file.


use proptest::prelude::*;
use serde::{Deserialize, Serialize};
use smallvec::SmallVec;
use turdb::sql::partition_spiller::PartitionSpiller;
use turdb::sql::row_serde::RowSerde;
use turdb::sql::subquery::spill::{MaterializedRow, SpillableBuffer};
use turdb::types::{OwnedValue, Value};
use vcore::{Check, Ctx, Outcome, Tier};

#[derive(Debug, Clone, Serialize, Deserialize, PartialEq, Hash)]
pub enum V {
    Null,
    Int(i64),
    /// f64 bits
    Float(u64),
    Text { s: String, rep: u32 },
    Blob { b: Vec<u8>, rep: u32 },
    /// f32 bits
    Vector { bits: Vec<u32>, rep: u32 },
    Uuid([u8; 16]),
    Mac([u8; 6]),
    Inet4([u8; 4]),
    Inet6([u8; 16]),
    Jsonb { b: Vec<u8>, rep: u32 },
    TsTz(i64, i32),
    Interval(i64, i32, i32),
    Point(u64, u64),
    GeoBox([u64; 4]),
    Circle([u64; 3]),
    Enum(u16, u16),
    Decimal { hi: i64, lo: u64, scale: i16 },
    Toast(Vec<u8>),
    // OwnedValue-only variants (reach the join spill as Int through OwnedValue::to_value)
    Bool(bool),
    Date(i32),
    Time(i64),
    Timestamp(i64),
}

#[derive(Debug, Clone, Serialize, Deserialize)]
pub struct Case {
    pub rows: Vec<Vec<V>>,
    /// partition chosen for each row (index modulo `nparts`)
    pub part: Vec<u8>,
    pub nparts: u8,
    /// PartitionSpiller memory budget (bytes, shared by all partitions)
    pub budget: u32,
    /// explicitly spill partition 0 after this many writes (None: budget-driven only)
    pub explicit_spill_after: Option<u8>,
    /// SpillableBuffer memory limit
    pub sub_limit: u32,
    /// read the subquery buffer with iter() instead of into_vec()
    pub sub_iter: bool,
    /// run the two file-backed paths (PartitionSpiller, SpillableBuffer) as well; the
    /// generator sets it for a fixed fraction of cases (they cost ~50x a RowSerde-only case)
    #[serde(default = "yes")]
    pub files: bool,
}

fn yes() -> bool {
    true
}

pub struct C33;

fn f(x: u64) -> f64 {
    f64::from_bits(x)
}

fn to_owned(v: &V) -> OwnedValue {
    match v {
        V::Null => OwnedValue::Null,
        V::Int(i) => OwnedValue::Int(*i),
        V::Float(b) => OwnedValue::Float(f(*b)),
        V::Text { s, rep } => OwnedValue::Text(s.repeat(*rep as usize)),
        V::Blob { b, rep } => OwnedValue::Blob(b.repeat(*rep as usize)),
        V::Vector { bits, rep } => {
            let one: Vec<f32> = bits.iter().map(|b| f32::from_bits(*b)).collect();
            OwnedValue::Vector(one.repeat(*rep as usize))
        }
        V::Uuid(u) => OwnedValue::Uuid(*u),
        V::Mac(m) => OwnedValue::MacAddr(*m),
        V::Inet4(a) => OwnedValue::Inet4(*a),
        V::Inet6(a) => OwnedValue::Inet6(*a),
        V::Jsonb { b, rep } => OwnedValue::Jsonb(b.repeat(*rep as usize)),
        V::TsTz(t, z) => OwnedValue::TimestampTz(*t, *z),
        V::Interval(m, d, mo) => OwnedValue::Interval(*m, *d, *mo),
        V::Point(x, y) => OwnedValue::Point(f(*x), f(*y)),
        V::GeoBox(p) => OwnedValue::Box((f(p[0]), f(p[1])), (f(p[2]), f(p[3]))),
        V::Circle(p) => OwnedValue::Circle((f(p[0]), f(p[1])), f(p[2])),
        V::Enum(t, o) => OwnedValue::Enum(*t, *o),
        V::Decimal { hi, lo, scale } => OwnedValue::Decimal(((*hi as i128) << 64) | (*lo as i128), *scale),
        V::Toast(b) => OwnedValue::ToastPointer(b.clone()),
        V::Bool(b) => OwnedValue::Bool(*b),
        V::Date(d) => OwnedValue::Date(*d),
        V::Time(t) => OwnedValue::Time(*t),
        V::Timestamp(t) => OwnedValue::Timestamp(*t),
    }
}

fn vname(v: &Value<'_>) -> &'static str {
    match v {
        Value::Null => "Null",
        Value::Int(_) => "Int",
        Value::Float(_) => "Float",
        Value::Text(_) => "Text",
        Value::Blob(_) => "Blob",
        Value::Vector(_) => "Vector",
        Value::Uuid(_) => "Uuid",
        Value::MacAddr(_) => "MacAddr",
        Value::Inet4(_) => "Inet4",
        Value::Inet6(_) => "Inet6",
        Value::Jsonb(_) => "Jsonb",
        Value::TimestampTz { .. } => "TimestampTz",
        Value::Interval { .. } => "Interval",
        Value::Point { .. } => "Point",
        Value::GeoBox { .. } => "GeoBox",
        Value::Circle { .. } => "Circle",
        Value::Enum { .. } => "Enum",
        Value::Decimal { .. } => "Decimal",
        Value::ToastPointer(_) => "ToastPointer",
    }
}

fn ovname(v: &OwnedValue) -> &'static str {
    match v {
        OwnedValue::Null => "Null",
        OwnedValue::Bool(_) => "Bool",
        OwnedValue::Int(_) => "Int",
        OwnedValue::Float(_) => "Float",
        OwnedValue::Text(_) => "Text",
        OwnedValue::Blob(_) => "Blob",
        OwnedValue::Vector(_) => "Vector",
        OwnedValue::Date(_) => "Date",
        OwnedValue::Time(_) => "Time",
        OwnedValue::Timestamp(_) => "Timestamp",
        OwnedValue::TimestampTz(..) => "TimestampTz",
        OwnedValue::Uuid(_) => "Uuid",
        OwnedValue::MacAddr(_) => "MacAddr",
        OwnedValue::Inet4(_) => "Inet4",
        OwnedValue::Inet6(_) => "Inet6",
        OwnedValue::Interval(..) => "Interval",
        OwnedValue::Point(..) => "Point",
        OwnedValue::Box(..) => "Box",
        OwnedValue::Circle(..) => "Circle",
        OwnedValue::Jsonb(_) => "Jsonb",
        OwnedValue::Decimal(..) => "Decimal",
        OwnedValue::Enum(..) => "Enum",
        OwnedValue::ToastPointer(_) => "ToastPointer",
    }
}

/// bitwise for floats, except that any NaN equals any NaN
fn fsame(a: f64, b: f64) -> bool {
    a.to_bits() == b.to_bits() || (a.is_nan() && b.is_nan())
}

fn vsame(a: &Value<'_>, b: &Value<'_>) -> bool {
    match (a, b) {
        (Value::Float(x), Value::Float(y)) => fsame(*x, *y),
        (Value::Vector(x), Value::Vector(y)) => x.len() == y.len() && x.iter().zip(y.iter()).all(|(p, q)| p.to_bits() == q.to_bits()),
        (Value::Point { x: a1, y: a2 }, Value::Point { x: b1, y: b2 }) => fsame(*a1, *b1) && fsame(*a2, *b2),
        (Value::GeoBox { low: l1, high: h1 }, Value::GeoBox { low: l2, high: h2 }) => fsame(l1.0, l2.0) && fsame(l1.1, l2.1) && fsame(h1.0, h2.0) && fsame(h1.1, h2.1),
        (Value::Circle { center: c1, radius: r1 }, Value::Circle { center: c2, radius: r2 }) => fsame(c1.0, c2.0) && fsame(c1.1, c2.1) && fsame(*r1, *r2),
        _ => a == b,
    }
}

fn ovsame(a: &OwnedValue, b: &OwnedValue) -> bool {
    use OwnedValue as O;
    match (a, b) {
        (O::Float(x), O::Float(y)) => fsame(*x, *y),
        (O::Vector(x), O::Vector(y)) => x.len() == y.len() && x.iter().zip(y).all(|(p, q)| p.to_bits() == q.to_bits()),
        (O::Point(a1, a2), O::Point(b1, b2)) => fsame(*a1, *b1) && fsame(*a2, *b2),
        (O::Box(a1, a2), O::Box(b1, b2)) => fsame(a1.0, b1.0) && fsame(a1.1, b1.1) && fsame(a2.0, b2.0) && fsame(a2.1, b2.1),
        (O::Circle(a1, a2), O::Circle(b1, b2)) => fsame(a1.0, b1.0) && fsame(a1.1, b1.1) && fsame(*a2, *b2),
        _ => a == b,
    }
}

fn brief_val(v: &Value<'_>) -> String {
    let s = format!("{:?}", v);
    if s.len() > 120 {
        format!("{}… ({} chars)", s.chars().take(100).collect::<String>(), s.len())
    } else {
        s
    }
}

fn brief_ov(v: &OwnedValue) -> String {
    let s = format!("{:?}", v);
    if s.len() > 120 {
        format!("{}… ({} chars)", s.chars().take(100).collect::<String>(), s.len())
    } else {
        s
    }
}

/// feature tag for the signature: what is special about the written value
fn tag(v: &Value<'_>) -> &'static str {
    match v {
        Value::Float(x) if *x == 0.0 && x.is_sign_negative() => "|neg_zero",
        Value::Float(x) if *x == 0.0 => "|zero",
        Value::Float(x) if x.is_nan() => "|nan",
        _ => "",
    }
}

/// compare a decoded row with the written one; `Some((sig-tail, detail))` on a difference
fn row_diff(want: &[Value<'_>], got: &[Value<'_>]) -> Option<(String, String)> {
    if want.len() != got.len() {
        return Some(("column_count".into(), format!("{} columns written, {} read", want.len(), got.len())));
    }
    for (i, (w, g)) in want.iter().zip(got).enumerate() {
        if std::mem::discriminant(w) != std::mem::discriminant(g) {
            return Some((format!("type_changed|{}{}", vname(w), tag(w)), format!("column {}: wrote {} read {}", i, brief_val(w), brief_val(g))));
        }
        if !vsame(w, g) {
            return Some((format!("value_changed|{}{}", vname(w), tag(w)), format!("column {}: wrote {} read {}", i, brief_val(w), brief_val(g))));
        }
    }
    None
}

impl Check for C33 {
    type Case = Case;
    fn run(&self, case: &Case) -> Outcome {
        let mut out = Outcome::ok();
        if case.rows.is_empty() || case.rows.iter().any(|r| r.len() > 64) {
            out.add_class("ill_formed_case_skipped");
            return out;
        }
        let owned: Vec<Vec<OwnedValue>> = case.rows.iter().map(|r| r.iter().map(to_owned).collect()).collect();
        let rows: Vec<Vec<Value<'_>>> = owned.iter().map(|r| r.iter().map(|v| v.to_value()).collect()).collect();

        // ---- (a) RowSerde: many rows in one buffer
        let mut buf: Vec<u8> = Vec::new();
        let mut ends: Vec<usize> = Vec::new();
        for (k, row) in rows.iter().enumerate() {
            let before = buf.len();
            RowSerde::serialize_row_into(row, &mut buf);
            let written = buf.len() - before;
            let size = RowSerde::row_size(row);
            if size != written {
                let which = row
                    .iter()
                    .find(|v| {
                        let mut b1 = Vec::new();
                        RowSerde::serialize_row_into(std::slice::from_ref(*v), &mut b1);
                        b1.len() != RowSerde::row_size(std::slice::from_ref(*v))
                    })
                    .map(|v| format!("{}{}", vname(v), tag(v)))
                    .unwrap_or_else(|| "-".into());
                out.set_fail(format!("C33|rowserde|row_size|{}", which), format!("row {}: row_size() = {} but serialize_row_into appended {} bytes", k, size, written));
                return out;
            }
            ends.push(buf.len());
        }
        let mut offset = 0usize;
        let mut dec: SmallVec<[Value<'static>; 16]> = SmallVec::new();
        for (k, row) in rows.iter().enumerate() {
            if let Err(e) = RowSerde::deserialize_row_into(&buf, &mut offset, &mut dec) {
                out.set_fail("C33|rowserde|decode_err", format!("row {} of {}: {}", k, rows.len(), e));
                return out;
            }
            if let Some((sig, detail)) = row_diff(row, &dec) {
                out.set_fail(format!("C33|rowserde|{}", sig), format!("row {} of {} in one buffer: {}", k, rows.len(), detail));
                return out;
            }
            if offset != ends[k] {
                out.set_fail("C33|rowserde|offset", format!("after row {} the offset is {} but the row ends at {}", k, offset, ends[k]));
                return out;
            }
        }
        if offset != buf.len() {
            out.set_fail("C33|rowserde|offset", format!("all rows decoded, offset {} != buffer length {}", offset, buf.len()));
            return out;
        }

        let is_var = |v: &V| matches!(v, V::Text { .. } | V::Blob { .. } | V::Vector { .. } | V::Jsonb { .. } | V::Toast(_));
        let nt = case.rows.iter().any(|r| r.iter().any(is_var) && r.iter().any(|v| matches!(v, V::Null)));
        out.add_class(match rows.len() {
            1 => "rows=1",
            2..=8 => "rows=2..8",
            _ => "rows>=9",
        });
        if case.rows.iter().any(|r| r.is_empty()) {
            out.add_class("has_empty_row");
        }
        if case.rows.iter().any(|r| r.len() > 16) {
            out.add_class("row_wider_than_smallvec_inline");
        }
        if case.rows.iter().flatten().any(|v| matches!(v, V::Float(b) if f(*b) == 0.0)) {
            out.add_class("float_zero");
        }
        if nt {
            out.add_class("nontrivial");
            out.nontrivial = Some(vcore::hash_of(&case.rows));
        }
        if !case.files {
            out.add_class("rowserde_only");
            return out;
        }
        out.add_class("with_file_paths");

        // ---- (b) PartitionSpiller
        let nparts = (case.nparts.max(1) as usize).min(8);
        let dir = vcore::tmp::TempDir::new("c33");
        let mut expect: Vec<Vec<usize>> = vec![Vec::new(); nparts];
        let mut any_spilled = false;
        let mut appended_after_spill = false;
        match PartitionSpiller::new(dir.join("partition"), nparts, case.budget as usize, 7, 'L') {
            Err(e) => {
                out.set_fail("C33|partition|new_err", format!("{}", e));
                return out;
            }
            Ok(mut sp) => {
                for (k, row) in rows.iter().enumerate() {
                    let pid = case.part.get(k).copied().unwrap_or(0) as usize % nparts;
                    let sv: SmallVec<[Value<'static>; 16]> = row.iter().map(|v| v.to_owned_static()).collect();
                    if sp.partition_is_spilled(pid) {
                        appended_after_spill = true;
                    }
                    if let Err(e) = sp.write_row(pid, sv) {
                        out.set_fail("C33|partition|write_err", format!("row {} to partition {}: {}", k, pid, e));
                        return out;
                    }
                    expect[pid].push(k);
                    if case.explicit_spill_after.map(|n| n as usize == k + 1).unwrap_or(false) {
                        if let Err(e) = sp.spill_partition(0) {
                            out.set_fail("C33|partition|spill_err", format!("{}", e));
                            return out;
                        }
                    }
                }
                for pid in 0..nparts {
                    let spilled = sp.partition_is_spilled(pid);
                    any_spilled |= spilled;
                    let st = if spilled { "spilled" } else { "memory" };
                    if sp.partition_row_count(pid) != expect[pid].len() {
                        out.set_fail(format!("C33|partition|row_count|{}", st), format!("partition {}: {} rows written, partition_row_count = {}", pid, expect[pid].len(), sp.partition_row_count(pid)));
                        return out;
                    }
                    if let Err(e) = sp.start_read(pid) {
                        out.set_fail(format!("C33|partition|start_read_err|{}", st), format!("partition {}: {}", pid, e));
                        return out;
                    }
                    let mut n = 0usize;
                    loop {
                        match sp.read_next() {
                            Err(e) => {
                                out.set_fail(format!("C33|partition|read_err|{}", st), format!("partition {} row {}: {}", pid, n, e));
                                return out;
                            }
                            Ok(None) => break,
                            Ok(Some(got)) => {
                                let Some(&k) = expect[pid].get(n) else {
                                    out.set_fail(format!("C33|partition|extra_row|{}", st), format!("partition {}: more than the {} rows written", pid, expect[pid].len()));
                                    return out;
                                };
                                if let Some((sig, detail)) = row_diff(&rows[k], got) {
                                    out.set_fail(format!("C33|partition|{}|{}", sig, st), format!("partition {} ({}), its row {} (input row {}): {}", pid, st, n, k, detail));
                                    return out;
                                }
                                n += 1;
                            }
                        }
                    }
                    if n != expect[pid].len() {
                        out.set_fail(format!("C33|partition|missing_rows|{}", st), format!("partition {}: {} rows written, {} read", pid, expect[pid].len(), n));
                        return out;
                    }
                    sp.end_read();
                }
            }
        }
        drop(dir);

        // ---- (c) subquery SpillableBuffer
        let mut sb = SpillableBuffer::new(case.sub_limit as usize);
        for (k, r) in owned.iter().enumerate() {
            if let Err(e) = sb.push(MaterializedRow::new(r.clone())) {
                out.set_fail("C33|subquery|push_err", format!("row {}: {}", k, e));
                return out;
            }
        }
        let sub_spilled = sb.is_spilled();
        let st = if sub_spilled { "spilled" } else { "memory" };
        if sb.row_count() != owned.len() {
            out.set_fail(format!("C33|subquery|row_count|{}", st), format!("{} pushed, row_count() = {}", owned.len(), sb.row_count()));
            return out;
        }
        let got: Result<Vec<MaterializedRow>, String> = if case.sub_iter {
            match sb.iter() {
                Ok(it) => it.map(|r| r.map_err(|e| format!("{}", e))).collect(),
                Err(e) => Err(format!("{}", e)),
            }
        } else {
            sb.into_vec().map_err(|e| format!("{}", e))
        };
        match got {
            Err(e) => {
                out.set_fail(format!("C33|subquery|read_err|{}", st), e);
                return out;
            }
            Ok(got) => {
                if got.len() != owned.len() {
                    out.set_fail(format!("C33|subquery|row_count|{}", st), format!("{} rows pushed, {} read back", owned.len(), got.len()));
                    return out;
                }
                for (k, (w, g)) in owned.iter().zip(&got).enumerate() {
                    if w.len() != g.values.len() {
                        out.set_fail(format!("C33|subquery|column_count|{}", st), format!("row {}: {} columns written, {} read", k, w.len(), g.values.len()));
                        return out;
                    }
                    for (i, (wv, gv)) in w.iter().zip(&g.values).enumerate() {
                        if !ovsame(wv, gv) {
                            let kind = if std::mem::discriminant(wv) != std::mem::discriminant(gv) { "type_changed" } else { "value_changed" };
                            out.set_fail(format!("C33|subquery|{}|{}|{}", kind, ovname(wv), st), format!("row {} column {}: wrote {} read {}", k, i, brief_ov(wv), brief_ov(gv)));
                            return out;
                        }
                    }
                }
            }
        }

        // ---- classes of the file-backed paths
        if any_spilled {
            out.add_class("partition_spilled");
        } else {
            out.add_class("partition_all_in_memory");
        }
        if appended_after_spill {
            out.add_class("partition_append_after_spill");
        }
        out.add_class(if sub_spilled { "subquery_spilled" } else { "subquery_in_memory" });
        out
    }
}

// ---------------------------------------------------------------- generators

fn i64_adv() -> impl Strategy<Value = i64> {
    prop_oneof![
        3 => any::<i64>(),
        4 => -3i64..4,
        1 => Just(i64::MIN), 1 => Just(i64::MAX),
        2 => (0u32..63).prop_map(|s| 1i64 << s),
        2 => (0u32..63).prop_map(|s| -(1i64 << s)),
    ]
}

fn i32_adv() -> impl Strategy<Value = i32> {
    prop_oneof![3 => any::<i32>(), 3 => -3i32..4, 1 => Just(i32::MIN), 1 => Just(i32::MAX)]
}

fn f64_bits() -> impl Strategy<Value = u64> {
    prop_oneof![
        4 => any::<u64>(),
        2 => Just(0u64),
        2 => Just(0x8000_0000_0000_0000u64),
        1 => Just(f64::INFINITY.to_bits()),
        1 => Just(f64::NEG_INFINITY.to_bits()),
        1 => Just(f64::NAN.to_bits()),
        1 => Just(0xFFF8_0000_0000_0001u64), // negative NaN with payload
        1 => Just(1u64),
        1 => Just(0x8000_0000_0000_0001u64),
        1 => Just(f64::MAX.to_bits()),
        1 => Just(f64::MIN.to_bits()),
        3 => (-5i32..5).prop_map(|i| (i as f64 * 0.5).to_bits()),
    ]
}

fn small_text() -> impl Strategy<Value = String> {
    proptest::collection::vec(prop_oneof![4 => Just('a'), 1 => Just('\0'), 1 => Just('é'), 1 => Just('\u{10ffff}'), 2 => any::<char>()], 0..10).prop_map(|v| v.into_iter().collect())
}

fn rep() -> impl Strategy<Value = u32> {
    prop_oneof![24 => Just(1u32), 6 => 2u32..50, 1 => 50u32..3000]
}

fn value() -> impl Strategy<Value = V> {
    prop_oneof![
        4 => Just(V::Null),
        4 => i64_adv().prop_map(V::Int),
        5 => f64_bits().prop_map(V::Float),
        4 => (small_text(), rep()).prop_map(|(s, rep)| V::Text { s, rep }),
        3 => (proptest::collection::vec(any::<u8>(), 0..10), rep()).prop_map(|(b, rep)| V::Blob { b, rep }),
        2 => (proptest::collection::vec(prop_oneof![any::<u32>(), Just(0u32), Just(0x8000_0000u32), Just(f32::NAN.to_bits())], 0..6), rep()).prop_map(|(bits, rep)| V::Vector { bits, rep }),
        1 => proptest::array::uniform16(any::<u8>()).prop_map(V::Uuid),
        1 => proptest::array::uniform6(any::<u8>()).prop_map(V::Mac),
        1 => proptest::array::uniform4(any::<u8>()).prop_map(V::Inet4),
        1 => proptest::array::uniform16(any::<u8>()).prop_map(V::Inet6),
        2 => (proptest::collection::vec(any::<u8>(), 0..12), rep()).prop_map(|(b, rep)| V::Jsonb { b, rep }),
        1 => (i64_adv(), i32_adv()).prop_map(|(t, z)| V::TsTz(t, z)),
        1 => (i64_adv(), i32_adv(), i32_adv()).prop_map(|(a, b, c)| V::Interval(a, b, c)),
        1 => (f64_bits(), f64_bits()).prop_map(|(x, y)| V::Point(x, y)),
        1 => proptest::array::uniform4(f64_bits()).prop_map(V::GeoBox),
        1 => proptest::array::uniform3(f64_bits()).prop_map(V::Circle),
        1 => (any::<u16>(), any::<u16>()).prop_map(|(t, o)| V::Enum(t, o)),
        2 => (prop_oneof![any::<i64>(), -2i64..2, Just(i64::MIN), Just(i64::MAX)], prop_oneof![any::<u64>(), 0u64..100], prop_oneof![any::<i16>(), 0i16..8]).prop_map(|(hi, lo, scale)| V::Decimal { hi, lo, scale }),
        1 => prop_oneof![
            proptest::collection::vec(any::<u8>(), 16).prop_map(|mut b| { b.insert(0, 0xFE); V::Toast(b) }),
            proptest::collection::vec(any::<u8>(), 0..20).prop_map(V::Toast),
        ],
        1 => any::<bool>().prop_map(V::Bool),
        1 => i32_adv().prop_map(V::Date),
        1 => i64_adv().prop_map(V::Time),
        1 => i64_adv().prop_map(V::Timestamp),
    ]
}

pub fn strategy() -> BoxedStrategy<Case> {
    let width = prop_oneof![1 => Just(0usize), 10 => 1usize..=6, 4 => 1usize..=16, 1 => 17usize..=64];
    let row = width.prop_flat_map(|w| proptest::collection::vec(value(), w));
    (
        proptest::collection::vec(row, 1..13),
        proptest::collection::vec(any::<u8>(), 24),
        1u8..=4,
        prop_oneof![Just(0u32), Just(64), Just(256), Just(1024), Just(16_384), Just(1 << 22)],
        proptest::option::weighted(0.3, 1u8..12),
        prop_oneof![Just(0u32), Just(100), Just(600), Just(8192), Just(1 << 22)],
        any::<bool>(),
        proptest::bool::weighted(0.1),
    )
        .prop_map(|(rows, part, nparts, budget, explicit_spill_after, sub_limit, sub_iter, files)| Case { rows, part, nparts, budget, explicit_spill_after, sub_limit, sub_iter, files })
        .boxed()
}

pub fn main(tier: Tier, replay: Option<String>) -> i32 {
    if let Some(p) = replay {
        return vcore::replay_file("C33", &C33, &p);
    }
    let ctx = Ctx::new("C33", tier, "exploration");
    ctx.set_rule(
        "proptest-generated sequences of 1..12 rows of 0..64 columns over all 19 types::Value variants plus the 4 OwnedValue-only ones (Bool, Date, Time, Timestamp), with NULLs, integer/float zeros, -0.0, \
         infinities, NaNs with payload, empty and repeated (up to tens of KiB) text/blob/jsonb/vector payloads; each case runs RowSerde over one shared buffer; one case in ten also runs PartitionSpiller with 1..4 partitions and budgets \
         0 B..4 MiB (in-memory, budget-spilled, explicitly spilled and appended-after-spill partitions) and the subquery SpillableBuffer with limits 0 B..4 MiB read by into_vec() or iter(). \
         Non-trivial = some row holds a variable-width value and a NULL; distinct by hash of the row sequence.",
    );
    ctx.assume("any NaN read back for a NaN counts as equal (RowSerde documents a single NAN discriminant); every other float must keep its bits");
    ctx.assume("scratch files live under /dev/shm/verif-tmp (PartitionSpiller) and std::env::temp_dir() (SpillableBuffer picks it itself)");
    let cases = tier.pick(120_000, 1_500_000);
    vcore::drive(&ctx, &C33, strategy, cases, 16);
    ctx.finish()
}
