//! Child-process execution for C22 / C23: aborts, stack overflows, allocation failures and
//! hangs cannot be caught in-process, so every case runs in a child of this same binary
//! (`vcheck <Cnn> --serve`). A child serves many cases (one in flight at a time, so a dead
//! child names its case exactly — no bisection needed); a death or a timeout is re-confirmed
//! with the case alone in a fresh child.
//!
//! Protocol: one JSON object per line on stdin, one JSON object per line on stdout.
//! The child caps its address space (RLIMIT_AS, default 4 GiB) so that an allocation sized
//! by a corrupted length field fails loudly instead of exhausting the machine.

use std::cell::RefCell;
use std::io::{BufRead, BufReader, Write};
use std::path::PathBuf;
use std::process::{Child, ChildStdin, Command, Stdio};
use std::sync::mpsc::{channel, Receiver, RecvTimeoutError};
use std::time::Duration;

use serde_json::{json, Value as J};

pub const CASE_STACK: usize = 8 << 20;

fn as_limit_bytes() -> u64 {
    std::env::var("VERIF_CHILD_AS_MB").ok().and_then(|v| v.parse::<u64>().ok()).unwrap_or(4096) << 20
}

/// Child main loop. `handler` runs one request on a thread with an 8 MiB stack (a fixed
/// size, so stack-depth findings do not depend on `ulimit -s`).
pub fn serve(handler: fn(&J) -> J) -> i32 {
    unsafe {
        let lim = libc::rlimit { rlim_cur: as_limit_bytes(), rlim_max: as_limit_bytes() };
        libc::setrlimit(libc::RLIMIT_AS, &lim);
        // no core files from expected aborts
        let z = libc::rlimit { rlim_cur: 0, rlim_max: 0 };
        libc::setrlimit(libc::RLIMIT_CORE, &z);
    }
    vcore::install_panic_hook();
    let stdin = std::io::stdin();
    let stdout = std::io::stdout();
    for line in stdin.lock().lines() {
        let Ok(line) = line else { break };
        if line.trim().is_empty() {
            continue;
        }
        let req: J = match serde_json::from_str(&line) {
            Ok(j) => j,
            Err(e) => {
                let mut o = stdout.lock();
                let _ = writeln!(o, "{}", json!({"r": "bad_request", "detail": e.to_string()}));
                let _ = o.flush();
                continue;
            }
        };
        let th = std::thread::Builder::new().stack_size(CASE_STACK).spawn(move || handler(&req));
        let reply = match th {
            Ok(h) => match h.join() {
                Ok(j) => j,
                Err(_) => json!({"r": "harness_panic", "detail": "the request handler itself panicked"}),
            },
            Err(e) => json!({"r": "harness_error", "detail": format!("cannot spawn case thread: {}", e)}),
        };
        let exit_after = reply.get("exit_after").and_then(|v| v.as_bool()).unwrap_or(false);
        {
            let mut o = stdout.lock();
            let _ = writeln!(o, "{}", reply);
            let _ = o.flush();
        }
        if exit_after {
            break;
        }
    }
    vtargets::dbfile::cleanup();
    vtargets::sqlrun::cleanup();
    0
}

pub enum Reply {
    Line(J),
    Died { signal: Option<i32>, code: Option<i32>, stderr: String },
    Timeout,
}

pub struct Client {
    child: Child,
    stdin: Option<ChildStdin>,
    rx: Receiver<String>,
    stderr_path: PathBuf,
    pub served: u32,
}

impl Client {
    pub fn spawn(prop: &str) -> std::io::Result<Client> {
        let exe = std::env::current_exe()?;
        let base = vcore::tmp::base();
        let _ = std::fs::create_dir_all(&base);
        static N: std::sync::atomic::AtomicU64 = std::sync::atomic::AtomicU64::new(0);
        let stderr_path = base.join(format!("child-stderr-{}-{}", std::process::id(), N.fetch_add(1, std::sync::atomic::Ordering::SeqCst)));
        let errf = std::fs::File::create(&stderr_path)?;
        let mut child = Command::new(exe).arg(prop).arg("--serve").stdin(Stdio::piped()).stdout(Stdio::piped()).stderr(Stdio::from(errf)).spawn()?;
        let stdin = child.stdin.take();
        let stdout = child.stdout.take().expect("child stdout");
        let (tx, rx) = channel();
        std::thread::spawn(move || {
            let r = BufReader::new(stdout);
            for l in r.lines() {
                match l {
                    Ok(l) => {
                        if tx.send(l).is_err() {
                            break;
                        }
                    }
                    Err(_) => break,
                }
            }
        });
        Ok(Client { child, stdin, rx, stderr_path, served: 0 })
    }

    fn stderr_tail(&self) -> String {
        let s = std::fs::read(&self.stderr_path).map(|b| String::from_utf8_lossy(&b).to_string()).unwrap_or_default();
        let n = s.len();
        let mut cut = n.saturating_sub(1500);
        while !s.is_char_boundary(cut) {
            cut += 1;
        }
        s[cut..].to_string()
    }

    pub fn call(&mut self, req: &J, timeout: Duration) -> Reply {
        self.served += 1;
        let line = format!("{}\n", req);
        let wrote = match self.stdin.as_mut() {
            Some(s) => s.write_all(line.as_bytes()).and_then(|_| s.flush()).is_ok(),
            None => false,
        };
        if !wrote {
            return self.dead();
        }
        match self.rx.recv_timeout(timeout) {
            Ok(l) => match serde_json::from_str::<J>(&l) {
                Ok(j) => Reply::Line(j),
                Err(_) => Reply::Line(json!({"r": "garbled", "detail": l.chars().take(200).collect::<String>()})),
            },
            Err(RecvTimeoutError::Timeout) => {
                let _ = self.child.kill();
                let _ = self.child.wait();
                Reply::Timeout
            }
            Err(RecvTimeoutError::Disconnected) => self.dead(),
        }
    }

    fn dead(&mut self) -> Reply {
        use std::os::unix::process::ExitStatusExt;
        self.stdin = None;
        // give the process a moment to be reaped
        let status = self.child.wait().ok();
        let (signal, code) = match status {
            Some(s) => (s.signal(), s.code()),
            None => (None, None),
        };
        Reply::Died { signal, code, stderr: self.stderr_tail() }
    }

    pub fn pid(&self) -> u32 {
        self.child.id()
    }

    pub fn shutdown(mut self) {
        self.stdin = None; // EOF: the child leaves its loop and cleans up
        let t0 = std::time::Instant::now();
        loop {
            match self.child.try_wait() {
                Ok(Some(_)) => break,
                Ok(None) if t0.elapsed() < Duration::from_secs(5) => std::thread::sleep(Duration::from_millis(5)),
                _ => {
                    let _ = self.child.kill();
                    let _ = self.child.wait();
                    break;
                }
            }
        }
        cleanup_pid(self.child.id());
        let _ = std::fs::remove_file(&self.stderr_path);
    }
}

impl Drop for Client {
    fn drop(&mut self) {
        self.stdin = None;
        let _ = self.child.kill();
        let _ = self.child.wait();
        cleanup_pid(self.child.id());
        let _ = std::fs::remove_file(&self.stderr_path);
    }
}

/// scratch directories a dead child left behind (`vt-<tag>-<pid>-<n>`, `vt-template-<pid>`)
pub fn cleanup_pid(pid: u32) {
    let base = vcore::tmp::base();
    let Ok(rd) = std::fs::read_dir(&base) else { return };
    let a = format!("-{}-", pid);
    let b = format!("-{}", pid);
    for e in rd.flatten() {
        let n = e.file_name().to_string_lossy().to_string();
        if n.starts_with("vt-") && (n.contains(&a) || n.ends_with(&b)) {
            let _ = std::fs::remove_dir_all(e.path());
        }
    }
}

thread_local! {
    static CLIENT: RefCell<Option<Client>> = const { RefCell::new(None) };
}

pub fn death_class(signal: Option<i32>, code: Option<i32>, stderr: &str) -> String {
    if stderr.contains("has overflowed its stack") {
        "stack_overflow".into()
    } else if stderr.contains("memory allocation of") {
        "alloc_failed".into()
    } else if stderr.contains("capacity overflow") {
        "capacity_overflow".into()
    } else if stderr.contains("panic in a function that cannot unwind") || stderr.contains("panicked while processing panic") || stderr.contains("panic in a destructor") {
        "panic_abort".into()
    } else {
        match (signal, code) {
            (Some(libc::SIGSEGV), _) => "sigsegv".into(),
            (Some(libc::SIGBUS), _) => "sigbus".into(),
            (Some(libc::SIGABRT), _) => "sigabrt".into(),
            (Some(libc::SIGILL), _) => "sigill".into(),
            (Some(libc::SIGKILL), _) => "sigkill".into(),
            (Some(s), _) => format!("signal_{}", s),
            (None, Some(c)) => format!("exit_{}", c),
            _ => "unknown".into(),
        }
    }
}

pub enum Exec {
    /// the child's reply line
    Reply(J),
    /// the child died on this case, also when the case ran alone in a fresh child
    Died { class: String, detail: String },
    /// no reply within the timeout, twice, alone in a fresh child
    Hang(String),
    /// could not run (spawn failure ...)
    Infra(String),
}

pub const RECYCLE_AFTER: u32 = 400;

/// Execute one request in this thread's child. `timeout` is generous (hangs are reported
/// as inconclusive, never as violations).
pub fn exec(prop: &str, req: &J, timeout: Duration) -> Exec {
    CLIENT.with(|slot| {
        let mut slot = slot.borrow_mut();
        if slot.as_ref().map(|c| c.served >= RECYCLE_AFTER).unwrap_or(false) {
            if let Some(c) = slot.take() {
                c.shutdown();
            }
        }
        if slot.is_none() {
            match Client::spawn(prop) {
                Ok(c) => *slot = Some(c),
                Err(e) => return Exec::Infra(format!("cannot spawn child: {}", e)),
            }
        }
        let first = slot.as_mut().unwrap().call(req, timeout);
        match first {
            Reply::Line(j) => {
                if j.get("exit_after").and_then(|v| v.as_bool()).unwrap_or(false) {
                    if let Some(c) = slot.take() {
                        c.shutdown();
                    }
                }
                Exec::Reply(j)
            }
            Reply::Died { .. } | Reply::Timeout => {
                let was_timeout = matches!(first, Reply::Timeout);
                *slot = None; // Drop kills and cleans
                // confirm alone in a fresh child (twice for a timeout)
                let mut hangs = 0;
                for _attempt in 0..2 {
                    let mut c = match Client::spawn(prop) {
                        Ok(c) => c,
                        Err(e) => return Exec::Infra(format!("cannot spawn child: {}", e)),
                    };
                    match c.call(req, timeout) {
                        Reply::Line(j) => {
                            // did not reproduce alone: state leaked from earlier cases of the batch
                            let mut j = j;
                            if let Some(o) = j.as_object_mut() {
                                o.insert("batch_only".into(), json!(if was_timeout { "timeout" } else { "death" }));
                            }
                            c.shutdown();
                            return Exec::Reply(j);
                        }
                        Reply::Died { signal, code, stderr } => {
                            let class = death_class(signal, code, &stderr);
                            let tail: String = stderr.lines().rev().take(6).collect::<Vec<_>>().into_iter().rev().collect::<Vec<_>>().join(" / ");
                            return Exec::Died { class, detail: format!("child died (signal {:?}, exit code {:?}); stderr: {}", signal, code, tail.chars().take(600).collect::<String>()) };
                        }
                        Reply::Timeout => {
                            hangs += 1;
                        }
                    }
                }
                Exec::Hang(format!("no reply within {:?} in {} isolated attempts", timeout, hangs))
            }
        }
    })
}

/// end of a worker thread's life
pub fn shutdown_thread_client() {
    CLIENT.with(|slot| {
        if let Some(c) = slot.borrow_mut().take() {
            c.shutdown();
        }
    });
}
