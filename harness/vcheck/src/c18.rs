//! C18 Subqueries and set operations follow SQL semantics.
//!
//! G: 1–2 generated tables and one query of four shapes: (a) WHERE with [NOT] IN (subquery),
//! [NOT] EXISTS, comparison with a scalar subquery — correlated or not, nested to depth 3,
//! mixed with ordinary predicates through AND / OR / NOT; (b) a scalar subquery in the select
//! list; (c) a derived table in FROM (optionally filtered / aggregated outside); (d) UNION /
//! UNION ALL / INTERSECT / EXCEPT chains of 2–3 simple selects. O: differential against
//! bundled SQLite on identical data (scalar subqueries return ≤ 1 row by construction; no
//! INTERSECT ALL / EXCEPT ALL; no `A op B INTERSECT C`). Bags compared, floats at 1e-9.

use std::collections::BTreeSet;

use proptest::prelude::*;
use serde::{Deserialize, Serialize};
use vcore::{Check, Ctx, Outcome, Tier};

use crate::equery::*;

#[derive(Debug, Clone, Serialize, Deserialize)]
pub struct Case {
    pub schema: Schema,
    pub q: Select,
}

pub struct C18 {
    pub gates: BTreeSet<String>,
    pub all_tags: bool,
}

pub const TRIGGERS: &[&str] = &[
    "text.toasted_value",
    "setop.chain",
    "setop.int_vs_double_columns",
    "subquery.in_select_list",
    "not_in_subquery",
    "subquery.under_not",
    "derived_table.inner_distinct",
    "subquery.constant_select_item",
    "subquery.mixed_with_other_predicates",
    "in_subquery.lhs_not_a_column",
    "scalar_subquery.in_where",
    "subquery.inner_where",
];

/// facts about the subqueries of `e` (recursively): nesting depth, placement under NOT / OR
fn sub_facts(e: &E, depth: u32, under: &str, schema: &Schema, tags: &mut BTreeSet<&'static str>, nt: &mut bool) {
    let n = schema.tables.len();
    let mut visit_select = |q: &Select, tags: &mut BTreeSet<&'static str>, nt: &mut bool| {
        if depth + 1 >= 2 {
            tags.insert("subquery.nested");
        }
        if let Some(f) = &q.filter {
            sub_facts(f, depth + 1, "", schema, tags, nt);
        }
    };
    match e {
        E::InSub(a, q, neg) => {
            if under == "not" {
                tags.insert("subquery.under_not");
            }
            if under == "or" {
                tags.insert("subquery.under_or");
            }
            // does the subquery's source column hold a NULL?
            if let (Some(Src::Table(t)), Some(it)) = (q.from.first().map(|f| &f.src), q.items.first()) {
                let tab = &schema.tables[*t as usize % n];
                let sc = q.top_scope(schema);
                let col = match &it.e {
                    E::NCol { sel, .. } => sc.pick(Cls::Num, *sel),
                    E::TCol { sel, .. } => sc.pick(Cls::Text, *sel),
                    _ => None,
                };
                if let Some((_, c, _)) = col {
                    if tab.data().iter().any(|r| r[c].is_null()) {
                        tags.insert(if *neg { "not_in_subquery.null_in_source_column" } else { "in_subquery.null_in_source_column" });
                        if *neg {
                            *nt = true;
                        }
                    }
                } else {
                    tags.insert("subquery.constant_select_item");
                }
                if tab.nrows() == 0 {
                    tags.insert("subquery.empty_table");
                }
            }
            if !matches!(**a, E::NCol { .. } | E::TCol { .. }) {
                tags.insert("in_subquery.lhs_not_a_column");
            }
            if q.filter.is_some() {
                tags.insert("subquery.inner_where");
            }
            sub_facts(a, depth, under, schema, tags, nt);
            visit_select(q, tags, nt);
        }
        E::Exists(q, _) => {
            if q.filter.is_some() {
                tags.insert("subquery.inner_where");
            }
            if under == "not" {
                tags.insert("subquery.under_not");
            }
            if under == "or" {
                tags.insert("subquery.under_or");
            }
            visit_select(q, tags, nt);
        }
        E::Scalar(_, q) => {
            if let Some(it) = q.items.first() {
                if !it.e.has_agg() {
                    tags.insert("scalar_subquery.point_lookup");
                    // id = k with k outside 1..=nrows: zero rows
                    if let (Some(Src::Table(t)), Some(E::Cmp(_, _, k))) = (q.from.first().map(|f| &f.src), &q.filter) {
                        if let E::ILit(k) = &**k {
                            let rows = schema.tables[*t as usize % n].nrows() as i64;
                            if ilit(*k) < 1 || ilit(*k) > rows {
                                tags.insert("scalar_subquery.zero_rows");
                                *nt = true;
                            }
                        }
                    }
                } else {
                    tags.insert("scalar_subquery.aggregate");
                }
            }
            visit_select(q, tags, nt);
        }
        E::Not(a) => sub_facts(a, depth, "not", schema, tags, nt),
        E::Or(a, b) => {
            sub_facts(a, depth, "or", schema, tags, nt);
            sub_facts(b, depth, "or", schema, tags, nt);
        }
        E::And(a, b) => {
            sub_facts(a, depth, under, schema, tags, nt);
            sub_facts(b, depth, under, schema, tags, nt);
        }
        E::Cmp(_, a, b) => {
            sub_facts(a, depth, under, schema, tags, nt);
            sub_facts(b, depth, under, schema, tags, nt);
        }
        E::IsNull(a, _) => sub_facts(a, depth, if under.is_empty() { "is_null" } else { under }, schema, tags, nt),
        _ => {}
    }
}

fn has_subquery(e: &E) -> bool {
    let mut f = false;
    e.walk(&mut |n| {
        if matches!(n, E::InSub(..) | E::Exists(..) | E::Scalar(..)) {
            f = true;
        }
    });
    f
}

impl C18 {
    fn go(&self, case: &Case, gates: &BTreeSet<String>) -> Outcome {
        let mut out = Outcome::ok();
        let (sql, mut tags) = render(&case.schema, &case.q, Dialect::Turdb, false);
        let (lite, _) = render(&case.schema, &case.q, Dialect::Sqlite, false);
        let mut nt = false;
        let q = &case.q;
        if let Some(f) = &q.filter {
            if has_subquery(f) {
                tags.insert("subquery.in_where");
                // WHERE = exactly one subquery predicate, or mixed with other predicates
                let bare = |f: &E| matches!(f, E::InSub(..) | E::Exists(..)) || matches!(f, E::Cmp(_, _, b) if matches!(**b, E::Scalar(..)));
                let bare_or_negated = bare(f) || matches!(f, E::Not(a) if bare(a));
                if !bare_or_negated {
                    tags.insert("subquery.mixed_with_other_predicates");
                }
                let mut scalar_in_where = false;
                f.walk(&mut |n| {
                    if matches!(n, E::Scalar(..)) {
                        scalar_in_where = true;
                    }
                });
                if scalar_in_where {
                    tags.insert("scalar_subquery.in_where");
                }
            }
            sub_facts(f, 0, "", &case.schema, &mut tags, &mut nt);
        }
        for it in &q.items {
            if has_subquery(&it.e) {
                tags.insert("subquery.in_select_list");
            }
            sub_facts(&it.e, 0, "", &case.schema, &mut tags, &mut nt);
        }
        if tags.contains("correlated") {
            nt = true;
        }
        if !q.setops.is_empty() {
            if q.setops.len() >= 2 {
                tags.insert("setop.chain");
            }
            if q.filter.is_some() || q.setops.iter().any(|(_, s)| s.filter.is_some()) {
                tags.insert("setop.operand_with_where");
            }
            let classes = q.out_classes(&case.schema);
            if classes.len() >= 2 {
                tags.insert("setop.multi_column");
            }
            // INT column on one side, DOUBLE column on the other
            let ntab = case.schema.tables.len();
            let kinds = |s: &Select| -> Vec<Option<bool>> {
                let sc = s.top_scope(&case.schema);
                let tab = match s.from.first().map(|f| &f.src) {
                    Some(Src::Table(t)) => &case.schema.tables[*t as usize % ntab],
                    _ => return vec![],
                };
                s.items
                    .iter()
                    .map(|it| match &it.e {
                        E::NCol { sel, .. } => sc.pick(Cls::Num, *sel).map(|(_, c, _)| c > 0 && tab.cols[c - 1] == Ty::Double),
                        _ => None,
                    })
                    .collect()
            };
            let first = kinds(q);
            for (_, o) in &q.setops {
                for (a, b) in first.iter().zip(kinds(o).iter()) {
                    if let (Some(a), Some(b)) = (a, b) {
                        if a != b {
                            tags.insert("setop.int_vs_double_columns");
                        }
                    }
                }
            }
            for (_, o) in &q.setops {
                // also between later operands
                for (_, o2) in &q.setops {
                    for (a, b) in kinds(o).iter().zip(kinds(o2).iter()) {
                        if let (Some(a), Some(b)) = (a, b) {
                            if a != b {
                                tags.insert("setop.int_vs_double_columns");
                            }
                        }
                    }
                }
            }
            // NULLs or duplicates among the operands' rows make the set semantics visible
            nt = true;
        }
        if q.from.iter().any(|f| matches!(f.src, Src::Derived(_))) {
            nt = true;
            if q.filter.is_some() {
                tags.insert("derived_table.outer_where");
            }
            if q.items.iter().any(|i| i.e.has_agg()) {
                tags.insert("derived_table.outer_aggregate");
            }
            for f in &q.from {
                if let Src::Derived(d) = &f.src {
                    if d.filter.is_some() {
                        tags.insert("derived_table.inner_where");
                    }
                    if d.distinct {
                        tags.insert("derived_table.inner_distinct");
                    }
                    if !d.group_by.is_empty() || d.items.iter().any(|i| i.e.has_agg()) {
                        tags.insert("derived_table.inner_aggregate");
                    }
                    if d.items.iter().any(|i| i.e.depth() > 0 && !i.e.has_agg()) {
                        tags.insert("derived_table.inner_expression");
                    }
                }
            }
        }
        if case.schema.tables.iter().any(|t| t.pk || t.index.is_some()) {
            tags.insert("table.indexed");
        }
        if case.schema.tables.iter().any(|t| t.long_text) {
            tags.insert("text.toasted_value");
        }
        if let Some(g) = tags.iter().find(|t| gates.contains(**t)) {
            out.add_class(format!("gated:{}", g));
            return out;
        }
        let sigtags = tagstr(tags.iter().copied().filter(|t| self.all_tags || TRIGGERS.contains(t)));
        let w = match World::setup("C18", &case.schema) {
            Ok(w) => w,
            Err(_) => {
                out.add_class("setup_rejected");
                return out;
            }
        };
        let exp = match w.sqlite(&lite) {
            Ok(r) => r,
            Err(e) => {
                out.add_class("oracle_rejected");
                if std::env::var("VERIF_DEV_ORACLE").is_ok() {
                    eprintln!("sqlite rejects: {} -> {}", lite, e);
                }
                return out;
            }
        };
        for t in &tags {
            out.add_class(format!("tag:{}", t));
        }
        let facet = if !q.setops.is_empty() {
            "setop"
        } else if tags.contains("derived_table") {
            "derived_table"
        } else if tags.contains("subquery.in_select_list") {
            "select_list_subquery"
        } else {
            "where_subquery"
        };
        out.add_class(format!("shape:{}", facet));
        match w.turdb(&sql) {
            Ok(got) => {
                if let Some((kind, d)) = bag_mismatch(&exp, &got) {
                    out.set_fail(format!("C18|{}|{}|{}", facet, kind, sigtags), format!("{}\n  {}", sql, d));
                    return out;
                }
                out.add_class("checked");
            }
            Err(e) => {
                out.add_class(format!("rejected:{}", construct_of(&tags)));
                if std::env::var("VERIF_DEV_REJECTS").is_ok() {
                    eprintln!("rejected: {} -> {}", sql, e);
                }
                return out;
            }
        }
        if nt {
            out.add_class("nontrivial");
            out.nontrivial = Some(vcore::hash_of(&(sql, format!("{:?}", case.schema))));
        }
        out
    }
}

impl Check for C18 {
    type Case = Case;
    fn run(&self, case: &Case) -> Outcome {
        self.go(case, &self.gates)
    }
    fn run_strict(&self, case: &Case) -> Outcome {
        self.go(case, &BTreeSet::new())
    }
}

fn id_item() -> Item {
    Item { e: E::NCol { up: 0, sel: 0 }, alias: false }
}

/// (a) SELECT id[, col] FROM t WHERE <predicate with subquery atoms>
fn where_shape(cfg: &GenCfg) -> BoxedStrategy<Select> {
    let mut c = cfg.clone();
    c.subq = 3;
    c.depth = 2;
    // force at least one subquery atom at the top: AND/OR/NOT of a subquery atom and an ordinary predicate
    let mut only = cfg.clone();
    only.subq = 3;
    only.depth = 0;
    for k in ["in_list", "between", "like", "bool_column_as_predicate", "bool_literal"] {
        only.off.insert(k.to_string());
    }
    let sub_atom = atom_strategy(&only).prop_filter("subquery atom", |e| has_subquery(e));
    let mut plain = cfg.clone();
    plain.depth = 1;
    let other = pred_strategy(&plain);
    let pred = prop_oneof![
        5 => sub_atom.clone(),
        2 => sub_atom.clone().prop_map(|a| E::Not(Box::new(a))),
        2 => (sub_atom.clone(), other.clone()).prop_map(|(a, b)| E::And(Box::new(a), Box::new(b))),
        2 => (sub_atom.clone(), other).prop_map(|(a, b)| E::Or(Box::new(b), Box::new(a))),
        1 => pred_strategy(&c),
    ];
    (any::<u8>(), pred, any::<bool>())
        .prop_map(|(t, p, alias)| {
            let mut q = Select::table(t);
            q.alias = alias;
            q.items = vec![id_item()];
            q.filter = Some(p);
            q
        })
        .boxed()
}

/// (b) SELECT id, (scalar subquery) FROM t
fn select_list_shape(cfg: &GenCfg) -> BoxedStrategy<Select> {
    let mut inner = cfg.clone();
    inner.subq = 1;
    inner.outer_refs = cfg.on("correlated");
    inner.depth = 1;
    (any::<u8>(), scalar_select_strategy(&inner), any::<bool>())
        .prop_map(|(t, s, alias)| {
            let mut q = Select::table(t);
            q.alias = alias;
            q.items = vec![id_item(), Item { e: E::Scalar(Cls::Num, Box::new(s)), alias: false }];
            q
        })
        .boxed()
}

/// (c) SELECT … FROM (SELECT … FROM t [WHERE] [GROUP BY]) AS x [WHERE]
fn derived_shape(cfg: &GenCfg) -> BoxedStrategy<Select> {
    let mut p = cfg.clone();
    p.depth = 1;
    let inner_plain = (any::<u8>(), proptest::collection::vec(prop_oneof![4 => any::<u8>().prop_map(|sel| E::NCol { up: 0, sel }), 2 => any::<u8>().prop_map(|sel| E::TCol { up: 0, sel }), 1 => (any::<u8>(), any::<i8>()).prop_map(|(sel, k)| E::Add(Box::new(E::NCol { up: 0, sel }), Box::new(E::ILit(k))))], 1..=3), prop_oneof![2 => Just(None), 1 => pred_strategy(&p).prop_map(Some)], prop_oneof![5 => Just(false), 1 => Just(true)])
        .prop_map(|(t, cols, filter, distinct)| {
            let mut q = Select::table(t);
            q.items = cols.into_iter().map(|e| Item { e, alias: true }).collect();
            q.filter = filter;
            q.distinct = distinct;
            q
        });
    let inner_agg = (any::<u8>(), any::<u8>(), any::<u8>(), prop_oneof![Just(AggFn::CountStar), Just(AggFn::Sum), Just(AggFn::Max), Just(AggFn::Min)]).prop_map(|(t, k, a, f)| {
        let mut q = Select::table(t);
        q.items = vec![Item { e: E::NCol { up: 0, sel: k }, alias: true }, Item { e: E::Agg(f, Some(Box::new(E::NCol { up: 0, sel: a })), false), alias: true }];
        q.group_by = vec![E::NCol { up: 0, sel: k }];
        q
    });
    let inner = prop_oneof![4 => inner_plain, 1 => inner_agg];
    (inner, prop_oneof![2 => Just(None), 2 => pred_strategy(&p).prop_map(Some)], prop_oneof![4 => Just(0u8), 1 => Just(1u8)])
        .prop_map(|(d, filter, outer)| {
            let n = d.items.len() as u8;
            let mut q = Select::default();
            q.from.push(FromItem { src: Src::Derived(Box::new(d)), join: JoinKind::Comma, on: None });
            match outer {
                0 => {
                    // every derived column through its class-typed selector would need classes; use `*`-like explicit list via ICol
                    q.items = vec![];
                    let _ = n;
                }
                _ => {
                    q.items = vec![Item { e: E::Agg(AggFn::CountStar, None, false), alias: false }];
                }
            }
            q.filter = filter;
            q
        })
        .boxed()
}

/// (d) SELECT cols FROM t [WHERE] <op> SELECT cols FROM t' [WHERE] [<op> …]
fn setop_shape(cfg: &GenCfg) -> BoxedStrategy<Select> {
    let mut p = cfg.clone();
    p.depth = 1;
    let sig = proptest::collection::vec(prop_oneof![3 => Just(Cls::Num), 1 => Just(Cls::Text)], 1..=2);
    let op = prop_oneof![3 => Just(SetOp::Union), 3 => Just(SetOp::UnionAll), 2 => Just(SetOp::Intersect), 2 => Just(SetOp::Except)];
    let operand = (any::<u8>(), proptest::collection::vec(any::<u8>(), 2), prop_oneof![3 => Just(None), 1 => pred_strategy(&p).prop_map(Some)]);
    (sig, operand.clone(), proptest::collection::vec((op, operand), if cfg.on("setop.chain") { 1..=2usize } else { 1..=1usize }))
        .prop_map(|(sig, first, rest)| {
            let mk = |(t, sels, filter): (u8, Vec<u8>, Option<E>)| {
                let mut q = Select::table(t);
                q.items = sig.iter().enumerate().map(|(i, c)| Item { e: if *c == Cls::Text { E::TCol { up: 0, sel: sels[i] } } else { E::NCol { up: 0, sel: sels[i] } }, alias: false }).collect();
                q.filter = filter;
                q
            };
            let mut q = mk(first);
            for (i, (op, o)) in rest.into_iter().enumerate() {
                // `A op B INTERSECT C` groups differently in the standard and in SQLite: not generated
                let op = if i > 0 && op == SetOp::Intersect { SetOp::Union } else { op };
                q.setops.push((op, mk(o)));
            }
            q
        })
        .boxed()
}

pub fn strategy(gates: &BTreeSet<String>, max_rows: usize) -> BoxedStrategy<Case> {
    let mut cfg = GenCfg::new(1);
    cfg.off = gates.clone();
    if gates.contains("scalar_subquery.in_where") {
        cfg.off.insert("scalar_subquery".into());
    }
    let mut shapes: Vec<(u32, BoxedStrategy<Select>)> = vec![(6, where_shape(&cfg))];
    if cfg.on("subquery.in_select_list") {
        shapes.push((2, select_list_shape(&cfg)));
    }
    if cfg.on("derived_table") {
        shapes.push((2, derived_shape(&cfg)));
    }
    shapes.push((3, setop_shape(&cfg)));
    (schema_strategy(1, 2, max_rows, true), proptest::strategy::Union::new_weighted(shapes)).prop_map(|(schema, q)| Case { schema, q }).boxed()
}

pub fn main(tier: Tier, replay: Option<String>) -> i32 {
    let findings = vcore::Findings::load_default();
    let gates: BTreeSet<String> = findings.closed_gates("C18").into_iter().collect();
    let check = C18 { gates: gates.clone(), all_tags: std::env::var("VERIF_DEV_ALLTAGS").is_ok() };
    if let Some(p) = replay {
        return vcore::replay_file("C18", &check, &p);
    }
    let ctx = Ctx::new("C18", tier, "exploration");
    ctx.set_rule(
        "1-2 proptest-generated tables (0-25 rows, NULLs, duplicates) and one query of four shapes: WHERE with [NOT] IN (SELECT col ...), [NOT] EXISTS (SELECT ...), \
         x <op> (scalar subquery), correlated or not, nested up to depth 3, alone or combined with other predicates through NOT / AND / OR; a scalar subquery in the select list; \
         a derived table in FROM (plain, DISTINCT or grouped; outer WHERE / COUNT(*)); UNION / UNION ALL / INTERSECT / EXCEPT chains of 2-3 single-table selects of 1-2 columns. \
         Non-trivial = a correlated subquery, or a NOT IN whose subquery's source column holds a NULL, or a scalar subquery with zero rows, or a set operation, or a derived table; \
         distinct by hash of (SQL text, schema).",
    );
    ctx.assume("bundled SQLite implements the SQL semantics of IN / EXISTS / scalar subqueries and of UNION / INTERSECT / EXCEPT on the generated subset; scalar subqueries return at most one row by construction");
    let cases = dev_cases(tier.pick(4000, 150_000));
    let g = gates.clone();
    vcore::drive(&ctx, &check, move || strategy(&g, 25), cases, 16);
    ctx.finish()
}
