//! C01 / C02 / C40: drivers on top of the crash-point engine (`crash.rs`).

use std::collections::{BTreeMap, BTreeSet};
use std::path::PathBuf;
use std::sync::atomic::{AtomicUsize, Ordering};
use std::sync::{Arc, Mutex};
use std::time::Duration;

use proptest::prelude::*;
use proptest::strategy::ValueTree;
use proptest::test_runner::{Config, TestRunner};
use serde::{Deserialize, Serialize};
use serde_json::json;
use vcore::{Check, Ctx, Failure, Outcome, Tier};

use crate::crash::*;
use crate::hist::*;
use crate::histchecks::gates_for;

#[derive(Debug, Clone, Serialize, Deserialize)]
pub struct Case {
    pub w: Workload,
    pub crash_at: u64,
    pub power: bool,
}

pub struct CrashCheck {
    pub prop: &'static str,
}

struct Prepared {
    scratch: vcore::tmp::TempDir,
    refs: Vec<RefState>,
    acks: Acks,
    points: Vec<String>,
}

fn prepare(w: &Workload) -> Result<Prepared, String> {
    let scratch = vcore::tmp::TempDir::new("crash");
    // reference run
    let a = ChildArgs { w: w.clone(), dbdir: scratch.join("ref-db"), ackfile: scratch.join("ref-ack"), obsfile: Some(scratch.join("ref-obs")), armed: false, crash_at: 0, shadow: None, pointlog: None };
    let r = run_child(&a, scratch.path(), Duration::from_secs(120));
    if r.timed_out {
        return Err("reference run timed out".into());
    }
    let refs = read_refstates(&scratch.join("ref-obs"));
    if r.exit != Some(0) || refs.is_empty() {
        return Err(format!("reference run unusable (exit {:?}, {} states)", r.exit, refs.len()));
    }
    let _ = std::fs::remove_dir_all(scratch.join("ref-db"));
    // counting run
    let c = ChildArgs { w: w.clone(), dbdir: scratch.join("cnt-db"), ackfile: scratch.join("cnt-ack"), obsfile: None, armed: true, crash_at: 0, shadow: None, pointlog: Some(scratch.join("cnt-points")) };
    let r = run_child(&c, scratch.path(), Duration::from_secs(120));
    if r.timed_out || r.exit != Some(0) {
        return Err(format!("counting run unusable (exit {:?})", r.exit));
    }
    let acks = read_acks(&scratch.join("cnt-ack"));
    let points = read_points(&scratch.join("cnt-points"));
    let _ = std::fs::remove_dir_all(scratch.join("cnt-db"));
    if acks.len() != refs.len() {
        return Err(format!("reference run acknowledged {} statements, counting run {}", refs.len(), acks.len()));
    }
    Ok(Prepared { scratch, refs, acks, points })
}

/// Is the crash point non-trivial by the property's rule?
fn nontrivial_point(p: &Prepared, i: u64) -> bool {
    let kind = p.points.get(i as usize - 1).map(|s| s.as_str()).unwrap_or("");
    if kind.starts_with("catalog") || kind.starts_with("meta") || kind == "wal_truncate" || kind == "wal_rotate" || kind == "file_remove" || kind == "file_create" {
        return true;
    }
    // right after the acknowledgement of a statement that dirtied >= 2 pages (process killed while idle)
    if kind.starts_with("ack") {
        let mut lo = 0u64;
        for (_, _, pts, _) in &p.acks {
            if *pts + 1 == i {
                return ((lo + 1)..=*pts).filter(|j| p.points.get(*j as usize - 1).map(|k| k == "page_mut").unwrap_or(false)).count() >= 2;
            }
            lo = *pts;
        }
        return false;
    }
    // inside a statement that dirties >= 2 pages, after its first page mutation
    let mut lo = 0u64;
    for (_, _, pts, _) in &p.acks {
        if i > lo && i <= *pts {
            let muts: Vec<u64> = ((lo + 1)..=*pts).filter(|j| p.points.get(*j as usize - 1).map(|k| k == "page_mut").unwrap_or(false)).collect();
            return muts.len() >= 2 && i > muts[0];
        }
        lo = *pts;
    }
    false
}

fn examine(prop: &str, p: &Prepared, w: &Workload, crash_at: u64, power: bool, keep: bool) -> Outcome {
    let mut out = Outcome::ok();
    let tag = format!("{}{}", crash_at, if power { "p" } else { "k" });
    let dbdir = p.scratch.join(&format!("db-{}", tag));
    let shadow = p.scratch.join(&format!("shadow-{}", tag));
    let ackfile = p.scratch.join(&format!("ack-{}", tag));
    let a = ChildArgs { w: w.clone(), dbdir: dbdir.clone(), ackfile: ackfile.clone(), obsfile: None, armed: true, crash_at, shadow: if power { Some(shadow.clone()) } else { None }, pointlog: None };
    let r = run_child(&a, p.scratch.path(), Duration::from_secs(120));
    let cleanup = |keep: bool| {
        if !keep {
            let _ = std::fs::remove_dir_all(&dbdir);
            let _ = std::fs::remove_dir_all(&shadow);
            let _ = std::fs::remove_dir_all(p.scratch.join(&format!("power-{}", tag)));
        }
    };
    if r.timed_out {
        cleanup(keep);
        return out.class("child_timed_out");
    }
    if r.exit != Some(77) {
        let err = std::fs::read_to_string(p.scratch.join(&format!("stderr-{}-{}", crash_at, power))).unwrap_or_default();
        cleanup(keep);
        return out.class(format!("child_exit_{:?}_instead_of_crash:{}", r.exit, err.lines().last().unwrap_or("").chars().skip(90).take(200).collect::<String>()));
    }
    let acks = read_acks(&ackfile);
    let acked = acks.len();
    let kind = p.points.get(crash_at as usize - 1).cloned().unwrap_or_else(|| "?".into());
    // (a close+reopen after the schema statements does not make the power-loss model hold either: the table
    // files are still reset to bytes that recovery cannot complete, so both variants carry the same label)
    let model = if power { "power" } else { "kill" };
    if w.ckpt_schema {
        out = out.class(if power { "power_after_reopen" } else { "kill_after_reopen" });
    }
    let target = if power {
        let pd = p.scratch.join(&format!("power-{}", tag));
        if let Err(e) = build_power_dir(&dbdir, &shadow, &pd) {
            cleanup(keep);
            return out.class(format!("power_dir_failed:{}", e));
        }
        pd
    } else {
        dbdir.clone()
    };
    let (stable, next) = candidates(&p.refs, acked);
    let mut schemas: Vec<Vec<crate::refdb::MTable>> = Vec::new();
    let mut cand_idx: Vec<usize> = Vec::new();
    for c in [stable, next].into_iter().flatten() {
        cand_idx.push(c);
        schemas.push(p.refs[c].tables.clone());
    }
    if cand_idx.is_empty() {
        // nothing acknowledged outside a transaction yet: only "opens" is required of the empty database
        schemas.push(vec![]);
    }
    // C02: the degraded-mode streaming recovery (PRAGMA recover_wal) runs on a copy taken before the
    // automatic recovery touches the directory
    let twin = if prop == "C02" && !power {
        let t = p.scratch.join(&format!("twin-{}", tag));
        if vcore::tmp::copy_dir(&target, &t).is_ok() { Some(t) } else { None }
    } else {
        None
    };
    let observed = observe(&target, &schemas, p.scratch.path(), &tag);
    let observed_streaming = twin.as_ref().map(|t| observe_mode(t, &schemas, p.scratch.path(), &tag, true));
    if let Some(t) = &twin {
        let _ = std::fs::remove_dir_all(t);
    }
    let stmt_in_flight = p.refs.get(acked).map(|r| r.kind.clone()).unwrap_or_else(|| "-".into());
    let describe = |what: &str| {
        let last: Vec<String> = p.refs.iter().take(acked + 1).rev().take(6).rev().map(|r| format!("[{}] {}{}", r.stmt, r.sql.chars().take(140).collect::<String>(), if r.stmt == acked { "   <-- in flight at the crash" } else { "" })).collect();
        format!("{} model, crash at point {} of {} (kind {}), {} statements acknowledged: {}\n    {}\n  setup: {:?}", model, crash_at, p.points.len(), kind, acked, what, last.join("\n    "), w.setup)
    };
    let observed_ref = observed;
    match &observed_ref {
        Observed::OpenFailed(e) => {
            // before the first acknowledged statement outside a transaction the database may not exist yet
            if stable.is_some() {
                out.set_fail(format!("{}|{}|{}|open_failed|{}", prop, model, kind, stmt_in_flight), describe(&format!("reopening fails: {}", e.chars().take(300).collect::<String>())));
            } else {
                out.add_class("open_failed_before_first_ack");
            }
        }
        Observed::Died(e) if e.starts_with("TIMEOUT") => {
            out.add_class("observer_timed_out");
        }
        Observed::Died(e) if stable.is_none() => {
            out.add_class(format!("reopen_died_before_first_ack:{}", e.chars().take(40).collect::<String>()));
        }
        Observed::Died(e) => {
            out.set_fail(format!("{}|{}|{}|reopen_died|{}", prop, model, kind, stmt_in_flight), describe(&format!("the process reopening and scanning the database died: {}", e)));
        }
        Observed::Ok(obs_list) => {
            let mut matched = false;
            let mut first_diff = String::new();
            for (k, c) in cand_idx.iter().enumerate() {
                match crate::world::diff_obs(&p.refs[*c].obs, &obs_list[k]) {
                    None => {
                        matched = true;
                        out.add_class(if Some(*c) == stable { "recovered=acknowledged_state" } else { "recovered=acknowledged+in_flight" });
                        break;
                    }
                    Some((facet, d)) => {
                        if first_diff.is_empty() {
                            first_diff = format!("{}: {}", facet, d);
                        }
                    }
                }
            }
            if !matched && stable.is_none() {
                // nothing acknowledged yet: the empty database is an allowed outcome and has no reference state
                out.add_class("before_first_ack");
            } else if !matched && !cand_idx.is_empty() {
                // is it an older acknowledged state (C01: acknowledged work lost) or no prefix at all (C02)?
                let older = stable.map(|s| (0..s).rev().filter(|j| !p.refs[*j].in_txn_after).any(|j| p.refs[j].tables.len() == p.refs[s].tables.len() && p.refs[j].tables.iter().zip(&p.refs[s].tables).all(|(a, b)| a.name == b.name && a.cols == b.cols && a.indexes == b.indexes) && p.refs[j].obs.values().all(|t| t.rows.is_ok() && t.count.is_ok()) && crate::world::diff_obs(&p.refs[j].obs, &obs_list[0]).is_none())).unwrap_or(false);
                let facet = first_diff.split(':').next().unwrap_or("").to_string();
                // inside an open transaction the uncommitted work itself (e.g. a DELETE of every row) can make the
                // database look like an older state: that is not evidence of lost acknowledged statements
                let in_open_txn = acked >= 1 && p.refs.get(acked - 1).map(|r| r.in_txn_after).unwrap_or(false);
                if older && !in_open_txn {
                    if prop == "C01" {
                        out.set_fail(format!("C01|{}|{}|acknowledged_lost|{}", model, kind, stmt_in_flight), describe(&format!("the recovered database equals an OLDER acknowledged state: acknowledged statements are missing ({})", first_diff.chars().take(400).collect::<String>())));
                    } else {
                        out.add_class("other_property:C01_acknowledged_lost");
                    }
                } else {
                    // C01: what both allowed states contain (rows the in-flight statement does not touch) must be
                    // there; a half-applied in-flight statement is C02's concern
                    let sref = &p.refs[cand_idx[0]].obs;
                    // the reference state right after the in-flight statement (inside its transaction, if any):
                    // rows in both are untouched by everything that was still uncommitted at the crash
                    // (killed while idle, kind `ack`: nothing is in flight; the uncommitted work is what the open
                    // transaction, if any, has done up to the last acknowledged statement)
                    // (in-flight ROLLBACK / ROLLBACK TO: likewise, the uncommitted work is what the transaction had
                    // done before it; a half-finished undo leaves part of it in place)
                    let undoing = p.refs.get(acked).map(|r| r.kind == "ROLLBACK" || r.kind == "ROLLBACK_TO").unwrap_or(false);
                    let nref = p.refs.get(if kind.starts_with("ack") || undoing { acked.saturating_sub(1) } else { acked }).filter(|r| r.tables.len() == p.refs[cand_idx[0]].tables.len() && r.tables.iter().zip(&p.refs[cand_idx[0]].tables).all(|(a, b)| a.name == b.name && a.cols == b.cols && a.indexes == b.indexes)).map(|r| &r.obs);
                    let rec = &obs_list[0];
                    let mut missing: Option<String> = None;
                    // rows are compared by value: an uncommitted `SET c = c + k` moves rows onto the values of other
                    // rows, so "this value is in both states" says nothing about one row; such tables are left out
                    let shifted: BTreeSet<String> = (stable.map(|s| s + 1).unwrap_or(0)..=acked)
                        .filter_map(|j| p.refs.get(j))
                        .filter(|r| r.kind == "UPDATE")
                        .filter_map(|r| {
                            let mut it = r.sql.split_whitespace();
                            let t = it.nth(1)?.to_string();
                            let set = r.sql.split(" SET ").nth(1)?.split(" WHERE ").next()?.to_string();
                            set.split(", ").any(|a| a.split_once(" = ").map(|(c, e)| e.starts_with(&format!("{} ", c))).unwrap_or(false)).then_some(t)
                        })
                        .collect();
                    'tables: for (name, st) in sref.iter() {
                        if shifted.contains(name) {
                            out.add_class("table_left_out:uncommitted_self_referential_update");
                            continue;
                        }
                        let Some(rt) = rec.get(name) else {
                            missing = Some(format!("table_missing: {}", name));
                            break;
                        };
                        let in_next = |sql: Option<&str>, row: &Row| -> bool {
                            match nref.and_then(|n| n.get(name)) {
                                None => nref.is_none(),
                                Some(nt) => match sql {
                                    None => nt.rows.as_ref().map(|r| r.contains(row)).unwrap_or(true),
                                    Some(q) => nt.probes.iter().find(|(s, _)| s == q).and_then(|(_, r)| r.as_ref().ok()).map(|r| r.contains(row)).unwrap_or(true),
                                },
                            }
                        };
                        match (&st.rows, &rt.rows) {
                            (Ok(srows), Ok(rrows)) => {
                                for row in srows {
                                    if in_next(None, row) && !rrows.contains(row) {
                                        missing = Some(format!("scan|rows_missing: table {}: acknowledged row {:?} (untouched by the in-flight statement) is gone", name, row.iter().map(|v| v.sql().chars().take(20).collect::<String>()).collect::<Vec<_>>()));
                                        break 'tables;
                                    }
                                }
                            }
                            (Ok(_), Err(e)) => {
                                // a row of the torn in-flight statement whose TOAST chunks did not make it makes the
                                // whole scan fail: named separately (listed finding when the in-flight statement writes one)
                                let f = if e.contains("TOAST chunk not found") {
                                    "scan|error_dangling_toast_pointer"
                                } else if e.contains("expected BTreeLeaf page") || e.contains("unexpected page type") {
                                    // the tree leads to a page that was never formatted (a page split of the in-flight
                                    // statement was cut short)
                                    "scan|error_unformatted_page"
                                } else {
                                    "scan|error"
                                };
                                missing = Some(format!("{}: SELECT * FROM {} fails: {}", f, name, e));
                                break;
                            }
                            _ => {}
                        }
                        // index probes are C02's facet ("every index agrees with its table")
                        let _ = &in_next;
                    }
                    // the table whose scan fails on a dangling TOAST pointer is the one the killed in-flight statement was
                    // writing to (INSERT of a toasted value, UPDATE / DELETE dropping the chunks of the rows it rewrites)
                    let inflight_toast = !kind.starts_with("ack")
                        && p.refs.get(acked).map(|r| {
                            let mut it = r.sql.split_whitespace();
                            let tname = match it.next() {
                                Some("UPDATE") => it.next(),
                                Some("DELETE") | Some("INSERT") => it.nth(1),
                                _ => None,
                            };
                            match (tname, &missing) {
                                (Some(n), Some(m)) => m.contains("dangling_toast_pointer") && m.contains(&format!("FROM {} fails", n)),
                                _ => false,
                            }
                        }).unwrap_or(false);
                    if prop == "C02" || prop == "C40" {
                        // the listed kill-model finding is about the in-flight statement / open transaction being
                        // applied in part; damage to rows that no uncommitted work touched is a different failure
                        match &missing {
                            Some(m) => {
                                let f = m.split(':').next().unwrap_or("").to_string();
                                // NORMAL and OFF behave alike for a killed process (neither forces the log's buffer out)
                                let sync = match w.setup.iter().find_map(|s| s.strip_prefix("PRAGMA synchronous=")) {
                                    Some("FULL") => "FULL",
                                    Some(_) => "not_FULL",
                                    None => "?",
                                };
                                out.set_fail(
                                    format!("{}|{}|{}|acknowledged_rows_damaged|{}|{}{}+sync_{}", prop, model, kind, f, stmt_in_flight, if inflight_toast { "+inflight_touches_toasted_value" } else { "" }, sync),
                                    describe(&format!("the recovered database is no statement-boundary state, and rows that no uncommitted work touched are affected: {}", m.chars().take(500).collect::<String>())),
                                );
                            }
                            None => out.set_fail(format!("{}|{}|{}|not_a_prefix_state|{}|{}", prop, model, kind, facet, stmt_in_flight), describe(&format!("the recovered database is neither the acknowledged state nor that state plus the in-flight statement/transaction: {}", first_diff.chars().take(500).collect::<String>()))),
                        }
                    } else {
                    match missing {
                        Some(m) => {
                            let f = m.split(':').next().unwrap_or("").to_string();
                            let stmt_in_flight = if inflight_toast { format!("{}+inflight_touches_toasted_value", stmt_in_flight) } else { stmt_in_flight.to_string() };
                            out.set_fail(format!("C01|{}|{}|acknowledged_missing|{}|{}", model, kind, f, stmt_in_flight), describe(&format!("acknowledged effects are missing after recovery: {}", m.chars().take(500).collect::<String>())));
                        }
                        None => out.add_class("other_property:C02_not_a_prefix"),
                    }
                    }
                }
            }
        }
    }
    // both recovery paths must leave the same state
    if out.failure.is_none() {
        if let (Observed::Ok(auto), Some(streaming)) = (&observed_ref, &observed_streaming) {
            match streaming {
                Observed::Ok(st) => {
                    for (a, b) in auto.iter().zip(st.iter()) {
                        if let Some((facet, d)) = crate::world::diff_obs(a, b) {
                            out.set_fail(format!("C02|kill|{}|recovery_paths_differ|{}|{}", kind, facet, stmt_in_flight), describe(&format!("automatic recovery at open and PRAGMA recover_wal (degraded mode) leave different states: {}", d.chars().take(400).collect::<String>())));
                            break;
                        }
                    }
                    out.add_class("streaming_recovery_compared");
                }
                Observed::OpenFailed(e) => {
                    if e.contains("recover_wal") {
                        out.set_fail(format!("C02|kill|{}|streaming_recovery_failed|{}", kind, stmt_in_flight), describe(&format!("PRAGMA recover_wal fails where automatic recovery succeeds: {}", e.chars().take(300).collect::<String>())));
                    } else {
                        out.add_class("degraded_open_failed");
                    }
                }
                Observed::Died(e) if e.starts_with("TIMEOUT") => {
                    out.add_class("observer_timed_out");
                }
                Observed::Died(e) => {
                    out.set_fail(format!("C02|kill|{}|streaming_recovery_died|{}", kind, stmt_in_flight), describe(&format!("the process running PRAGMA recover_wal died: {}", e)));
                }
            }
        }
    }
    out.add_class(format!("model:{}", model));
    out.add_class(format!("point:{}", kind));
    if nontrivial_point(p, crash_at) {
        out.nontrivial = Some(vcore::hash_of(&format!("{:?}|{}|{}", w.h.ops, crash_at, power)));
    }
    cleanup(keep || out.failure.is_some() && std::env::var("VERIF_KEEP_CRASH_DIRS").is_ok());
    out
}

impl Check for CrashCheck {
    type Case = Case;
    fn run(&self, case: &Case) -> Outcome {
        match prepare(&case.w) {
            Ok(p) => {
                if case.crash_at == 0 {
                    let mut out = Outcome::ok();
                    let mut lo = 0u64;
                    for (si, ok, pts, kind) in &p.acks {
                        let range: Vec<(u64, &str)> = ((lo + 1)..=*pts).filter_map(|j| p.points.get(j as usize - 1).map(|k| (j, k.as_str()))).collect();
                        let lf = range.iter().filter(|(_, k)| *k == "wal_frame").map(|(j, _)| *j).max();
                        let ls = range.iter().filter(|(_, k)| *k == "wal_sync").map(|(j, _)| *j).max();
                        if let Some(lf) = lf {
                            if *ok && ls.map(|x| x < lf).unwrap_or(true) {
                                out.set_fail(format!("C01|sync_before_ack|{}", kind), format!("statement [{}] wrote WAL frames that were not synced before it was acknowledged", si));
                            }
                        }
                        lo = *pts;
                    }
                    return out;
                }
                if case.crash_at as usize > p.points.len() {
                    return Outcome::ok().class("crash_index_out_of_range");
                }
                examine(self.prop, &p, &case.w, case.crash_at, case.power, false)
            }
            Err(e) => Outcome::ok().class(format!("prepare_failed:{}", e)),
        }
    }
}

fn workload_strategy(prop: &'static str, gates: Vec<String>) -> BoxedStrategy<Workload> {
    let ddl_heavy = prop == "C40";
    let p = Profile {
        max_tables: 2,
        max_ops: if ddl_heavy { 16 } else { 30 },
        dml: if ddl_heavy { 6 } else { 12 },
        txn: if ddl_heavy { 0 } else { 4 },
        ddl: if ddl_heavy { 8 } else { 1 },
        lifecycle: 2,
        truncate: 0,
        allow_returning: false,
        big_keys: true,
        max_insert_rows: if ddl_heavy { 10 } else { 4 },
        prefill: !ddl_heavy,
        // toasted values are where the log has to cover a second file per table
        long_weight: if ddl_heavy { 1 } else { 4 },
        ..Profile::default()
    };
    let sync = if prop == "C01" { Just(2u8).boxed() } else { (0u8..3).boxed() };
    let ck = if prop == "C40" { Just(false).boxed() } else { any::<bool>().boxed() };
    // half of the C01/C02 workloads generate whole transactions (mostly committed) between autocommit statements
    let pt = Profile { txn_blocks: true, txn_blocks_commit: true, max_ops: 36, ..p.clone() };
    let hist = if ddl_heavy { history_strategy(&p) } else { prop_oneof![history_strategy(&p), history_strategy(&pt)].boxed() };
    (hist, sync, ck)
        .prop_map(move |(h, sync, ckpt_schema)| Workload {
            setup: vec!["PRAGMA wal=ON".to_string(), format!("PRAGMA synchronous={}", ["OFF", "NORMAL", "FULL"][sync as usize])],
            h,
            closed_gates: gates.clone(),
            ckpt_schema,
        })
        .boxed()
}

fn choose_points(p: &Prepared, quota: usize, only_kinds: Option<&[&str]>, seed: u64) -> Vec<u64> {
    let mut by_kind: BTreeMap<&str, Vec<u64>> = BTreeMap::new();
    for (i, k) in p.points.iter().enumerate() {
        if let Some(only) = only_kinds {
            if !only.iter().any(|o| k.starts_with(o)) {
                continue;
            }
        }
        by_kind.entry(k.as_str()).or_default().push(i as u64 + 1);
    }
    let total: usize = by_kind.values().map(|v| v.len()).sum();
    if total <= quota {
        return by_kind.values().flatten().copied().collect();
    }
    // stratified: every kind gets an equal share, evenly spaced with a seed-dependent phase
    let kinds = by_kind.len().max(1);
    let share = (quota / kinds).max(1);
    let mut out: BTreeSet<u64> = BTreeSet::new();
    for (ki, (_, v)) in by_kind.iter().enumerate() {
        if v.len() <= share {
            out.extend(v.iter().copied());
        } else {
            let phase = vcore::splitmix(seed ^ ki as u64) as usize % v.len();
            for j in 0..share {
                out.insert(v[(phase + j * v.len() / share) % v.len()]);
            }
        }
    }
    out.into_iter().collect()
}

pub fn main(prop: &'static str, tier: Tier, replay: Option<String>) -> i32 {
    let check = CrashCheck { prop };
    if let Some(p) = replay {
        return vcore::replay_file(prop, &check, &p);
    }
    let ctx = Ctx::new(prop, tier, "fault_enumeration");
    let gates: Vec<String> = gates_for(prop).into_iter().collect();
    let (workloads, quota) = match (prop, tier) {
        ("C40", Tier::Quick) => (10usize, 80usize),
        ("C40", Tier::Thorough) => (60, 100_000),
        // many workloads with a stratified sample of their points reach more distinct windows (e.g. "killed
        // right after a COMMIT that followed an autocommit write to the same page") than few workloads
        // enumerated densely; the thorough tier takes 150 workloads and up to 300 points of each (every point of the workloads without pre-loaded tables; a stratified sample of the several thousand points of the pre-loaded ones)
        (_, Tier::Quick) => (48, 36),
        (_, Tier::Thorough) => (150, 300),
    };
    ctx.set_rule(match prop {
        "C01" => "E-hist workloads (DDL, DML on indexed tables, explicit transactions, checkpoints; wide keys so pages split) run in a child process with PRAGMA wal=ON, synchronous=FULL; every hook point (statement acknowledged, page mutation, file create/grow/remove, WAL frame/flush/sync/truncate/rotate, catalog and meta writes and syncs, mmap syncs) is numbered; the child is ended with _exit at chosen points (quick: stratified by point kind, thorough: 150 workloads, up to 300 points each) and the directory is reopened under the kill model (as left) and the power-loss model (each file cut back to its last synced bytes). Oracle: the recovered observation equals the reference run's observation at the last acknowledged statement boundary outside a transaction, or that plus the whole in-flight statement/transaction. Non-trivial = the crash point lies inside a statement after its first of >= 2 page mutations, right after the acknowledgement of such a statement (kind `ack`: killed while idle), or at a catalog/meta/WAL-truncate/rotate/file-create/remove point; distinct by (workload, point, model).",
        "C02" => "same engine as C01 with synchronous OFF/NORMAL/FULL under the kill model and FULL under the power-loss model. Oracle: reopening succeeds, every table scan and index probe works and agrees, and the observation equals a reference state at a statement boundary: the acknowledged prefix, or that plus the complete in-flight statement/transaction (never part of it). Non-trivial as for C01.",
        _ => "DDL-heavy E-hist workloads (CREATE/DROP TABLE and INDEX, ALTER) with crash points restricted to catalog_*, meta_*, file_create/remove/rename kinds, kill and power-loss models. Oracle: reopening succeeds and every table and index that existed before the interrupted DDL statement is still there with its rows (observation equals the reference at the previous or the next statement boundary). Non-trivial = every chosen point (all lie inside a catalog/meta/file-set rewrite).",
    });
    ctx.assume("expected states are observations of an uncrashed reference run of TurDB itself (no SQL model involved)");
    ctx.assume("power-loss model: per file, bytes as of the last successful sync/msync; file creation, removal and length changes are treated as durable (favours the implementation); torn sectors and reordered writes are not generated");
    ctx.assume("WAL-off databases are not examined: neither the README nor the code claims crash safety without the WAL");
    vcore::replay_witnesses(&ctx, &check);
    let only_kinds: Option<&[&str]> = if prop == "C40" { Some(&["catalog", "meta", "file_"]) } else { None };
    let config = Config { failure_persistence: None, ..Config::default() };
    let mut runner = TestRunner::new_with_rng(config, vcore::rng_from_seed(vcore::splitmix(ctx.seed ^ 0xC0A5)));
    let strat = workload_strategy(prop, gates);
    let mut point_hist: BTreeMap<String, usize> = BTreeMap::new();
    let mut total_points = 0usize;
    for wi in 0..workloads {
        if ctx.has_violation() {
            break;
        }
        let w = match strat.new_tree(&mut runner) {
            Ok(t) => t.current(),
            Err(_) => continue,
        };
        let p = match prepare(&w) {
            Ok(p) => p,
            Err(e) => {
                ctx.class(&format!("prepare_failed:{}", e.chars().take(60).collect::<String>()), 1);
                continue;
            }
        };
        total_points += p.points.len();
        if let Ok(d) = std::env::var("VERIF_DEV_DUMP_SQL") {
            // development aid: the statements of every workload as the reference run saw them
            let _ = std::fs::create_dir_all(&d);
            let text: String = p.refs.iter().map(|r| format!("{} {} {}\n", if r.ok { "ok " } else { "ERR" }, if r.in_txn_after { "T" } else { "-" }, r.sql.chars().take(140).collect::<String>())).collect();
            let _ = std::fs::write(format!("{}/w{:03}.sql", d, wi), text);
        }
        // C01, structural facet over the point log (no crash needed): with synchronous=FULL every WAL frame a
        // statement wrote must be followed by a WAL sync before that statement is acknowledged
        if prop == "C01" && w.setup.iter().any(|s| s.ends_with("=FULL")) {
            let mut lo = 0u64;
            for (si, ok, pts, kind) in &p.acks {
                let range: Vec<(u64, &str)> = ((lo + 1)..=*pts).filter_map(|j| p.points.get(j as usize - 1).map(|k| (j, k.as_str()))).collect();
                let last_frame = range.iter().filter(|(_, k)| *k == "wal_frame").map(|(j, _)| *j).max();
                let last_sync = range.iter().filter(|(_, k)| *k == "wal_sync").map(|(j, _)| *j).max();
                ctx.count_eval(1);
                if let Some(lf) = last_frame {
                    ctx.class("sync_before_ack_checked", 1);
                    // inside an explicit transaction frames are written at COMMIT; a statement inside it writes none
                    if *ok && last_sync.map(|ls| ls < lf).unwrap_or(true) {
                        let f = Failure::new(
                            format!("C01|sync_before_ack|{}", kind),
                            format!("statement [{}] ({}) wrote WAL frames (last at point {}) but no WAL sync happened after them before it was acknowledged (point {}), although synchronous=FULL: {}", si, kind, lf, pts, p.refs.get(*si).map(|r| r.sql.chars().take(160).collect::<String>()).unwrap_or_default()),
                        );
                        if vcore::survey_mode() && !ctx.is_known(&f.sig) {
                            ctx.survey_record(&f);
                        } else {
                            ctx.record_failure(&f, &serde_json::to_value(&Case { w: w.clone(), crash_at: 0, power: false }).unwrap());
                        }
                    }
                }
                lo = *pts;
            }
        }
        for (k, n) in kinds_histogram(&p.points) {
            *point_hist.entry(k).or_insert(0) += n;
        }
        let idxs = choose_points(&p, quota, only_kinds, ctx.seed ^ wi as u64);
        let power_allowed = w.setup.iter().any(|s| s.ends_with("=FULL"));
        let mut jobs: Vec<(u64, bool)> = Vec::new();
        for i in &idxs {
            jobs.push((*i, false));
            if power_allowed {
                jobs.push((*i, true));
            }
        }
        if ctx.want_sample() {
            ctx.sample(json!({"setup": w.setup, "statements": p.refs.iter().map(|r| r.sql.chars().take(100).collect::<String>()).collect::<Vec<_>>(), "crash_points_in_workload": p.points.len(), "examined": jobs.len()}));
        }
        let next = AtomicUsize::new(0);
        let pr = Arc::new(p);
        let failures: Mutex<Vec<(Failure, Case)>> = Mutex::new(Vec::new());
        std::thread::scope(|sc| {
            for _ in 0..16 {
                sc.spawn(|| loop {
                    let j = next.fetch_add(1, Ordering::SeqCst);
                    if j >= jobs.len() || ctx.stop.load(Ordering::SeqCst) {
                        break;
                    }
                    let (i, power) = jobs[j];
                    let mut out = examine(prop, &pr, &w, i, power, false);
                    if let Some(f) = &out.failure {
                        if !ctx.is_known(&f.sig) {
                            // a verdict must reproduce before it is reported (guards against timing-dependent recoveries)
                            let again = examine(prop, &pr, &w, i, power, false);
                            if again.failure.as_ref().map(|g| g.sig != f.sig).unwrap_or(true) {
                                out.failure = None;
                                out.add_class("unreproducible_verdict_dropped");
                            }
                        }
                    }
                    ctx.count_eval(1);
                    for c in &out.classes {
                        ctx.class(c, 1);
                    }
                    if out.classes.iter().any(|c| c == "observer_timed_out") {
                        let path = ctx.write_replay("watchdog|observer_timed_out", "the observer of this crash case did not finish within 120 s", &serde_json::to_value(&Case { w: w.clone(), crash_at: i, power }).unwrap());
                        ctx.inconclusive(format!("a recovery observer hit the 120 s watchdog (hang or overloaded machine): no verdict for that crash point; case saved as {}", path.display()));
                    }
                    if let Some(h) = out.nontrivial {
                        ctx.count_nontrivial(h);
                    }
                    if let Some(f) = out.failure {
                        failures.lock().unwrap().push((f, Case { w: w.clone(), crash_at: i, power }));
                    }
                });
            }
        });
        for (f, case) in failures.into_inner().unwrap() {
            if vcore::survey_mode() && !ctx.is_known(&f.sig) {
                ctx.survey_record(&f);
            } else {
                ctx.record_failure(&f, &serde_json::to_value(&case).unwrap());
            }
        }
    }
    ctx.extra("crash_points_numbered", json!(total_points));
    ctx.extra("crash_point_kinds", json!(point_hist));
    if tier == Tier::Thorough {
        ctx.set_exhaustive(false);
    }
    ctx.finish()
}

#[allow(dead_code)]
pub fn scratch_root() -> PathBuf {
    vcore::tmp::base()
}
