//! The database under test wrapped for histories: open/close/reopen, statement execution
//! with conversion of results to model values, and the observation function `obs`.

use std::collections::BTreeMap;
use std::path::PathBuf;

use turdb::{Database, ExecuteResult, OwnedValue};

use crate::hist::{pool, sort_rows, Row, Ty, Val};
use crate::refdb::MTable;

pub struct Db {
    pub dir: vcore::tmp::TempDir,
    pub path: PathBuf,
    pub handle: Option<Database>,
}

#[derive(Debug, Clone, PartialEq)]
pub enum Exec {
    Ok { affected: Option<usize>, returned: Option<Vec<Row>>, rows: Option<Vec<Row>>, other: String },
    Err(String),
}

pub fn conv(v: &OwnedValue) -> Val {
    match v {
        OwnedValue::Null => Val::Null,
        OwnedValue::Int(i) => Val::Int(*i),
        OwnedValue::Float(f) => Val::Float(*f),
        OwnedValue::Text(s) => Val::Text(s.clone()),
        OwnedValue::Bool(b) => Val::Bool(*b),
        other => Val::Text(format!("<<unexpected value {:?}>>", other).chars().take(80).collect()),
    }
}

pub fn conv_rows(rows: &[turdb::Row]) -> Vec<Row> {
    rows.iter().map(|r| r.values.iter().map(conv).collect()).collect()
}

impl Db {
    pub fn create(tag: &str) -> Db {
        let dir = vcore::tmp::TempDir::new(tag);
        let path = dir.join("db");
        let handle = Database::create(&path).expect("Database::create on an empty directory");
        Db { dir, path, handle: Some(handle) }
    }

    pub fn h(&self) -> &Database {
        self.handle.as_ref().expect("database handle")
    }

    pub fn exec(&self, sql: &str) -> Exec {
        // multi-statement strings are split by ";\n" (only produced by CREATE TABLE + its indexes)
        let mut last = Exec::Ok { affected: None, returned: None, rows: None, other: String::new() };
        for part in sql.split(";\n") {
            last = match self.h().execute(part) {
                Ok(r) => match r {
                    ExecuteResult::Insert { rows_affected, returned } | ExecuteResult::Update { rows_affected, returned } | ExecuteResult::Delete { rows_affected, returned } => {
                        Exec::Ok { affected: Some(rows_affected), returned: returned.map(|r| conv_rows(&r)), rows: None, other: String::new() }
                    }
                    ExecuteResult::Select { rows, .. } => Exec::Ok { affected: None, returned: None, rows: Some(conv_rows(&rows)), other: String::new() },
                    o => Exec::Ok { affected: None, returned: None, rows: None, other: format!("{:?}", o).chars().take(60).collect() },
                },
                Err(e) => return Exec::Err(format!("{}", e)),
            };
        }
        last
    }

    pub fn query(&self, sql: &str) -> Result<Vec<Row>, String> {
        match self.h().query(sql) {
            Ok(rows) => Ok(conv_rows(&rows)),
            Err(e) => Err(format!("{}", e)),
        }
    }

    pub fn checkpoint(&self) -> Result<(), String> {
        self.h().checkpoint().map(|_| ()).map_err(|e| e.to_string())
    }

    /// close() then open()
    pub fn reopen(&mut self) -> Result<(), String> {
        if let Some(h) = self.handle.take() {
            h.close().map_err(|e| format!("close: {}", e))?;
            drop(h);
        }
        self.handle = Some(Database::open(&self.path).map_err(|e| format!("open: {}", e))?);
        Ok(())
    }

    /// drop the handle without close(), then open()
    pub fn drop_reopen(&mut self) -> Result<(), String> {
        self.handle.take();
        self.handle = Some(Database::open(&self.path).map_err(|e| format!("open: {}", e))?);
        Ok(())
    }
}

#[derive(Debug, Clone, PartialEq, serde::Serialize, serde::Deserialize)]
pub struct TableObs {
    /// `SELECT *` as a sorted multiset, or the error text
    pub rows: Result<Vec<Row>, String>,
    pub count: Result<i64, String>,
    /// (sql, sorted result) for index probes
    pub probes: Vec<(String, Result<Vec<Row>, String>)>,
}

pub type Obs = BTreeMap<String, TableObs>;

/// Observe every table of the schema: full scan, COUNT(*), and for every indexed column an
/// equality probe per pool value (plus one range probe).
pub fn obs(db: &Db, tables: &[MTable], probes: bool) -> Obs {
    let mut out = Obs::new();
    for t in tables {
        let rows = db.query(&format!("SELECT * FROM {}", t.name)).map(|mut r| {
            sort_rows(&mut r);
            r
        });
        let count = match db.query(&format!("SELECT COUNT(*) FROM {}", t.name)) {
            Ok(r) => match r.first().and_then(|r| r.first()) {
                Some(Val::Int(i)) => Ok(*i),
                other => Err(format!("COUNT(*) returned {:?}", other)),
            },
            Err(e) => Err(e),
        };
        let mut pr = Vec::new();
        if probes {
            for ci in t.indexed_cols() {
                let c = &t.cols[ci];
                if matches!(c.ty, Ty::Bool | Ty::Double) {
                    continue;
                }
                let mut vals: Vec<Val> = (0u8..16).map(|s| pool(c.ty, s, false)).collect();
                // also probe the values currently stored (wide-key profiles)
                if let Ok(rs) = &rows {
                    for r in rs.iter().take(40) {
                        if let Some(v) = r.get(ci) {
                            if !v.is_null() {
                                vals.push(v.clone());
                            }
                        }
                    }
                }
                vals.retain(|v| match v {
                    Val::Text(s) => s.len() <= 1000,
                    _ => true,
                });
                vals.sort_by(|a, b| a.sort_key().partial_cmp(&b.sort_key()).unwrap());
                vals.dedup();
                for v in vals {
                    let sql = format!("SELECT * FROM {} WHERE {} = {}", t.name, c.name, v.sql());
                    let r = db.query(&sql).map(|mut r| {
                        sort_rows(&mut r);
                        r
                    });
                    pr.push((sql, r));
                }
                let sql = format!("SELECT * FROM {} WHERE {} >= {} AND {} <= {}", t.name, c.name, pool(c.ty, 2, false).sql(), c.name, pool(c.ty, 7, false).sql());
                if c.ty != Ty::Text {
                    let r = db.query(&sql).map(|mut r| {
                        sort_rows(&mut r);
                        r
                    });
                    pr.push((sql, r));
                }
            }
        }
        out.insert(t.name.clone(), TableObs { rows, count, probes: pr });
    }
    out
}

/// What the model predicts `obs` to be.
pub fn model_obs(tables: &[MTable], probes_from: Option<&Obs>) -> Obs {
    let mut out = Obs::new();
    for t in tables {
        let mut rows = t.rows.clone();
        sort_rows(&mut rows);
        let mut pr = Vec::new();
        if let Some(o) = probes_from.and_then(|o| o.get(&t.name)) {
            for (sql, _) in &o.probes {
                // re-evaluate the probe on the model: parse back is avoided by recomputing from the text
                pr.push((sql.clone(), Ok(eval_probe(t, sql))));
            }
        }
        out.insert(t.name.clone(), TableObs { count: Ok(rows.len() as i64), rows: Ok(rows), probes: pr });
    }
    out
}

/// Probes are generated by `obs` in two fixed shapes; evaluate them on the model rows.
fn eval_probe(t: &MTable, sql: &str) -> Vec<Row> {
    let wh = sql.split(" WHERE ").nth(1).unwrap_or("");
    let mut rows: Vec<Row> = Vec::new();
    let parse_lit = |ty: Ty, s: &str| -> Val {
        let s = s.trim();
        match ty {
            Ty::Int | Ty::BigInt => Val::Int(s.parse().unwrap_or(0)),
            Ty::Text => Val::Text(s[1..s.len() - 1].replace("''", "'")),
            Ty::Double => Val::Float(s.parse().unwrap_or(0.0)),
            Ty::Bool => Val::Bool(s == "TRUE"),
        }
    };
    if let Some((a, b)) = wh.split_once(" AND ") {
        // range: col >= lo AND col <= hi
        let (col, lo) = a.split_once(" >= ").unwrap();
        let (_, hi) = b.split_once(" <= ").unwrap();
        let ci = t.cols.iter().position(|c| c.name == col.trim()).unwrap();
        let (lo, hi) = (parse_lit(t.cols[ci].ty, lo), parse_lit(t.cols[ci].ty, hi));
        for r in &t.rows {
            let v = &r[ci];
            if !v.is_null() && v.sort_key() >= lo.sort_key() && v.sort_key() <= hi.sort_key() {
                rows.push(r.clone());
            }
        }
    } else if let Some((col, lit)) = wh.split_once(" = ") {
        let ci = t.cols.iter().position(|c| c.name == col.trim()).unwrap();
        let v = parse_lit(t.cols[ci].ty, lit);
        for r in &t.rows {
            if r[ci] == v {
                rows.push(r.clone());
            }
        }
    }
    sort_rows(&mut rows);
    rows
}

/// First difference between two observations, as (facet, detail).
pub fn diff_obs(expected: &Obs, got: &Obs) -> Option<(String, String)> {
    for (name, e) in expected {
        let Some(g) = got.get(name) else {
            return Some(("table_missing".into(), format!("table {} not observed", name)));
        };
        match (&e.rows, &g.rows) {
            (Ok(er), Ok(gr)) => {
                if er != gr {
                    let missing: Vec<&Row> = er.iter().filter(|r| count_in(gr, r) < count_in(er, r)).collect();
                    let extra: Vec<&Row> = gr.iter().filter(|r| count_in(gr, r) > count_in(er, r)).collect();
                    let kind = match (missing.is_empty(), extra.is_empty()) {
                        (false, true) => "rows_missing",
                        (true, false) => "rows_extra",
                        _ => "rows_differ",
                    };
                    return Some((format!("scan|{}", kind), format!("table {}: expected {} rows, got {}; missing {:?}; unexpected {:?}", name, er.len(), gr.len(), trunc(&missing), trunc(&extra))));
                }
            }
            (Ok(_), Err(g)) => return Some(("scan|error".into(), format!("SELECT * FROM {} fails: {}", name, g))),
            (Err(_), _) => {}
        }
        match (&e.count, &g.count) {
            (Ok(ec), Ok(gc)) => {
                if ec != gc {
                    return Some(("count_star".into(), format!("table {}: COUNT(*) = {} but {} rows are visible", name, gc, ec)));
                }
            }
            (Ok(_), Err(g)) => return Some(("count_star|error".into(), format!("COUNT(*) on {} fails: {}", name, g))),
            _ => {}
        }
        for (sql, er) in &e.probes {
            let Some((_, gr)) = g.probes.iter().find(|(s, _)| s == sql) else { continue };
            match (er, gr) {
                (Ok(er), Ok(gr)) => {
                    if er != gr {
                        let kind = if gr.len() < er.len() { "rows_missing" } else if gr.len() > er.len() { "rows_extra" } else { "rows_differ" };
                        return Some((format!("probe|{}", kind), format!("{} : expected {:?} got {:?}", sql, trunc(&er.iter().collect::<Vec<_>>()), trunc(&gr.iter().collect::<Vec<_>>()))));
                    }
                }
                (Ok(_), Err(g)) => return Some(("probe|error".into(), format!("{} fails: {}", sql, g))),
                _ => {}
            }
        }
    }
    None
}

fn count_in(rows: &[Row], r: &Row) -> usize {
    rows.iter().filter(|x| *x == r).count()
}

fn trunc(rows: &[&Row]) -> String {
    let mut s = String::new();
    for r in rows.iter().take(4) {
        let vals: Vec<String> = r
            .iter()
            .map(|v| match v {
                Val::Text(t) if t.len() > 24 => format!("'{}…'({}B)", &t[..8], t.len()),
                o => o.sql(),
            })
            .collect();
        s.push_str(&format!("({}) ", vals.join(", ")));
    }
    if rows.len() > 4 {
        s.push_str(&format!("… +{}", rows.len() - 4));
    }
    s
}
