//! C23 Decoders of stored bytes reject corruption without crashing.
//!
//! G: per decoder (record + extract_row under a generated schema, index key, varint, JSONB,
//! array, composite, serialized catalog, catalog file, WAL segment, table/index/meta/HNSW
//! file headers, HNSW page, page header, leaf page, interior page, a cursor walk over a
//! tree with one corrupted page, TOAST pointer, spill-row format): VALID encodings made with
//! the public encoders (or taken from the files of a real database built through SQL), then
//! 0..4 mutations (bit flip, byte set, truncation, insert, delete, splice, length-field edit
//! biased to the header bytes), plus raw byte strings. And file corruption: a valid
//! multi-table database, 1..8 byte edits biased to file headers / page headers / slot
//! arrays / cell areas or a truncation of one file, then open + every scan and index probe.
//! Every case runs in a child process (see childsrv.rs): address space capped, 8 MiB stack.
//! O: each call returns a value or `Err`. Violations: a panic (signature
//! `C23|<decoder>|panic|<enclosing fn>|<message class>`), a child death
//! (`C23|<decoder>|abort|<stack_overflow|alloc_failed|sig...>`), a decoder that reports
//! having consumed more bytes than it was given, a cursor that yields more entries than any
//! finite tree over the file could hold. A hang (no reply within the timeout, twice, alone
//! in a fresh child) is exit 2, not a violation.
//! The libFuzzer targets under harness/fuzz run the same target functions
//! (vtargets::dec / vtargets::dbfile) on the same input format; a crash artifact is
//! replayed here as `{"target": .., "input": <hex of the artifact>}`.

use std::sync::{Arc, Mutex, OnceLock};
use std::time::Duration;

use proptest::prelude::*;
use serde::{Deserialize, Serialize};
use serde_json::{json, Value as J};
use turdb::records::jsonb::{JsonbBuilder, JsonbBuilderValue};
use turdb::records::types::{ColumnDef as RCol, DataType};
use turdb::records::{ArrayBuilder, Schema};
use turdb::storage::toast::ToastPointer;
use turdb::storage::{PageHeader, PageType, PAGE_SIZE};
use turdb::types::{OwnedValue, Value};
use vcore::{Check, Ctx, Outcome, Tier};
use vtargets::dec;

use crate::childsrv::{self, Exec};

#[derive(Debug, Clone, Serialize, Deserialize, PartialEq, Eq, Hash)]
pub struct Case {
    /// decoder (vtargets::dec::TARGETS) or "dbfile"
    pub target: String,
    /// hex of the input in the target's fuzz input format
    pub input: String,
}

pub fn hex(b: &[u8]) -> String {
    let mut s = String::with_capacity(b.len() * 2);
    for x in b {
        s.push_str(&format!("{:02x}", x));
    }
    s
}

pub fn unhex(s: &str) -> Vec<u8> {
    let b = s.as_bytes();
    (0..b.len() / 2).filter_map(|i| u8::from_str_radix(std::str::from_utf8(&b[2 * i..2 * i + 2]).ok()?, 16).ok()).collect()
}

pub struct C23 {
    pub ctx: Option<Arc<Ctx>>,
    pub inconclusive: Mutex<Vec<String>>,
}

fn timeout() -> Duration {
    Duration::from_secs(std::env::var("VERIF_CASE_TIMEOUT_S").ok().and_then(|v| v.parse().ok()).unwrap_or(60))
}

// ---------------------------------------------------------------------------------------
// child side
// ---------------------------------------------------------------------------------------

pub fn serve_handler(req: &J) -> J {
    let target = req.get("t").and_then(|v| v.as_str()).unwrap_or("").to_string();
    let input = unhex(req.get("i").and_then(|v| v.as_str()).unwrap_or(""));
    let (rep, panics) = vtargets::guard::run_collect(|| if target == "dbfile" { vtargets::dbfile::run(&input) } else { dec::run(&target, &input) });
    let rep = rep.unwrap_or_default();
    let ps: Vec<J> = panics.iter().map(|p| json!({"sig": vtargets::guard::sig_c23(&target, p), "detail": vtargets::guard::detail(p)})).collect();
    // a child that saw a panic inside database code is not reused
    let exit_after = !ps.is_empty() && matches!(target.as_str(), "dbfile" | "wal" | "catalog_file");
    json!({
        "r": "ok",
        "accepted": rep.accepted,
        "deep": rep.deep,
        "classes": rep.classes,
        "violation": rep.violation.map(|(s, d)| json!({"sig": s, "detail": d})),
        "panics": ps,
        "exit_after": exit_after,
    })
}

// ---------------------------------------------------------------------------------------
// parent side
// ---------------------------------------------------------------------------------------

impl C23 {
    fn known(&self, sig: &str) -> bool {
        let sig: String = sig.chars().map(|c| if c.is_whitespace() { '_' } else { c }).collect();
        self.ctx.as_ref().map(|c| c.is_known(&sig)).unwrap_or(false)
    }
}

/// Does the page of a `btree_walk` case, put into the harness tree, close a cycle of
/// interior child pointers (a page that is its own descendant)? Descending such a tree never
/// ends (finding `interior_child_cycle`): the generator feature is excluded while the finding
/// is open. Own parsing of the page header / interior slots, no TurDB code.
pub fn closes_child_cycle(input: &[u8]) -> bool {
    let Some((which, rest)) = input.split_first() else { return false };
    let Some(page) = dec::page_from_input(rest) else { return false };
    let h = harvest();
    let pc = h.walk_pages.len();
    let target = 1 + (*which as usize % (pc - 1));
    let children = |p: usize| -> Vec<usize> {
        let data: &[u8] = if p == target { &page } else { &h.walk_pages[p] };
        if data[0] != 0x01 {
            return Vec::new();
        }
        let n = (u16::from_le_bytes([data[2], data[3]]) as usize).min((PAGE_SIZE - 16) / 12);
        let mut v: Vec<usize> = (0..n).map(|i| u32::from_le_bytes(data[16 + 12 * i + 4..16 + 12 * i + 8].try_into().unwrap()) as usize).collect();
        v.push(u32::from_le_bytes(data[12..16].try_into().unwrap()) as usize);
        v
    };
    // the root of the harness tree is the page every other page hangs under: find it as the
    // interior page of the pristine tree (a tree of WALK_KEYS entries has exactly one)
    let root = (1..pc).find(|p| h.walk_pages[*p][0] == 0x01).unwrap_or(1);
    fn dfs(p: usize, pc: usize, children: &dyn Fn(usize) -> Vec<usize>, on_path: &mut Vec<bool>, done: &mut Vec<bool>) -> bool {
        if p >= pc {
            return false;
        }
        if on_path[p] {
            return true;
        }
        if done[p] {
            return false;
        }
        on_path[p] = true;
        for c in children(p) {
            if dfs(c, pc, children, on_path, done) {
                return true;
            }
        }
        on_path[p] = false;
        done[p] = true;
        false
    }
    dfs(root, pc, &children, &mut vec![false; pc], &mut vec![false; pc])
}

impl C23 {
    fn exec_case(&self, case: &Case) -> Outcome {
        let mut out = Outcome::ok();
        out.add_class(format!("t={}", case.target));
        let req = json!({"t": case.target, "i": case.input});
        match childsrv::exec("C23", &req, timeout()) {
            Exec::Reply(j) => {
                if j.get("r").and_then(|v| v.as_str()) != Some("ok") {
                    self.inconclusive.lock().unwrap().push(format!("child replied {}", j));
                    return out;
                }
                for c in j.get("classes").and_then(|v| v.as_array()).into_iter().flatten() {
                    if let Some(c) = c.as_str() {
                        out.add_class(format!("{}:{}", case.target, c));
                    }
                }
                if j.get("batch_only").is_some() {
                    out.add_class("died_or_hung_in_batch_but_not_alone");
                }
                if j.get("accepted").and_then(|v| v.as_bool()).unwrap_or(false) {
                    out.add_class("decoder_returned_value");
                }
                if j.get("deep").and_then(|v| v.as_bool()).unwrap_or(false) {
                    out.nontrivial = Some(vcore::hash_of(case));
                }
                let mut fails: Vec<(String, String)> = Vec::new();
                if let Some(v) = j.get("violation").filter(|v| !v.is_null()) {
                    fails.push((v["sig"].as_str().unwrap_or("?").to_string(), v["detail"].as_str().unwrap_or("").to_string()));
                }
                for p in j.get("panics").and_then(|v| v.as_array()).into_iter().flatten() {
                    fails.push((p["sig"].as_str().unwrap_or("?").to_string(), p["detail"].as_str().unwrap_or("").to_string()));
                }
                if !fails.is_empty() {
                    out.add_class("panicked");
                    let pick = fails.iter().find(|(s, _)| !self.known(s)).unwrap_or(&fails[0]).clone();
                    let mut all: Vec<&str> = fails.iter().map(|(s, _)| s.as_str()).collect();
                    all.dedup();
                    out.set_fail(pick.0, format!("{} [input {} bytes; all signatures of this case: {}]", pick.1, case.input.len() / 2, all.join(" ")));
                }
            }
            Exec::Died { class, detail } => {
                out.add_class("child_died");
                out.nontrivial = Some(vcore::hash_of(case));
                out.set_fail(format!("C23|{}|abort|{}", case.target, class), detail);
            }
            Exec::Hang(why) => {
                // a hang is never a NEW violation (exit 2); a listed one is tolerated like any
                // other known finding
                let sig = format!("C23|{}|hang|no_reply", case.target);
                if self.known(&sig) {
                    out.add_class("hang_known");
                    out.set_fail(sig, why);
                } else {
                    out.add_class("hang_inconclusive");
                    self.inconclusive.lock().unwrap().push(format!("target {} input {}: {}", case.target, case.input.chars().take(80).collect::<String>(), why));
                }
            }
            Exec::Infra(why) => {
                self.inconclusive.lock().unwrap().push(why);
            }
        }
        out
    }
}

impl Check for C23 {
    type Case = Case;
    fn run(&self, case: &Case) -> Outcome {
        if case.target == "btree_walk" {
            if let Some(ctx) = &self.ctx {
                if ctx.gate_closed("interior_child_cycle") && closes_child_cycle(&unhex(&case.input)) {
                    ctx.gated_out("interior_child_cycle", 1);
                    return Outcome::ok().class("t=btree_walk").class("gated_interior_child_cycle");
                }
            }
        }
        self.exec_case(case)
    }
    fn run_strict(&self, case: &Case) -> Outcome {
        self.exec_case(case)
    }
}

// ---------------------------------------------------------------------------------------
// valid encodings
// ---------------------------------------------------------------------------------------

/// pages and headers taken from a real database built through SQL (vtargets::dbfile)
pub struct Harvest {
    pub catalog_file: Vec<u8>,
    pub table_headers: Vec<Vec<u8>>,
    pub index_headers: Vec<Vec<u8>>,
    pub meta_header: Vec<u8>,
    pub hnsw_header: Vec<u8>,
    pub hnsw_pages: Vec<Vec<u8>>,
    pub leaf_pages: Vec<Vec<u8>>,
    pub interior_pages: Vec<Vec<u8>>,
    pub nfiles: usize,
    /// pages of the btree_walk tree (index = page number)
    pub walk_pages: Vec<Vec<u8>>,
}

static HARVEST: OnceLock<Harvest> = OnceLock::new();

pub fn harvest() -> &'static Harvest {
    HARVEST.get_or_init(|| {
        let t = &vtargets::dbfile::template().clean;
        let mut h = Harvest {
            catalog_file: Vec::new(),
            table_headers: Vec::new(),
            index_headers: Vec::new(),
            meta_header: Vec::new(),
            hnsw_header: Vec::new(),
            hnsw_pages: Vec::new(),
            leaf_pages: Vec::new(),
            interior_pages: Vec::new(),
            nfiles: t.files.len(),
            walk_pages: Vec::new(),
        };
        if std::env::var("VERIF_DEBUG").is_ok() {
            for (rel, len) in &t.files {
                eprintln!("template file {} {} kind={}", rel, len, vtargets::dbfile::file_kind(rel));
            }
        }
        for (rel, _) in &t.files {
            let bytes = std::fs::read(t.dir.join(rel)).unwrap_or_default();
            let kind = vtargets::dbfile::file_kind(rel);
            let head: Vec<u8> = bytes.iter().take(128).copied().collect();
            match kind {
                "catalog" => h.catalog_file = bytes.clone(),
                "meta" => h.meta_header = head.clone(),
                "table" | "toast" => h.table_headers.push(head.clone()),
                "index" => h.index_headers.push(head.clone()),
                "hnsw" => {
                    h.hnsw_header = head.clone();
                    for p in bytes.chunks_exact(PAGE_SIZE).skip(1).take(4) {
                        h.hnsw_pages.push(p.to_vec());
                    }
                }
                _ => {}
            }
            if matches!(kind, "table" | "index" | "toast") {
                for p in bytes.chunks_exact(PAGE_SIZE).skip(1) {
                    if let Ok(ph) = PageHeader::from_bytes(p) {
                        match ph.page_type() {
                            PageType::BTreeLeaf if h.leaf_pages.len() < 40 && ph.cell_count() > 0 => h.leaf_pages.push(p.to_vec()),
                            PageType::BTreeInterior if h.interior_pages.len() < 20 => h.interior_pages.push(p.to_vec()),
                            _ => {}
                        }
                    }
                }
            }
        }
        {
            use turdb::hnsw::storage::{HnswFileHeader, HnswPage};
            let hdr = HnswFileHeader::new(3, 5, 3, 16, 200, 64, turdb::hnsw::DistanceFunction::Cosine, turdb::hnsw::QuantizationType::None);
            let mut buf = vec![0u8; 128];
            hdr.write_to(&mut buf).expect("hnsw header");
            h.hnsw_header = buf;
            for n in [1usize, 5, 20] {
                let mut page = vec![0u8; PAGE_SIZE];
                {
                    let mut p = HnswPage::init(&mut page).expect("hnsw page");
                    for i in 0..n {
                        let data = vec![i as u8 + 1; 40 + i * 3];
                        if let Ok(slot) = p.allocate_slot(data.len() as u16) {
                            let _ = p.write_node_data(slot, &data);
                        }
                    }
                    if n > 2 {
                        let _ = p.mark_deleted(1);
                    }
                }
                h.hnsw_pages.push(page);
            }
        }
        let (st, _root) = dec::build_tree(dec::WALK_KEYS);
        h.walk_pages = st.pages.iter().map(|p| p.to_vec()).collect();
        for p in &h.walk_pages[1..] {
            if let Ok(ph) = PageHeader::from_bytes(p) {
                if ph.page_type() == PageType::BTreeInterior {
                    h.interior_pages.push(p.clone());
                }
            }
        }
        h
    })
}

fn json_value(depth: u32) -> BoxedStrategy<JsonbBuilderValue> {
    let leaf = prop_oneof![
        Just(JsonbBuilderValue::Null),
        any::<bool>().prop_map(JsonbBuilderValue::Bool),
        prop_oneof![Just(0.0), Just(-1.5), Just(1e300), any::<i32>().prop_map(|i| i as f64)].prop_map(JsonbBuilderValue::Number),
        "[a-z]{0,6}".prop_map(JsonbBuilderValue::String),
    ];
    if depth == 0 {
        return leaf.boxed();
    }
    prop_oneof![
        3 => leaf,
        1 => proptest::collection::vec(json_value(depth - 1), 0..4).prop_map(JsonbBuilderValue::Array),
        2 => proptest::collection::vec((prop_oneof![Just("a".to_string()), Just("b".to_string()), Just("key".to_string()), Just("nested".to_string()), "[a-z]{1,4}"], json_value(depth - 1)), 0..4)
            .prop_map(|mut kv| {
                kv.sort_by(|a, b| a.0.cmp(&b.0));
                kv.dedup_by(|a, b| a.0 == b.0);
                JsonbBuilderValue::Object(kv)
            }),
    ]
    .boxed()
}

fn jsonb_bytes(v: &JsonbBuilderValue) -> Vec<u8> {
    match v {
        JsonbBuilderValue::Object(kv) => {
            let mut b = JsonbBuilder::new_object();
            for (k, v) in kv {
                b.set(k.clone(), v.clone());
            }
            b.build()
        }
        JsonbBuilderValue::Array(xs) => {
            let mut b = JsonbBuilder::new_array();
            for x in xs {
                b.push(x.clone());
            }
            b.build()
        }
        JsonbBuilderValue::Null => JsonbBuilder::new_null().build(),
        JsonbBuilderValue::Bool(x) => JsonbBuilder::new_bool(*x).build(),
        JsonbBuilderValue::Number(x) => JsonbBuilder::new_number(*x).build(),
        JsonbBuilderValue::String(s) => JsonbBuilder::new_string(s.clone()).build(),
    }
}

/// a value for a column of type `t` from a seed (None = NULL)
fn owned_for(t: DataType, seed: u64) -> OwnedValue {
    let s = vcore::splitmix(seed);
    if s % 5 == 0 {
        return OwnedValue::Null;
    }
    let n = (s >> 8) as i64;
    let text = |k: u64| -> String { "abcdefghijklmnopqrstuvwxyz0123456789".chars().cycle().skip((k % 7) as usize).take((k % 23) as usize).collect() };
    match t {
        DataType::Bool => OwnedValue::Bool(s & 1 == 1),
        DataType::Int2 => OwnedValue::Int((n % 30000) as i64),
        DataType::Int4 => OwnedValue::Int((n % 2_000_000_000) as i64),
        DataType::Int8 => OwnedValue::Int(n),
        DataType::Float4 => OwnedValue::Float((n % 1000) as f64 / 4.0),
        DataType::Float8 => OwnedValue::Float(n as f64 / 3.0),
        DataType::Date => OwnedValue::Date((n % 40000) as i32),
        DataType::Time => OwnedValue::Time(n.rem_euclid(86_400_000_000)),
        DataType::Timestamp => OwnedValue::Timestamp(n),
        DataType::TimestampTz => OwnedValue::TimestampTz(n, (n % 50000) as i32),
        DataType::Uuid => OwnedValue::Uuid((s as u128).wrapping_mul(0x9E3779B97F4A7C15u128).to_le_bytes()),
        DataType::MacAddr => OwnedValue::MacAddr([s as u8, (s >> 8) as u8, 3, 4, 5, 6]),
        DataType::Inet4 => OwnedValue::Inet4([10, 0, (s >> 8) as u8, s as u8]),
        DataType::Inet6 => OwnedValue::Inet6((s as u128).to_be_bytes()),
        DataType::Text | DataType::Varchar | DataType::Char => OwnedValue::Text(text(s >> 3)),
        DataType::Blob => OwnedValue::Blob(text(s >> 5).into_bytes()),
        DataType::Vector => OwnedValue::Vector((0..(s % 5)).map(|i| i as f32 + 0.5).collect()),
        DataType::Jsonb => {
            let mut b = JsonbBuilder::new_object();
            b.set("a", (s % 100) as f64);
            b.set("key", text(s >> 9));
            b.set("nested", JsonbBuilderValue::Array(vec![JsonbBuilderValue::Null, JsonbBuilderValue::Bool(true)]));
            OwnedValue::Jsonb(b.build())
        }
        DataType::Decimal => OwnedValue::Decimal((n as i128).wrapping_mul(1000), (s % 6) as i16),
        DataType::Interval => OwnedValue::Interval(n, (s % 400) as i32, (s % 30) as i32),
        DataType::Point => OwnedValue::Point(1.5, -2.5),
        DataType::Box => OwnedValue::Box((0.0, 0.0), (n as f64, 2.0)),
        DataType::Circle => OwnedValue::Circle((1.0, 2.0), 3.0),
        DataType::Enum => OwnedValue::Enum((s % 9) as u16, (s % 4) as u16),
        DataType::Array => {
            let mut ab = ArrayBuilder::new(DataType::Int4);
            for i in 0..(s % 6) {
                if i == 2 {
                    ab.push_null();
                } else {
                    ab.push_int4(i as i32 * 7);
                }
            }
            OwnedValue::Blob(ab.build())
        }
        DataType::Composite => OwnedValue::Blob(composite_bytes(3, s)),
        // fixed-width range columns have no OwnedValue writer: NULL
        DataType::Int4Range | DataType::Int8Range | DataType::DateRange | DataType::TimestampRange => OwnedValue::Null,
    }
}

/// the composite layout (records/composite.rs): [header_len u16][null bitmap][field data]
fn composite_bytes(fields: usize, seed: u64) -> Vec<u8> {
    let bm = fields.div_ceil(8);
    let mut out = Vec::new();
    out.extend_from_slice(&((2 + bm) as u16).to_le_bytes());
    for i in 0..bm {
        out.push((seed >> (8 * i)) as u8 & 0x05);
    }
    for i in 0..fields {
        out.extend_from_slice(&((seed as u32).wrapping_mul(i as u32 + 1)).to_le_bytes());
    }
    out
}

fn valid_record() -> BoxedStrategy<Vec<u8>> {
    (proptest::collection::vec(0u8..32, 1..12), any::<u64>())
        .prop_map(|(codes, seed)| {
            let types: Vec<DataType> = codes.iter().map(|c| dec::TYPE_TABLE[*c as usize]).collect();
            let schema = Schema::new(types.iter().enumerate().map(|(i, t)| RCol::new(format!("c{}", i), *t)).collect());
            let vals: Vec<OwnedValue> = types.iter().enumerate().map(|(i, t)| owned_for(*t, seed.wrapping_add(i as u64))).collect();
            // (the builder itself panics for some value/type pairs; not this property's business)
            let rec = match vcore::catch(|| OwnedValue::build_record_from_values(&vals, &schema)) {
                Ok(Ok(r)) => r,
                other => {
                    if std::env::var("VERIF_DEBUG").is_ok() {
                        eprintln!("builder refused {:?} {:?}: {:?}", types, vals, other.map(|r| r.map(|_| ())));
                    }
                    let nulls: Vec<OwnedValue> = types.iter().map(|_| OwnedValue::Null).collect();
                    OwnedValue::build_record_from_values(&nulls, &schema).unwrap_or_default()
                }
            };
            let mut input = vec![(types.len() - 1) as u8];
            input.extend(codes.iter());
            input.extend(rec);
            input
        })
        .boxed()
}

fn valid_key() -> BoxedStrategy<Vec<u8>> {
    use turdb::encoding::key as k;
    let one = prop_oneof![
        any::<i64>().prop_map(|n| {
            let mut b = Vec::new();
            k::encode_int(n, &mut b);
            b
        }),
        any::<f64>().prop_map(|f| {
            let mut b = Vec::new();
            k::encode_float(f, &mut b);
            b
        }),
        "[a-z\\x00\\xff]{0,12}".prop_map(|s| {
            let mut b = Vec::new();
            k::encode_text(&s, &mut b);
            b
        }),
        proptest::collection::vec(prop_oneof![Just(0u8), Just(0xFF), any::<u8>()], 0..10).prop_map(|v| {
            let mut b = Vec::new();
            k::encode_blob(&v, &mut b);
            b
        }),
        (any::<i32>(), any::<i64>(), any::<u8>()).prop_map(|(d, t, which)| {
            let mut b = Vec::new();
            match which % 8 {
                0 => k::encode_date(d, &mut b),
                1 => k::encode_timestamp(t, &mut b),
                2 => k::encode_time(t, &mut b),
                3 => k::encode_timestamptz(t, d as i16, &mut b),
                4 => k::encode_interval(d, d / 3, t, &mut b),
                5 => k::encode_uuid(&(t as u128).wrapping_mul(31).to_le_bytes(), &mut b),
                6 => k::encode_inet(d & 1 == 0, &(t as u128).to_be_bytes(), 24, &mut b),
                _ => k::encode_macaddr(&[1, 2, 3, 4, 5, d as u8], &mut b),
            }
            b
        }),
        (any::<u8>(), proptest::collection::vec(any::<i64>(), 0..4)).prop_map(|(which, xs)| {
            let mut b = Vec::new();
            let enc = |x: &i64, buf: &mut Vec<u8>| k::encode_int(*x, buf);
            match which % 7 {
                0 => k::encode_array(&xs, &mut b, enc),
                1 => k::encode_tuple(&xs, &mut b, enc),
                2 => k::encode_range(xs.first(), xs.get(1), true, false, &mut b, enc),
                3 => k::encode_domain(7, &xs.first().copied().unwrap_or(1), &mut b, enc),
                4 => k::encode_composite(9, &xs, &mut b, enc),
                5 => k::encode_vector(&xs.iter().map(|x| *x as f32).collect::<Vec<_>>(), &mut b),
                _ => k::encode_enum(3, xs.len() as u32, &mut b),
            }
            b
        }),
        any::<u8>().prop_map(|which| {
            let mut b = Vec::new();
            let inner = [k::JsonValue::Number(1.5), k::JsonValue::String("s"), k::JsonValue::Null];
            let obj = [("a", k::JsonValue::Bool(true)), ("b", k::JsonValue::Array(&inner))];
            match which % 4 {
                0 => k::encode_json(&k::JsonValue::Object(&obj), &mut b),
                1 => k::encode_json(&k::JsonValue::Array(&inner), &mut b),
                2 => k::encode_null(&mut b),
                _ => k::encode_bool(which & 4 != 0, &mut b),
            }
            b
        }),
    ];
    proptest::collection::vec(one, 1..4).prop_map(|parts| parts.concat()).boxed()
}

fn valid_row_serde() -> BoxedStrategy<Vec<u8>> {
    proptest::collection::vec(proptest::collection::vec(any::<u64>(), 0..8), 1..3)
        .prop_map(|rows| {
            let mut buf = Vec::new();
            for seeds in rows {
                let row: Vec<Value<'static>> = seeds
                    .iter()
                    .map(|s| match s % 12 {
                        0 => Value::Null,
                        1 => Value::Int(*s as i64),
                        2 => Value::Int(0),
                        3 => Value::Float(*s as f64 / 7.0),
                        4 => Value::Text(std::borrow::Cow::Owned(format!("t{}", s % 1000))),
                        5 => Value::Blob(std::borrow::Cow::Owned(s.to_le_bytes().to_vec())),
                        6 => Value::Vector(std::borrow::Cow::Owned(vec![1.0, 2.5, (*s % 9) as f32])),
                        7 => Value::Uuid((*s as u128).wrapping_mul(77).to_le_bytes()),
                        8 => Value::Jsonb(std::borrow::Cow::Owned(JsonbBuilder::new_number(1.0).build())),
                        9 => Value::Float(f64::NAN),
                        10 => Value::ToastPointer(std::borrow::Cow::Owned(ToastPointer::new(*s, 2, 5000).encode().to_vec())),
                        _ => Value::Float(f64::NEG_INFINITY),
                    })
                    .collect();
                turdb::sql::row_serde::RowSerde::serialize_row_into(&row, &mut buf);
            }
            buf
        })
        .boxed()
}

fn valid_wal() -> BoxedStrategy<Vec<u8>> {
    proptest::collection::vec((any::<u8>(), 0u32..6, 0u32..8, prop_oneof![Just(0u64), Just(1u64), Just(7u64), any::<u64>()], any::<u8>()), 1..5)
        .prop_map(|frames| {
            let mut out = Vec::new();
            for (fill, page_no, db_size, file_id, leafish) in frames {
                let d = dec::WalDesc { flags: 1 | if leafish & 1 == 1 { 32 } else { 0 }, fill, page_no, db_size, file_id, patch_off: 0 };
                out.extend_from_slice(&d.encode());
            }
            out
        })
        .boxed()
}

fn pick<T: Clone + std::fmt::Debug + 'static>(xs: &'static [T]) -> BoxedStrategy<T> {
    if xs.is_empty() {
        panic!("harvest produced no sample for a target");
    }
    (0..xs.len()).prop_map(move |i| xs[i].clone()).boxed()
}

/// valid input (fuzz format) per target; `page` targets yield the FULL page form
pub fn valid_input(target: &str) -> BoxedStrategy<Vec<u8>> {
    let h = harvest();
    match target {
        "record" => valid_record(),
        "key" => valid_key(),
        "varint" => any::<u64>()
            .prop_map(|v| {
                let mut b = [0u8; 9];
                let n = turdb::encoding::varint::encode_varint(v >> (v % 64), &mut b);
                b[..n].to_vec()
            })
            .boxed(),
        "jsonb" => (any::<u8>(), json_value(3))
            .prop_map(|(sel, v)| {
                let mut i = vec![sel];
                i.extend(jsonb_bytes(&v));
                i
            })
            .boxed(),
        "array" => (any::<u8>(), proptest::collection::vec(proptest::option::weighted(0.8, any::<i64>()), 0..10))
            .prop_map(|(ty, xs)| {
                let et = [DataType::Int2, DataType::Int4, DataType::Int8, DataType::Float4, DataType::Float8, DataType::Bool, DataType::Text, DataType::Blob][(ty % 8) as usize];
                let mut ab = ArrayBuilder::new(et);
                for x in xs {
                    match (x, et) {
                        (None, _) => ab.push_null(),
                        (Some(x), DataType::Int2) => ab.push_int2(x as i16),
                        (Some(x), DataType::Int4) => ab.push_int4(x as i32),
                        (Some(x), DataType::Int8) => ab.push_int8(x),
                        (Some(x), DataType::Float4) => ab.push_float4(x as f32),
                        (Some(x), DataType::Float8) => ab.push_float8(x as f64),
                        (Some(x), DataType::Bool) => ab.push_bool(x & 1 == 1),
                        (Some(x), DataType::Text) => ab.push_text(&format!("s{}", x % 1000)),
                        (Some(x), _) => ab.push_blob(&x.to_le_bytes()),
                    }
                }
                ab.build()
            })
            .boxed(),
        "composite" => (1usize..12, any::<u64>())
            .prop_map(|(n, s)| {
                let mut i = vec![n as u8];
                i.extend(composite_bytes(n, s));
                i
            })
            .boxed(),
        "catalog" => Just(h.catalog_file[128.min(h.catalog_file.len())..].to_vec()).boxed(),
        "catalog_file" => Just(h.catalog_file.clone()).boxed(),
        "wal" => valid_wal(),
        "hdr_table" => pick(&h.table_headers),
        "hdr_index" => pick(&h.index_headers),
        "hdr_meta" => Just(h.meta_header.clone()).boxed(),
        "hdr_hnsw" => Just(h.hnsw_header.clone()).boxed(),
        "hnsw_page" => pick(&h.hnsw_pages),
        "leaf" => pick(&h.leaf_pages),
        "interior" => pick(&h.interior_pages),
        "page_header" => prop_oneof![pick(&h.leaf_pages), pick(&h.interior_pages)].prop_map(|p| p[..64].to_vec()).boxed(),
        "btree_walk" => (1..h.walk_pages.len())
            .prop_map(move |p| {
                let mut i = vec![(p - 1) as u8];
                i.extend(&h.walk_pages[p]);
                i
            })
            .boxed(),
        "toast_ptr" => (any::<u64>(), any::<u16>(), any::<u64>()).prop_map(|(r, c, s)| ToastPointer::new(r & 0xFFFF_FFFF_FFFF, c, s).encode().to_vec()).boxed(),
        "row_serde" => valid_row_serde(),
        _ => Just(Vec::new()).boxed(),
    }
}

pub fn is_page_target(t: &str) -> bool {
    matches!(t, "leaf" | "interior" | "hnsw_page" | "btree_walk")
}

// ---------------------------------------------------------------------------------------
// mutations
// ---------------------------------------------------------------------------------------

#[derive(Debug, Clone)]
pub enum Mut {
    BitFlip { pos: u16, bit: u8 },
    Set { pos: u16, val: u8 },
    Truncate { len: u16 },
    Insert { pos: u16, bytes: Vec<u8> },
    Delete { pos: u16, n: u8 },
    Splice { from: u16, to: u16, n: u8 },
    /// overwrite a 1/2/4/8-byte field (little or big endian) with a boundary value
    LenField { pos: u16, width: u8, kind: u8, big_endian: bool },
}

fn mut_strategy() -> impl Strategy<Value = Mut> {
    prop_oneof![
        3 => (any::<u16>(), 0u8..8).prop_map(|(pos, bit)| Mut::BitFlip { pos, bit }),
        3 => (any::<u16>(), prop_oneof![Just(0u8), Just(0xFF), Just(0x80), Just(0x7F), Just(1u8), any::<u8>()]).prop_map(|(pos, val)| Mut::Set { pos, val }),
        2 => any::<u16>().prop_map(|len| Mut::Truncate { len }),
        1 => (any::<u16>(), proptest::collection::vec(any::<u8>(), 1..5)).prop_map(|(pos, bytes)| Mut::Insert { pos, bytes }),
        1 => (any::<u16>(), 1u8..9).prop_map(|(pos, n)| Mut::Delete { pos, n }),
        1 => (any::<u16>(), any::<u16>(), 1u8..17).prop_map(|(from, to, n)| Mut::Splice { from, to, n }),
        4 => (any::<u16>(), 0u8..4, 0u8..8, any::<bool>()).prop_map(|(pos, w, kind, big_endian)| Mut::LenField { pos, width: [1, 2, 4, 8][w as usize], kind, big_endian }),
    ]
}

/// position selector -> offset, biased to the first `hot` bytes (half of the selectors)
fn place(sel: u16, len: usize, hot: usize) -> usize {
    if len == 0 {
        return 0;
    }
    if sel & 1 == 0 {
        (sel as usize >> 1) % hot.min(len).max(1)
    } else {
        vcore::idx(sel, len)
    }
}

pub fn apply_muts(buf: &mut Vec<u8>, muts: &[Mut], hot: usize, fixed_len: bool) {
    for m in muts {
        let len = buf.len();
        match m {
            Mut::BitFlip { pos, bit } => {
                if len > 0 {
                    let p = place(*pos, len, hot);
                    buf[p] ^= 1 << bit;
                }
            }
            Mut::Set { pos, val } => {
                if len > 0 {
                    let p = place(*pos, len, hot);
                    buf[p] = *val;
                }
            }
            Mut::Truncate { len: l } => {
                if !fixed_len {
                    buf.truncate(vcore::idx(*l, len + 1));
                }
            }
            Mut::Insert { pos, bytes } => {
                if !fixed_len {
                    let p = place(*pos, len + 1, hot);
                    for (i, b) in bytes.iter().enumerate() {
                        buf.insert(p + i, *b);
                    }
                }
            }
            Mut::Delete { pos, n } => {
                if !fixed_len && len > 0 {
                    let p = place(*pos, len, hot);
                    let e = (p + *n as usize).min(len);
                    buf.drain(p..e);
                }
            }
            Mut::Splice { from, to, n } => {
                if len > 0 {
                    let f = vcore::idx(*from, len);
                    let t = place(*to, len, hot);
                    let n = (*n as usize).min(len - f).min(len - t);
                    let chunk: Vec<u8> = buf[f..f + n].to_vec();
                    buf[t..t + n].copy_from_slice(&chunk);
                }
            }
            Mut::LenField { pos, width, kind, big_endian } => {
                let w = *width as usize;
                if len >= w {
                    let p = place(*pos, len - w + 1, hot);
                    let mut cur = [0u8; 8];
                    cur[..w].copy_from_slice(&buf[p..p + w]);
                    if *big_endian {
                        cur[..w].reverse();
                    }
                    let old = u64::from_le_bytes(cur);
                    let max = if w == 8 { u64::MAX } else { (1u64 << (8 * w)) - 1 };
                    let new = match kind % 8 {
                        0 => 0,
                        1 => max,
                        2 => old.wrapping_add(1) & max,
                        3 => old.wrapping_sub(1) & max,
                        4 => (len as u64) & max,
                        5 => (max >> 1) + 1,
                        6 => max >> 1,
                        _ => (old.wrapping_mul(256) | 0xFF) & max,
                    };
                    let mut nb = new.to_le_bytes();
                    if *big_endian {
                        nb[..w].reverse();
                    }
                    buf[p..p + w].copy_from_slice(&nb[..w]);
                }
            }
        }
    }
}

/// (target, valid input, mutations) -> case
fn build_case(target: &str, mut valid: Vec<u8>, muts: &[Mut]) -> Case {
    let input = if is_page_target(target) {
        // mutate the page itself (prefix byte of btree_walk kept), then compact
        let prefix = if target == "btree_walk" { vec![valid.remove(0)] } else { Vec::new() };
        // hot region = page header + slot array head
        apply_muts(&mut valid, muts, 16 + 8 * 24, true);
        let mut i = prefix;
        i.extend(dec::page_to_input(&valid));
        i
    } else {
        let hot = match target {
            "record" => (valid.first().copied().unwrap_or(0) as usize % 24) + 2 + 12,
            "catalog_file" => 128,
            "wal" => valid.len(),
            _ => 16,
        };
        // the schema prefix of a record input is not part of the stored bytes: keep it
        let keep = match target {
            "record" => (valid.first().copied().unwrap_or(0) as usize % 24) + 2,
            "jsonb" | "composite" => 1,
            _ => 0,
        };
        let keep = keep.min(valid.len());
        let mut body = valid.split_off(keep);
        apply_muts(&mut body, muts, hot, false);
        valid.extend(body);
        valid
    };
    Case { target: target.to_string(), input: hex(&input) }
}

fn raw_case(target: &'static str) -> BoxedStrategy<Case> {
    let first = prop_oneof![Just(0x16u8), Just(0x20), Just(0x55), Just(0x56), Just(0x60), Just(0x61), Just(0x62), Just(0x65), Just(0x70), Just(0xFF), Just(0xFE), Just(0x00), any::<u8>()];
    (first, proptest::collection::vec(any::<u8>(), 0..120)).prop_map(move |(f, mut v)| {
        v.insert(0, f);
        Case { target: target.to_string(), input: hex(&v) }
    })
    .boxed()
}

fn dbfile_case() -> BoxedStrategy<Case> {
    let edit = (any::<u8>(), prop_oneof![3 => 0u8..5, 1 => 5u8..7, 1 => Just(7u8)], any::<u16>(), prop_oneof![Just(0u8), Just(0xFF), Just(0x80), Just(1u8), any::<u8>()], any::<u8>())
        .prop_map(|(f, m, pos, val, extra)| vec![f, m, (pos & 0xFF) as u8, (pos >> 8) as u8, val, extra]);
    (proptest::collection::vec(edit, 1..=8), any::<bool>())
        .prop_map(|(es, crashed)| {
            let mut b = es.concat();
            if crashed {
                b[1] |= 0x80; // the crash image (live WAL) instead of the cleanly closed one
            }
            Case { target: "dbfile".to_string(), input: hex(&b) }
        })
        .boxed()
}

/// nesting as deep as a stored value of the kind can be: an index key fills at most a page
/// (16 KiB), a JSONB column at most the 64 KiB a record's u16 offsets can address
fn deep_case() -> BoxedStrategy<Case> {
    prop_oneof![
        // RANGE(flags = upper missing) RANGE ... INT : 2 bytes per level
        (prop_oneof![Just(50usize), Just(500), Just(2000), Just(8000)], any::<bool>()).prop_map(|(d, domain)| {
            let mut k = Vec::new();
            for _ in 0..d {
                if domain {
                    k.extend_from_slice(&[0x65, 0, 0, 0, 1]); // DOMAIN type_id
                    if k.len() > 16_000 {
                        break;
                    }
                } else {
                    k.extend_from_slice(&[0x62, 0x02]); // RANGE, only a lower bound
                }
            }
            k.push(0x14); // ZERO
            Case { target: "key".into(), input: hex(&k) }
        }),
        // [[[...[1]...]]] in the layout JsonbBuilder writes (built level by level without
        // recursion): 12 bytes per level around the 20-byte innermost array
        prop_oneof![Just(20usize), Just(200), Just(1000), Just(4000)].prop_map(|d| {
            let arr_hdr: u32 = (1u32 << 28) | 1;
            let nested_entry: u32 = (1u32 << 30) | (1u32 << 24);
            let number_entry: u32 = (1u32 << 30) | (4u32 << 24);
            let mut doc = Vec::with_capacity(20 + 12 * d);
            for k in (1..=d).rev() {
                doc.extend_from_slice(&arr_hdr.to_le_bytes());
                doc.extend_from_slice(&nested_entry.to_le_bytes());
                doc.extend_from_slice(&((20 + 12 * (k - 1)) as u32).to_le_bytes());
            }
            doc.extend_from_slice(&arr_hdr.to_le_bytes());
            doc.extend_from_slice(&number_entry.to_le_bytes());
            doc.extend_from_slice(&1.0f64.to_le_bytes());
            let mut i = vec![0u8];
            i.extend(doc);
            Case { target: "jsonb".into(), input: hex(&i) }
        }),
    ]
    .boxed()
}

fn target_case(target: &'static str) -> BoxedStrategy<Case> {
    prop_oneof![
        8 => (valid_input(target), proptest::collection::vec(mut_strategy(), 0..5)).prop_map(move |(v, m)| build_case(target, v, &m)),
        1 => raw_case(target),
    ]
    .boxed()
}

/// weights: cheap pure decoders get many cases, file-backed ones fewer
const WEIGHTS: &[(&str, u32)] = &[
    ("record", 20),
    ("key", 10),
    ("varint", 2),
    ("jsonb", 14),
    ("array", 10),
    ("composite", 5),
    ("catalog", 8),
    ("catalog_file", 3),
    ("wal", 2),
    ("hdr_table", 2),
    ("hdr_index", 2),
    ("hdr_meta", 2),
    ("hdr_hnsw", 2),
    ("hnsw_page", 4),
    ("page_header", 1),
    ("leaf", 10),
    ("interior", 6),
    ("btree_walk", 6),
    ("toast_ptr", 1),
    ("row_serde", 6),
];

pub fn strategy(dbfile_weight: u32) -> BoxedStrategy<Case> {
    let mut arms: Vec<(u32, BoxedStrategy<Case>)> = WEIGHTS.iter().map(|(t, w)| (*w, target_case(t))).collect();
    arms.push((dbfile_weight, dbfile_case()));
    arms.push((1, deep_case()));
    proptest::strategy::Union::new_weighted(arms).boxed()
}

// ---------------------------------------------------------------------------------------
// corpus: fuzz artifacts and seeds
// ---------------------------------------------------------------------------------------

/// `corpus/c23/<target>/*` : every file is one input in fuzz format (seeds written by
/// `--emit-corpus`, crash artifacts minimised by `cargo fuzz tmin` and copied here).
fn corpus_cases() -> Vec<Case> {
    let mut out = Vec::new();
    let root = vcore::verif_root().join("corpus").join("c23");
    let mut targets: Vec<String> = dec::TARGETS.iter().map(|s| s.to_string()).collect();
    targets.push("dbfile".into());
    for t in targets {
        let dir = root.join(&t);
        let Ok(rd) = std::fs::read_dir(&dir) else { continue };
        let mut files: Vec<_> = rd.flatten().map(|e| e.path()).filter(|p| p.is_file()).collect();
        files.sort();
        for f in files {
            if let Ok(b) = std::fs::read(&f) {
                out.push(Case { target: t.clone(), input: hex(&b) });
            }
        }
    }
    out
}

pub fn emit_corpus(dir: &str, per_target: usize) -> i32 {
    use proptest::strategy::ValueTree;
    use proptest::test_runner::{Config, TestRunner};
    let mut runner = TestRunner::new_with_rng(Config::default(), vcore::rng_from_seed(0xC23));
    for t in dec::TARGETS {
        let d = std::path::Path::new(dir).join(t);
        let _ = std::fs::create_dir_all(&d);
        let st = valid_input(t);
        for i in 0..per_target {
            let Ok(tree) = st.new_tree(&mut runner) else { continue };
            let mut v = tree.current();
            if is_page_target(t) {
                let prefix = if *t == "btree_walk" { vec![v.remove(0)] } else { Vec::new() };
                let mut x = prefix;
                x.extend(dec::page_to_input(&v));
                v = x;
            }
            let _ = std::fs::write(d.join(format!("seed-{:03}", i)), &v);
        }
    }
    let d = std::path::Path::new(dir).join("dbfile");
    let _ = std::fs::create_dir_all(&d);
    let st = dbfile_case();
    for i in 0..per_target {
        if let Ok(tree) = st.new_tree(&mut runner) {
            let _ = std::fs::write(d.join(format!("seed-{:03}", i)), unhex(&tree.current().input));
        }
    }
    if std::env::var("VERIF_DBFILE_TEMPLATE").is_err() {
        vtargets::dbfile::cleanup();
    }
    0
}

// ---------------------------------------------------------------------------------------

pub fn main(tier: Tier, replay: Option<String>) -> i32 {
    if let Some(p) = replay {
        let chk = C23 { ctx: None, inconclusive: Mutex::new(Vec::new()) };
        let code = vcore::replay_file("C23", &chk, &p);
        childsrv::shutdown_thread_client();
        let inc = chk.inconclusive.lock().unwrap();
        if code == 0 && !inc.is_empty() {
            println!("INCONCLUSIVE property=C23 {}", inc.join("; "));
            return 2;
        }
        return code;
    }
    let ctx = Ctx::new("C23", tier, "fault_enumeration");
    ctx.set_rule(
        "per decoder: valid encodings from the public encoders / from the files of a database built through SQL, then 0..4 mutations \
         (bit flip, byte set, truncate, insert, delete, splice, length-field edit; biased to header bytes), 1/9 raw byte strings; \
         dbfile: 1..8 edits (file header / page header / slot array / cell area / any byte / truncation) of a copied multi-table database, \
         then open + 20 scans and index probes. Non-trivial = the input got behind the decoder's first validation (constructor accepted it, \
         a frame validated, the corrupted database showed an error or a changed result); distinct by hash of (target, input).",
    );
    ctx.assume("every case runs in a child process with RLIMIT_AS = 4 GiB and an 8 MiB stack; a child death is attributed to the case in flight and re-confirmed alone in a fresh child");
    ctx.assume("WAL frames with a valid checksum over a mutated header are generated on purpose: the checksum is not an authentication of the header fields");
    ctx.assume("a case that does not reply within VERIF_CASE_TIMEOUT_S (60 s), twice, alone, is reported as inconclusive (exit 2), not as a violation");
    let chk = C23 { ctx: Some(ctx.clone()), inconclusive: Mutex::new(Vec::new()) };
    // one template database per run, shared with every child (before any thread or child starts)
    vtargets::dbfile::publish_template();
    // corpus replay (seeds + minimised fuzz artifacts), spread over the workers
    let corpus = corpus_cases();
    ctx.extra("corpus_cases", json!(corpus.len()));
    {
        let cases = crate::fuzzrun::scaled(tier.pick(24_000, 480_000));
        let dbw = 6;
        // (replays the witnesses of the listed findings first)
        vcore::drive(&ctx, &chk, || strategy(dbw), cases, 16);
    }
    if !ctx.has_violation() {
        run_list(&ctx, &chk, &corpus, "corpus");
    }
    if !ctx.has_violation() && tier == Tier::Thorough {
        crate::fuzzrun::campaigns(&ctx, "C23", &chk, |dir| emit_corpus(dir, 40), |target, bytes| Case { target: target.trim_start_matches("c23_").to_string(), input: hex(bytes) });
    }
    vtargets::dbfile::cleanup();
    let inc = chk.inconclusive.lock().unwrap();
    if !inc.is_empty() {
        ctx.inconclusive(format!("{} case(s) without verdict: {}", inc.len(), inc.iter().take(3).cloned().collect::<Vec<_>>().join(" | ")));
    }
    ctx.finish()
}

/// run a fixed list of cases on 16 threads (corpus replay); unknown failures are recorded
/// with the case as the replay (already minimal: corpus entries are minimised artifacts)
pub fn run_list<C: Check>(ctx: &Arc<Ctx>, chk: &C, cases: &[C::Case], label: &str)
where
    C::Case: Sync,
{
    let next = std::sync::atomic::AtomicUsize::new(0);
    std::thread::scope(|sc| {
        for _ in 0..16 {
            sc.spawn(|| {
                loop {
                    let i = next.fetch_add(1, std::sync::atomic::Ordering::SeqCst);
                    if i >= cases.len() || ctx.stop.load(std::sync::atomic::Ordering::SeqCst) {
                        break;
                    }
                    let out = chk.run(&cases[i]);
                    ctx.count_eval(1);
                    ctx.class(&format!("{}_replay", label), 1);
                    for c in &out.classes {
                        ctx.class(c, 1);
                    }
                    if let Some(h) = out.nontrivial {
                        ctx.count_nontrivial(h);
                    }
                    if let Some(f) = out.failure {
                        if vcore::survey_mode() && !ctx.is_known(&f.sig) {
                            ctx.survey_add(&f.sig, &f.detail);
                        } else {
                            ctx.record_failure(&f, &serde_json::to_value(&cases[i]).unwrap_or(J::Null));
                        }
                    }
                }
                childsrv::shutdown_thread_client();
            });
        }
    });
}
