//! Crash-point engine for C01 C02 C40 (DESIGN.md §4 "Durability, recovery, log").
//!
//! parent:  generates a workload (E-hist history + PRAGMAs), then
//!   1. reference run (child, hooks not armed): the observation after every acknowledged
//!      statement is dumped — expected states come from TurDB itself, not from a model;
//!   2. counting run (child, hooks armed, crash_at = 0): numbers the crash points, records
//!      their kinds and at which point number each statement was acknowledged;
//!   3. for each chosen crash index i: child armed with crash_at = i ends with _exit(77) at
//!      that point. Two directories are then examined in a watchdogged observer process:
//!      *kill*  = the directory as the dead child left it;
//!      *power* = every file cut back to its bytes as of its last successful sync (shadow
//!                copy kept by the hook), padded with zeros / truncated to its current
//!                length (file creation and set_len are treated as durable metadata).
//!   verdict: the recovered observation must equal the reference observation at the last
//!   statement boundary outside a transaction that was acknowledged before the crash, or at
//!   the boundary that additionally contains the whole in-flight statement / transaction.

use std::collections::BTreeMap;
use std::io::Write;
use std::path::{Path, PathBuf};
use std::process::{Command, Stdio};
use std::time::{Duration, Instant};

use serde::{Deserialize, Serialize};

use crate::hist::*;
use crate::refdb::*;
use crate::world::*;

#[derive(Debug, Clone, Serialize, Deserialize)]
pub struct Workload {
    pub setup: Vec<String>,
    pub h: History,
    pub closed_gates: Vec<String>,
    /// checkpoint right after the schema statements (all files synced once), DML only afterwards:
    /// from there on durability rests on the WAL alone
    #[serde(default)]
    pub ckpt_schema: bool,
}

#[derive(Debug, Clone, Serialize, Deserialize)]
pub struct ChildArgs {
    pub w: Workload,
    pub dbdir: PathBuf,
    pub ackfile: PathBuf,
    /// reference run: dump observation + schema after every statement
    pub obsfile: Option<PathBuf>,
    pub armed: bool,
    pub crash_at: u64,
    pub shadow: Option<PathBuf>,
    pub pointlog: Option<PathBuf>,
}

#[derive(Debug, Clone, Serialize, Deserialize)]
pub struct RefState {
    /// statement index (0-based) after which this state was observed
    pub stmt: usize,
    pub kind: String,
    pub sql: String,
    pub ok: bool,
    pub in_txn_after: bool,
    /// the statement text is longer than the TOAST threshold (it writes a toasted value)
    #[serde(default)]
    pub long_sql: bool,
    pub tables: Vec<MTable>,
    pub obs: Obs,
}

/// Development aid (`vcheck --crash-sql <replay.json>`): print the statements of a crash case's workload.
pub fn print_sql(replay: &str) {
    let v: serde_json::Value = serde_json::from_str(&std::fs::read_to_string(replay).expect("replay")).expect("json");
    let w: Workload = serde_json::from_value(v["case"]["w"].clone()).expect("workload");
    let gates: std::collections::BTreeSet<String> = w.closed_gates.iter().cloned().collect();
    for s in &w.setup {
        println!("{}", s);
    }
    let mut model = Model::new(&w.h.tables, false);
    for t in model.tables.clone() {
        for sql in Model::create_sql(&t) {
            println!("{}", sql);
        }
    }
    for (ti, spec) in w.h.tables.iter().enumerate() {
        let rows = crate::hist::prefill_rows(spec);
        if rows.is_empty() || ti >= model.tables.len() {
            continue;
        }
        for chunk in rows.chunks(35) {
            println!("INSERT INTO {} VALUES {}", spec.name, chunk.iter().map(|r| format!("({})", r.iter().map(|v| v.sql()).collect::<Vec<_>>().join(", "))).collect::<Vec<_>>().join(", "));
        }
        model.tables[ti].rows.extend(rows);
        model.tables[ti].ever_had_rows = true;
    }
    if w.ckpt_schema {
        println!(".reopen");
        for s in &w.setup {
            println!("{}", s);
        }
    }
    for op in &w.h.ops {
        let Some(r) = model.resolve(op) else { continue };
        if r.tags.iter().any(|t| gates.contains(*t)) {
            continue;
        }
        if w.ckpt_schema && !matches!(r.kind, "INSERT" | "UPDATE" | "DELETE" | "BEGIN" | "COMMIT" | "ROLLBACK" | "SAVEPOINT" | "ROLLBACK_TO" | "RELEASE" | "CHECKPOINT" | "PRAGMA_CHECKPOINT") {
            continue;
        }
        match r.lifecycle {
            Some(Lifecycle::Checkpoint) => println!("PRAGMA wal_checkpoint"),
            Some(_) => continue,
            None => println!("{}", r.sql),
        }
        // (the child adopts a statement's effects only when TurDB accepted it; for printing, assume the model's verdict)
        if matches!(r.expect, Expect::Ok { .. }) || !matches!(r.txn, TxnEffect::None) {
            model.commit(&r);
        }
    }
}

/// Child: run the workload. Never returns.
pub fn child_main(args_path: &str) -> ! {
    let args: ChildArgs = serde_json::from_str(&std::fs::read_to_string(args_path).expect("child args")).expect("child args json");
    let gates: std::collections::BTreeSet<String> = args.w.closed_gates.iter().cloned().collect();
    NEG_DEFAULT_OK.with(|c| c.set(!gates.contains("negative_default")));
    let mut ack = std::fs::File::create(&args.ackfile).expect("ackfile");
    let mut obsf = args.obsfile.as_ref().map(|p| std::fs::File::create(p).expect("obsfile"));
    // armed before the database exists: the sync shadow has to see every sync of every file
    if args.armed {
        turdb::verif::arm(args.crash_at, Some(args.dbdir.clone()), args.shadow.clone(), args.pointlog.clone());
    }
    let db = turdb::Database::create(&args.dbdir).expect("create");
    for s in &args.w.setup {
        db.execute(s).expect("setup pragma");
    }
    let wdb = Db { dir: vcore::tmp::TempDir::new("crash-child-unused"), path: args.dbdir.clone(), handle: Some(db) };
    // (the child leaves through _exit: nothing would remove the placeholder directory later)
    let _ = std::fs::remove_dir_all(wdb.dir.path());
    let mut model = Model::new(&args.w.h.tables, false);
    let mut idx = 0usize;
    let mut emit = |model: &Model, wdb: &Db, kind: &str, sql: &str, ok: bool, idx: usize| {
        let pts = if args.armed { turdb::verif::points_so_far() } else { 0 };
        let _ = writeln!(ack, "{} {} {} {}", idx, if ok { "ok" } else { "err" }, pts, kind);
        if let Some(f) = obsf.as_mut() {
            let st = RefState { stmt: idx, kind: kind.to_string(), sql: sql.chars().take(300).collect(), ok, in_txn_after: model.in_txn(), long_sql: sql.split('\'').any(|seg| seg.len() > 1000), tables: model.tables.clone(), obs: obs(wdb, &model.tables, true) };
            let _ = writeln!(f, "{}", serde_json::to_string(&st).unwrap());
        }
        // the statement boundary itself is a crash point: the process is killed while idle, right after
        // the acknowledgement (nothing of a later statement has run)
        if args.armed {
            // (after a COMMIT the point is a kind of its own, so the stratified choice of crash points always
            // includes "committed, then killed before anything else happens")
            turdb::verif::point(if kind == "COMMIT" && ok { "ack_commit" } else { "ack" });
        }
    };
    for t in model.tables.clone() {
        for sql in Model::create_sql(&t) {
            let ok = matches!(wdb.exec(&sql), Exec::Ok { .. });
            emit(&model, &wdb, "CREATE", &sql, ok, idx);
            idx += 1;
            if !ok {
                eprintln!("schema statement failed in child: {} -> {:?}", sql, wdb.exec(&sql));
                unsafe { libc::_exit(3) }
            }
        }
    }
    // pre-load (multi-page tables, UPDATE/DELETE that really touch rows): acknowledged INSERT statements like any other
    for (ti, spec) in args.w.h.tables.iter().enumerate() {
        let rows = crate::hist::prefill_rows(spec);
        if rows.is_empty() || ti >= model.tables.len() {
            continue;
        }
        for chunk in rows.chunks(35) {
            let sql = format!(
                "INSERT INTO {} VALUES {}",
                spec.name,
                chunk.iter().map(|r| format!("({})", r.iter().map(|v| v.sql()).collect::<Vec<_>>().join(", "))).collect::<Vec<_>>().join(", ")
            );
            let ok = matches!(wdb.exec(&sql), Exec::Ok { .. });
            if ok {
                model.tables[ti].rows.extend(chunk.iter().cloned());
                model.tables[ti].ever_had_rows = true;
            }
            emit(&model, &wdb, "INSERT", &sql, ok, idx);
            idx += 1;
        }
    }
    let mut wdb = wdb;
    if args.w.ckpt_schema {
        // close() syncs every file; after the reopen only the WAL protects what follows
        let ok = wdb.reopen().is_ok();
        if ok {
            for s in &args.w.setup {
                let _ = wdb.exec(s);
            }
        }
        emit(&model, &wdb, "REOPEN", "-- close + reopen after schema", ok, idx);
        idx += 1;
        if !ok {
            unsafe { libc::_exit(4) }
        }
    }
    for op in &args.w.h.ops {
        let Some(r) = model.resolve(op) else { continue };
        if r.tags.iter().any(|t| gates.contains(*t)) {
            continue;
        }
        if args.w.ckpt_schema && !matches!(r.kind, "INSERT" | "UPDATE" | "DELETE" | "BEGIN" | "COMMIT" | "ROLLBACK" | "SAVEPOINT" | "ROLLBACK_TO" | "RELEASE" | "CHECKPOINT" | "PRAGMA_CHECKPOINT") {
            continue;
        }
        let ok = if let Some(l) = r.lifecycle {
            match l {
                Lifecycle::Checkpoint => wdb.checkpoint().is_ok(),
                // close/reopen inside the crash workload would need re-arming; checkpoints are the lifecycle op here
                _ => continue,
            }
        } else {
            matches!(wdb.exec(&r.sql), Exec::Ok { .. })
        };
        if ok {
            model.commit(&r);
        }
        emit(&model, &wdb, r.kind, &r.sql, ok, idx);
        idx += 1;
    }
    // end of workload without reaching the crash point: leave like a kill as well
    unsafe { libc::_exit(0) }
}

/// Observer: open `dir`, observe under each given schema, print JSON. Never returns.
pub fn observe_main(dir: &str, schemas_path: &str) -> ! {
    let schemas: Vec<Vec<MTable>> = serde_json::from_str(&std::fs::read_to_string(schemas_path).expect("schemas")).expect("schemas json");
    let degraded = std::env::var("VERIF_OBSERVE_DEGRADED").is_ok();
    let res: Result<Vec<Obs>, String> = (|| {
        if degraded {
            turdb::verif::force_degraded_open(true);
        }
        let db = turdb::Database::open(dir).map_err(|e| format!("open: {:#}", e))?;
        if degraded {
            // the user-visible streaming path: PRAGMA recover_wal on a database opened in degraded mode
            db.execute("PRAGMA recover_wal").map_err(|e| format!("PRAGMA recover_wal: {:#}", e))?;
        }
        let wdb = Db { dir: vcore::tmp::TempDir::new("crash-observe-unused"), path: PathBuf::from(dir), handle: Some(db) };
        Ok(schemas.iter().map(|s| obs(&wdb, s, true)).collect())
    })();
    println!("{}", serde_json::to_string(&res).unwrap());
    unsafe { libc::_exit(0) }
}

pub struct ChildRun {
    pub exit: Option<i32>,
    pub timed_out: bool,
}

pub fn run_child(args: &ChildArgs, scratch: &Path, timeout: Duration) -> ChildRun {
    let ap = scratch.join(format!("args-{}-{}-{}.json", args.crash_at, args.shadow.is_some(), args.dbdir.file_name().and_then(|n| n.to_str()).unwrap_or("x")));
    std::fs::write(&ap, serde_json::to_string(args).unwrap()).unwrap();
    let errfile = std::fs::File::create(scratch.join(format!("stderr-{}-{}", args.crash_at, args.shadow.is_some()))).ok();
    let mut ch = Command::new(std::env::current_exe().unwrap()).arg("--crash-child").arg(&ap).stdout(Stdio::null()).stderr(errfile.map(Stdio::from).unwrap_or_else(Stdio::null)).spawn().expect("spawn child");
    let start = Instant::now();
    loop {
        match ch.try_wait() {
            Ok(Some(st)) => return ChildRun { exit: st.code(), timed_out: false },
            Ok(None) => {
                if start.elapsed() > timeout {
                    let _ = ch.kill();
                    let _ = ch.wait();
                    return ChildRun { exit: None, timed_out: true };
                }
                std::thread::sleep(Duration::from_millis(2));
            }
            Err(_) => return ChildRun { exit: None, timed_out: false },
        }
    }
}

#[derive(Debug)]
pub enum Observed {
    Ok(Vec<Obs>),
    OpenFailed(String),
    /// observer died (panic/abort) or hung
    Died(String),
}

pub fn observe(dir: &Path, schemas: &[Vec<MTable>], scratch: &Path, tag: &str) -> Observed {
    observe_mode(dir, schemas, scratch, tag, false)
}

pub fn observe_mode(dir: &Path, schemas: &[Vec<MTable>], scratch: &Path, tag: &str, degraded: bool) -> Observed {
    let sp = scratch.join(format!("schemas-{}{}.json", tag, if degraded { "d" } else { "" }));
    std::fs::write(&sp, serde_json::to_string(schemas).unwrap()).unwrap();
    let mut cmd = Command::new(std::env::current_exe().unwrap());
    // output goes to files: an observation with long values is larger than a pipe buffer, and a parent that
    // only polls for the exit would leave the child blocked in write() forever
    let outp = scratch.join(format!("observed-{}{}.out", tag, if degraded { "d" } else { "" }));
    let errp = scratch.join(format!("observed-{}{}.err", tag, if degraded { "d" } else { "" }));
    let (Ok(outf), Ok(errf)) = (std::fs::File::create(&outp), std::fs::File::create(&errp)) else {
        return Observed::Died("cannot create observer output files".into());
    };
    cmd.arg("--crash-observe").arg(dir).arg(&sp).stdout(Stdio::from(outf)).stderr(Stdio::from(errf));
    if degraded {
        cmd.env("VERIF_OBSERVE_DEGRADED", "1");
    }
    let mut ch = match cmd.spawn() {
        Ok(c) => c,
        Err(e) => return Observed::Died(format!("spawn: {}", e)),
    };
    let start = Instant::now();
    loop {
        match ch.try_wait() {
            Ok(Some(_)) => break,
            Ok(None) => {
                if start.elapsed() > Duration::from_secs(120) {
                    let _ = ch.kill();
                    let _ = ch.wait();
                    // a watchdog hit is never a verdict (the machine may simply be loaded): the caller reports
                    // the run as inconclusive
                    return Observed::Died("TIMEOUT: observer did not finish within 120 s".into());
                }
                std::thread::sleep(Duration::from_millis(2));
            }
            Err(e) => return Observed::Died(e.to_string()),
        }
    }
    let status = ch.wait().map_err(|e| e.to_string());
    let text = std::fs::read_to_string(&outp).unwrap_or_default();
    let err = std::fs::read_to_string(&errp).unwrap_or_default();
    let _ = std::fs::remove_file(&outp);
    let _ = std::fs::remove_file(&errp);
    match status {
        Ok(st) => match serde_json::from_str::<Result<Vec<Obs>, String>>(text.trim()) {
            Ok(Ok(v)) => Observed::Ok(v),
            Ok(Err(e)) => Observed::OpenFailed(e),
            Err(_) => Observed::Died(format!("observer exited with {:?}: {}", st.code(), err.lines().rev().take(3).collect::<Vec<_>>().join(" | "))),
        },
        Err(e) => Observed::Died(e),
    }
}

/// Build the power-loss directory from the crashed directory and the sync shadow.
pub fn build_power_dir(real: &Path, shadow: &Path, out: &Path) -> std::io::Result<()> {
    fn walk(real: &Path, rel: &Path, shadow: &Path, out: &Path) -> std::io::Result<()> {
        std::fs::create_dir_all(out.join(rel))?;
        for e in std::fs::read_dir(real.join(rel))? {
            let e = e?;
            let r = rel.join(e.file_name());
            if e.file_type()?.is_dir() {
                walk(real, &r, shadow, out)?;
            } else {
                let len = e.metadata()?.len() as usize;
                let mut bytes = std::fs::read(shadow.join(&r)).unwrap_or_default();
                bytes.resize(len, 0);
                std::fs::write(out.join(&r), bytes)?;
            }
        }
        Ok(())
    }
    walk(real, Path::new(""), shadow, out)
}

pub fn read_acks(path: &Path) -> Vec<(usize, bool, u64, String)> {
    std::fs::read_to_string(path)
        .unwrap_or_default()
        .lines()
        .filter_map(|l| {
            let mut it = l.split(' ');
            Some((it.next()?.parse().ok()?, it.next()? == "ok", it.next()?.parse().ok()?, it.next().unwrap_or("").to_string()))
        })
        .collect()
}

pub fn read_refstates(path: &Path) -> Vec<RefState> {
    std::fs::read_to_string(path).unwrap_or_default().lines().filter_map(|l| serde_json::from_str(l).ok()).collect()
}

pub fn read_points(path: &Path) -> Vec<String> {
    std::fs::read_to_string(path).unwrap_or_default().lines().filter_map(|l| l.split(' ').nth(1).map(|s| s.to_string())).collect()
}

/// Candidate reference states for a crash after `acked` statements were acknowledged
/// (statement indices 0..acked-1): returns (index of the stable state, optional index of the
/// state containing the in-flight statement/transaction).
pub fn candidates(refs: &[RefState], acked: usize) -> (Option<usize>, Option<usize>) {
    // stable = last state with !in_txn_after among indices < acked
    let stable = (0..acked.min(refs.len())).rev().find(|i| !refs[*i].in_txn_after);
    // in flight: the next state outside a transaction after the stable point, provided it is reached
    // through the statement that was executing (index == acked) or through the open transaction
    let next = if acked < refs.len() {
        let in_txn_now = acked > 0 && refs[acked - 1].in_txn_after;
        if !in_txn_now {
            // autocommit statement (or BEGIN) in flight
            if !refs[acked].in_txn_after { Some(acked) } else { None }
        } else if refs[acked].kind == "COMMIT" {
            Some(acked)
        } else {
            None
        }
    } else {
        None
    };
    (stable, next)
}

pub fn obs_map_diff(a: &Obs, b: &Obs) -> Option<(String, String)> {
    diff_obs(a, b)
}

pub type Acks = Vec<(usize, bool, u64, String)>;

pub fn kinds_histogram(points: &[String]) -> BTreeMap<String, usize> {
    let mut m = BTreeMap::new();
    for p in points {
        *m.entry(p.clone()).or_insert(0) += 1;
    }
    m
}
