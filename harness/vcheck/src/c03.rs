//! C03 WAL replay applies exactly the longest valid frame prefix.
//!
//! G: histories over the public `Wal` API on a 4..8 page space, shaped like the calls the
//! database layer makes (`write_frame_with_file_id`, `write_frames_batch`,
//! `write_frames_batch_no_sync` + `sync`, `set_sync_mode`, `rotate_segment`, `truncate`,
//! the rotate / `replay_segments_to_storage` / `remove_closed_segments` checkpoint, and
//! drop-then-`Wal::open` followed by further appends), then the log is closed and a list of
//! faults is applied, one at a time, to a copy of the resulting segment files: none, cut the
//! file (frame boundaries +-1, header end +-1, interior offsets), xor one byte, zero-fill a
//! range (byte ranges, whole frames, to the end), append never-written zero bytes. One
//! segment per case additionally gets the systematic sweep (every boundary / header-end
//! cut +-1, one flip and one whole-frame zero-fill per frame).
//!
//! O: a model log kept beside the history (frames per segment in write order; `truncate`
//! empties it, the closed-segment checkpoint removes the closed segments). The segment files
//! left by the history must hold exactly the model's frames (parsed here from the documented
//! frame layout, not through TurDB). Under a fault a frame is *intact* iff all of its bytes
//! are still in the file and equal the bytes the history wrote; the expected replay is the
//! frames before the first non-intact frame in write order (segments ascending). `Wal::open`
//! + `Wal::recover` into a fresh `MmapStorage` (pre-filled with a base pattern, sometimes
//! smaller than the page space so that the grow path runs), `recover_for_file`,
//! `replay_segments_to_storage` and `read_page` must show exactly those frames: every page
//! holds its last image from the prefix, untouched pages keep the base pattern, the number
//! of applied frames is the prefix length, nothing panics.
//!
//! Gates (closed while the finding of the same name is open): `damage_in_nonfinal_segment`
//! -- faults pick the last segment that holds frames (appending zero bytes, which damages
//! nothing, may still hit any segment); `read_page_multi_segment_reopen` -- `read_page` is
//! not consulted on a handle that came from `Wal::open` while older segments held frames.

use std::collections::BTreeMap;
use std::path::{Path, PathBuf};
use std::sync::Arc;

use proptest::prelude::*;
use serde::{Deserialize, Serialize};
use turdb::storage::{MmapStorage, SyncMode, Wal};
use vcore::tmp::TempDir;
use vcore::{Check, Ctx, Outcome, Tier};

const PAGE: usize = 16384;
const HDR: usize = 32;
const FS: usize = HDR + PAGE;
const FILE_IDS: [u64; 4] = [0, 1, 2, 0xFFFF_FFFF];

// ------------------------------------------------------------------------------------ case

#[derive(Debug, Clone, Serialize, Deserialize, PartialEq, Eq, Hash)]
pub struct Fr {
    pub page: u8,
    pub file: u8,
    /// an all-zero page image (a legitimate frame whose page data is zero)
    pub zero: bool,
}

#[derive(Debug, Clone, Serialize, Deserialize, PartialEq, Eq, Hash)]
pub enum Op {
    Write(Fr),
    Batch { frames: Vec<Fr>, no_sync: bool },
    Sync,
    Rotate,
    Truncate,
    /// SharedDatabase::checkpoint: rotate, replay the closed segments, remove them
    CheckpointClosed,
    Reopen,
    /// 0 = FULL, 1 = NORMAL, 2 = OFF
    Mode(u8),
}

#[derive(Debug, Clone, Copy, Serialize, Deserialize, PartialEq, Eq, Hash)]
pub enum Anchor {
    Boundary,
    HeaderEnd,
    /// byte `sel % 32` of the frame header
    Header(u8),
    Interior(u16),
}

#[derive(Debug, Clone, Copy, Serialize, Deserialize, PartialEq, Eq, Hash)]
pub struct Pos {
    pub frame: u16,
    pub anchor: Anchor,
    pub delta: i8,
}

#[derive(Debug, Clone, Copy, Serialize, Deserialize, PartialEq, Eq, Hash)]
pub enum ZLen {
    Bytes(u16),
    Frames(u8),
    ToEnd,
}

#[derive(Debug, Clone, Copy, Serialize, Deserialize, PartialEq, Eq, Hash)]
pub enum SegSel {
    /// the last segment that holds frames (never followed by a non-empty segment)
    LastNonEmpty,
    Any(u16),
}

#[derive(Debug, Clone, Copy, Serialize, Deserialize, PartialEq, Eq, Hash)]
pub enum Fault {
    None,
    Cut { seg: SegSel, at: Pos },
    Flip { seg: SegSel, at: Pos, mask: u8 },
    Zero { seg: SegSel, from: Pos, len: ZLen },
    ZeroExtend { seg: SegSel, len: ZLen },
}

#[derive(Debug, Clone, Serialize, Deserialize)]
pub struct Case {
    /// page space 4..=8
    pub pages: u8,
    /// page count of the fresh storage recovered into (1..=pages)
    pub fresh: u8,
    pub ops: Vec<Op>,
    pub faults: Vec<Fault>,
    /// segment that gets the systematic sweep
    pub sweep: Option<SegSel>,
    pub sweep_flip: (u16, u8),
    /// consult `read_page` on a handle obtained from `Wal::open` even when segments older
    /// than the newest one held frames at that moment
    pub rp_multi: bool,
}

pub struct C03 {
    pub ctx: Option<Arc<Ctx>>,
}

// ----------------------------------------------------------------------------------- model

#[derive(Debug, Clone, PartialEq, Eq)]
struct MFrame {
    /// 1-based global write number
    w: u32,
    page: u32,
    file: u64,
    data: Arc<Vec<u8>>,
}

#[derive(Default, Clone)]
struct MSeg {
    frames: Vec<MFrame>,
    appended_after_reopen: bool,
    appended_after_truncate: bool,
}

struct Model {
    segs: BTreeMap<u64, MSeg>,
    cur: u64,
    closed: Vec<u64>,
    mode: u8,
    /// frames may sit in the writer's buffer (not yet in the file)
    buffered: bool,
    next_w: u32,
    /// current segment was non-empty when the log was reopened / truncated and has not been
    /// appended to since
    pending_reopen: bool,
    pending_truncate: bool,
    strict_reopen_append: bool,
    strict_truncate_append: bool,
    /// every image ever written, to name what a wrong page holds
    all_written: Vec<MFrame>,
}

fn page_image(w: u32, page: u8, file: u8, zero: bool) -> Vec<u8> {
    let mut d = vec![0u8; PAGE];
    if zero {
        return d;
    }
    let mut x = vcore::splitmix(w as u64 ^ 0xC03C_03C0_3C03);
    for chunk in d.chunks_mut(8) {
        x = vcore::splitmix(x);
        chunk.copy_from_slice(&x.to_le_bytes());
    }
    d[0..4].copy_from_slice(&w.to_le_bytes());
    d[4] = page;
    d[5] = file;
    d[6] = 0xA5;
    d
}

fn base_image(p: u32) -> Vec<u8> {
    vec![0xB0 | (p as u8 & 0x0F); PAGE]
}

impl Model {
    fn new() -> Model {
        let mut segs = BTreeMap::new();
        segs.insert(1, MSeg::default());
        Model {
            segs,
            cur: 1,
            closed: vec![],
            mode: 0,
            buffered: false,
            next_w: 1,
            pending_reopen: false,
            pending_truncate: false,
            strict_reopen_append: false,
            strict_truncate_append: false,
            all_written: vec![],
        }
    }
    fn mk(&mut self, f: &Fr, pages: u8) -> MFrame {
        let w = self.next_w;
        self.next_w += 1;
        let page = (f.page % pages) as u32;
        let fi = (f.file as usize) % FILE_IDS.len();
        let m = MFrame { w, page, file: FILE_IDS[fi], data: Arc::new(page_image(w, page as u8, fi as u8, f.zero)) };
        self.all_written.push(m.clone());
        m
    }
    fn append(&mut self, m: MFrame) {
        let (pr, pt) = (self.pending_reopen, self.pending_truncate);
        let s = self.segs.get_mut(&self.cur).expect("current segment in model");
        if pr {
            s.appended_after_reopen = true;
            self.strict_reopen_append = true;
        }
        if pt {
            s.appended_after_truncate = true;
            self.strict_truncate_append = true;
        }
        self.pending_reopen = false;
        self.pending_truncate = false;
        s.frames.push(m);
    }
    fn log(&self) -> Vec<(u64, usize, &MFrame)> {
        let mut v = vec![];
        for (s, seg) in &self.segs {
            for (i, f) in seg.frames.iter().enumerate() {
                v.push((*s, i, f));
            }
        }
        v
    }
}

/// Storage expected after replaying `frames` (already filtered) over the base pattern.
fn expected_pages<'a>(frames: impl Iterator<Item = &'a MFrame>) -> BTreeMap<u32, &'a MFrame> {
    let mut m = BTreeMap::new();
    for f in frames {
        m.insert(f.page, f);
    }
    m
}

// ------------------------------------------------------------------------- file-level view

/// (segment number, bytes) of every `wal.NNNNNN` file, ascending.
fn read_segments(dir: &Path) -> Vec<(u64, Vec<u8>)> {
    let mut v = vec![];
    if let Ok(rd) = std::fs::read_dir(dir) {
        for e in rd.flatten() {
            let name = e.file_name().to_string_lossy().to_string();
            if name.len() == 10 && name.starts_with("wal.") {
                if let Ok(n) = name[4..].parse::<u64>() {
                    v.push((n, std::fs::read(e.path()).unwrap_or_default()));
                }
            }
        }
    }
    v.sort_by_key(|x| x.0);
    v
}

fn seg_path(dir: &Path, n: u64) -> PathBuf {
    dir.join(format!("wal.{:06}", n))
}

struct Parsed {
    file: u64,
    page: u32,
}

/// Header fields by the documented layout (file_id u64, page_no u32, db_size u32, salts, checksum; little endian).
fn parse_header(b: &[u8]) -> Parsed {
    Parsed {
        file: u64::from_le_bytes(b[0..8].try_into().unwrap()),
        page: u32::from_le_bytes(b[8..12].try_into().unwrap()),
    }
}

fn describe_image(img: &[u8], all: &[MFrame]) -> String {
    if let Some(f) = all.iter().find(|f| f.data.as_slice() == img) {
        if img.iter().all(|b| *b == 0) {
            return format!("an all-zero image (write #{} wrote one for page {} file {})", f.w, f.page, f.file);
        }
        return format!("the image of write #{} (page {} file {})", f.w, f.page, f.file);
    }
    if img.iter().all(|b| *b == 0) {
        return "all zero bytes (no such image was written)".into();
    }
    if img.iter().all(|b| *b == img[0]) && img[0] & 0xF0 == 0xB0 {
        return format!("the base pattern of page {}", img[0] & 0x0F);
    }
    "bytes that match no written image".into()
}

// ---------------------------------------------------------------------------- the check

struct Fail {
    sig: String,
    detail: String,
}

fn hist_feature(seg: Option<&MSeg>) -> &'static str {
    match seg {
        Some(s) if s.appended_after_truncate => "truncate_then_append",
        Some(s) if s.appended_after_reopen => "reopen_then_append",
        _ => "plain",
    }
}

/// The files must hold exactly the model's frames.
fn check_layout(model: &Model, files: &[(u64, Vec<u8>)]) -> Result<(), Fail> {
    for (n, bytes) in files {
        let mseg = model.segs.get(n);
        let feat = hist_feature(mseg);
        let empty = MSeg::default();
        let want = &mseg.unwrap_or(&empty).frames;
        if bytes.len() % FS != 0 {
            return Err(Fail {
                sig: format!("C03|log_layout|partial_frame|{}", feat),
                detail: format!("segment {} is {} bytes, not a multiple of the frame size {} ({} frames were written to it)", n, bytes.len(), FS, want.len()),
            });
        }
        let have = bytes.len() / FS;
        for i in 0..have.min(want.len()) {
            let fb = &bytes[i * FS..(i + 1) * FS];
            let h = parse_header(fb);
            let w = &want[i];
            if h.file != w.file || h.page != w.page || fb[HDR..] != w.data[..] {
                let kind = if fb.iter().all(|b| *b == 0) { "unwritten_bytes_in_log" } else { "frame_overwritten" };
                return Err(Fail {
                    sig: format!("C03|log_layout|{}|{}", kind, feat),
                    detail: format!(
                        "segment {} frame {} should be write #{} (page {} file {}) but the file holds header page {} file {} with {}; segment has {} frames on disk, {} were written",
                        n, i, w.w, w.page, w.file, h.page, h.file, describe_image(&fb[HDR..], &model.all_written), have, want.len()
                    ),
                });
            }
        }
        if have < want.len() {
            return Err(Fail {
                sig: format!("C03|log_layout|frames_missing|{}", feat),
                detail: format!("segment {} holds {} frames on disk but {} were written to it since the last truncate (first missing: write #{})", n, have, want.len(), want[have].w),
            });
        }
        if have > want.len() {
            let fb = &bytes[want.len() * FS..(want.len() + 1) * FS];
            let h = parse_header(fb);
            let kind = if fb.iter().all(|b| *b == 0) { "unwritten_bytes_in_log" } else { "stale_frames" };
            return Err(Fail {
                sig: format!("C03|log_layout|{}|{}", kind, if mseg.is_none() { "removed_segment" } else { feat }),
                detail: format!(
                    "segment {} holds {} frames on disk but the log has {} there; frame {} has header page {} file {} with {}",
                    n, have, want.len(), want.len(), h.page, h.file, describe_image(&fb[HDR..], &model.all_written)
                ),
            });
        }
    }
    for (n, s) in &model.segs {
        if !s.frames.is_empty() && !files.iter().any(|(m, _)| m == n) {
            return Err(Fail {
                sig: format!("C03|log_layout|segment_missing|{}", hist_feature(Some(s))),
                detail: format!("segment {} with {} written frames does not exist", n, s.frames.len()),
            });
        }
    }
    Ok(())
}

/// A storage of `fresh` pages holding the base pattern. Creating and unmapping a file
/// mapping per recovery dominated the run time, so the previous storage is reused (pages
/// reset) unless a replay grew it.
fn fresh_storage<'a>(slot: &'a mut Option<MmapStorage>, path: &Path, fresh: u8) -> &'a mut MmapStorage {
    if slot.as_ref().map(|s| s.page_count() != fresh as u32).unwrap_or(true) {
        *slot = None;
        *slot = Some(MmapStorage::create(path, fresh as u32).expect("create scratch storage"));
    }
    let st = slot.as_mut().unwrap();
    for p in 0..fresh as u32 {
        st.page_mut(p).expect("scratch page").copy_from_slice(&base_image(p));
    }
    st
}

/// Compare a recovered storage with the frames that should have been applied.
#[allow(clippy::too_many_arguments)]
fn compare_storage(
    api: &str,
    st: &MmapStorage,
    (pages, fresh): (u8, u8),
    applied: &[&MFrame],
    beyond: &[&MFrame],
    all: &[MFrame],
    tag: &str,
    ctxt: &str,
) -> Result<(), Fail> {
    let exp = expected_pages(applied.iter().copied());
    let pages = pages as u32;
    let fresh = fresh as u32;
    if st.page_count() > pages.max(fresh) {
        return Err(Fail {
            sig: format!("C03|{}|storage_grown_past_page_space|{}", api, tag),
            detail: format!("{}: storage has {} pages after replay; every written frame has page_no < {} and db_size = {}", ctxt, st.page_count(), pages, pages),
        });
    }
    for p in 0..pages {
        let got: Option<&[u8]> = if p < st.page_count() { st.page(p).ok() } else { None };
        let want: Option<Vec<u8>> = match exp.get(&p) {
            Some(f) => Some(f.data.as_ref().clone()),
            None if p < fresh => Some(base_image(p)),
            None if p < st.page_count() => Some(vec![0u8; PAGE]),
            None => None,
        };
        match (got, want) {
            (None, None) => {}
            (Some(g), Some(w)) if g == w.as_slice() => {}
            (g, w) => {
                let untouched = |g: &[u8]| if p < fresh { g == base_image(p).as_slice() } else { g.iter().all(|b| *b == 0) };
                let kind = match (g, exp.get(&p)) {
                    (None, _) => "page_missing",
                    (Some(g), e) => {
                        if beyond.iter().any(|f| f.page == p && f.data.as_slice() == g) {
                            "frame_beyond_valid_prefix_applied"
                        } else if e.is_some() && untouched(g) {
                            "valid_frame_not_applied"
                        } else if e.is_some() && applied.iter().any(|f| f.page == p && f.data.as_slice() == g) {
                            "older_image_wins"
                        } else if g.iter().all(|b| *b == 0) {
                            "never_written_bytes_replayed"
                        } else {
                            "wrong_image"
                        }
                    }
                };
                let gs = match g {
                    Some(g) => describe_image(g, all),
                    None => format!("nothing (storage has {} pages)", st.page_count()),
                };
                let ws = match (&w, exp.get(&p)) {
                    (_, Some(f)) => format!("the image of write #{}", f.w),
                    (Some(_), None) => "the untouched base".to_string(),
                    _ => "no page".into(),
                };
                return Err(Fail {
                    sig: format!("C03|{}|{}|{}", api, kind, tag),
                    detail: format!("{}: page {} should hold {} but holds {}; valid prefix = {} frames [{}], frames after it = {}", ctxt, p, ws, gs, applied.len(), applied.iter().map(|f| format!("#{}:p{}", f.w, f.page)).collect::<Vec<_>>().join(" "), beyond.len()),
                });
            }
        }
    }
    Ok(())
}

fn resolve(pos: &Pos, n: usize, len: usize) -> usize {
    let base = match pos.anchor {
        Anchor::Boundary => vcore::idx(pos.frame, n + 1) * FS,
        Anchor::HeaderEnd => {
            if n == 0 {
                0
            } else {
                vcore::idx(pos.frame, n) * FS + HDR
            }
        }
        Anchor::Header(sel) => {
            if n == 0 {
                0
            } else {
                vcore::idx(pos.frame, n) * FS + (sel as usize % HDR)
            }
        }
        Anchor::Interior(sel) => {
            if n == 0 {
                0
            } else {
                vcore::idx(pos.frame, n) * FS + vcore::idx(sel, FS)
            }
        }
    };
    let o = base as i64 + pos.delta.clamp(-1, 1) as i64;
    o.clamp(0, len as i64) as usize
}

fn zlen(l: &ZLen, from: usize, len: usize) -> usize {
    match l {
        ZLen::Bytes(b) => 1 + (*b as usize % 4096),
        ZLen::Frames(k) => (1 + (*k as usize % 3)) * FS,
        ZLen::ToEnd => len.saturating_sub(from).max(1),
    }
}

fn fault_kind(f: &Fault) -> &'static str {
    match f {
        Fault::None => "none",
        Fault::Cut { .. } => "cut",
        Fault::Flip { .. } => "flip",
        Fault::Zero { .. } => "zero_fill",
        Fault::ZeroExtend { .. } => "zero_extend",
    }
}

/// Concrete fault on concrete bytes: (segment index into `files`, new bytes, description)
fn apply_fault(f: &Fault, files: &[(u64, Vec<u8>)]) -> Option<(usize, Vec<u8>, String)> {
    let pick = |s: &SegSel| -> Option<usize> {
        if files.is_empty() {
            return None;
        }
        match s {
            SegSel::LastNonEmpty => files.iter().rposition(|(_, b)| b.len() >= FS).or(Some(files.len() - 1)),
            SegSel::Any(sel) => Some(vcore::idx(*sel, files.len())),
        }
    };
    match f {
        Fault::None => None,
        Fault::Cut { seg, at } => {
            let si = pick(seg)?;
            let b = &files[si].1;
            let o = resolve(at, b.len() / FS, b.len());
            Some((si, b[..o].to_vec(), format!("cut segment {} ({} bytes) at offset {} (frame {} + {})", files[si].0, b.len(), o, o / FS, o % FS)))
        }
        Fault::Flip { seg, at, mask } => {
            let si = pick(seg)?;
            let mut b = files[si].1.clone();
            if b.is_empty() {
                return None;
            }
            let o = resolve(at, b.len() / FS, b.len()).min(b.len() - 1);
            let m = if *mask == 0 { 1 } else { *mask };
            b[o] ^= m;
            Some((si, b, format!("xor byte {} of segment {} (frame {} + {}) with {:#04x}", o, files[si].0, o / FS, o % FS, m)))
        }
        Fault::Zero { seg, from, len } => {
            let si = pick(seg)?;
            let mut b = files[si].1.clone();
            if b.is_empty() {
                return None;
            }
            let o = resolve(from, b.len() / FS, b.len()).min(b.len() - 1);
            let l = zlen(len, o, b.len());
            let end = (o + l).min(b.len());
            for x in &mut b[o..end] {
                *x = 0;
            }
            Some((si, b, format!("zero-fill bytes {}..{} of segment {} (frame {} + {} .. frame {} + {})", o, end, files[si].0, o / FS, o % FS, end / FS, end % FS)))
        }
        Fault::ZeroExtend { seg, len } => {
            let si = pick(seg)?;
            let mut b = files[si].1.clone();
            let l = zlen(len, b.len(), b.len());
            let old = b.len();
            b.resize(old + l, 0);
            Some((si, b, format!("append {} never-written zero bytes to segment {} ({} bytes)", l, files[si].0, old)))
        }
    }
}

struct FaultEval<'a> {
    /// frames of the valid prefix / the rest, in write order
    applied: Vec<&'a MFrame>,
    beyond: Vec<&'a MFrame>,
    /// where the first damaged frame sits
    place: &'static str,
    lands_in_nonfinal_frame: bool,
}

fn eval_fault<'a>(model: &'a Model, files: &[(u64, Vec<u8>)], hit: Option<(usize, &[u8])>) -> FaultEval<'a> {
    let log = model.log();
    let mut first_bad: Option<usize> = None;
    if let Some((si, nb)) = hit {
        let (segno, ob) = (&files[si].0, &files[si].1);
        for (gi, (s, i, _)) in log.iter().enumerate() {
            if s == segno {
                let (a, e) = (i * FS, (i + 1) * FS);
                let intact = nb.len() >= e && nb[a..e] == ob[a..e];
                if !intact {
                    first_bad = Some(gi);
                    break;
                }
            }
        }
    }
    let cut = first_bad.unwrap_or(log.len());
    let applied: Vec<&MFrame> = log[..cut].iter().map(|x| x.2).collect();
    let beyond: Vec<&MFrame> = log[cut..].iter().map(|x| x.2).collect();
    let (place, nonfinal_frame) = match first_bad {
        None => ("no_damage", false),
        Some(gi) => {
            let s = log[gi].0;
            let later_seg_has_frames = log.iter().any(|x| x.0 > s);
            (if later_seg_has_frames { "nonfinal_segment" } else { "final_segment" }, gi + 1 < log.len())
        }
    };
    FaultEval { applied, beyond, place, lands_in_nonfinal_frame: nonfinal_frame }
}

impl C03 {
    fn count(&self, n: u64) {
        if let Some(c) = &self.ctx {
            c.count_eval(n);
        }
    }
}

fn do_read_page_checks(wal: &Wal, visible: &[&MFrame], pages: u8, all: &[MFrame], tag: &str, ctxt: &str) -> Result<(), Fail> {
    let mut last: BTreeMap<(u64, u32), &MFrame> = BTreeMap::new();
    for f in visible {
        last.insert((f.file, f.page), f);
    }
    // ask in write order of the expected answers (read_page remaps the segment file whenever
    // two consecutive answers live in different segments), absent keys last
    let mut keys: Vec<(u32, u64, u32)> = vec![];
    for file in FILE_IDS {
        for p in 0..pages as u32 {
            keys.push((last.get(&(file, p)).map(|f| f.w).unwrap_or(u32::MAX), file, p));
        }
    }
    keys.sort();
    {
        for (_, file, p) in keys {
            let want = last.get(&(file, p));
            match (wal.read_page(file, p), want) {
                (Ok(None), None) => {}
                (Ok(Some(d)), Some(w)) if d.as_slice() == w.data.as_slice() => {}
                (Ok(Some(d)), w) => {
                    let kind = if w.is_none() { "frame_outside_log_visible" } else { "wrong_image" };
                    return Err(Fail {
                        sig: format!("C03|read_page|{}|{}", kind, tag),
                        detail: format!(
                            "{}: read_page(file {}, page {}) returned {} but the log's last valid image is {}",
                            ctxt,
                            file,
                            p,
                            describe_image(&d, all),
                            w.map(|w| format!("write #{}", w.w)).unwrap_or("none".into())
                        ),
                    });
                }
                (Ok(None), Some(w)) => {
                    return Err(Fail {
                        sig: format!("C03|read_page|valid_frame_hidden|{}", tag),
                        detail: format!("{}: read_page(file {}, page {}) returned None but write #{} is a valid frame of the log", ctxt, file, p, w.w),
                    });
                }
                (Err(e), w) => {
                    return Err(Fail {
                        sig: format!("C03|read_page|error|{}", tag),
                        detail: format!("{}: read_page(file {}, page {}) failed: {:#}; expected {}", ctxt, file, p, e, w.map(|w| format!("write #{}", w.w)).unwrap_or("None".into())),
                    });
                }
            }
        }
    }
    Ok(())
}

impl Check for C03 {
    type Case = Case;

    fn run(&self, case: &Case) -> Outcome {
        let mut out = Outcome::ok();
        let pages = case.pages.clamp(4, 8);
        let case = &Case { pages, fresh: case.fresh.clamp(1, pages), ..case.clone() };
        let tmp = TempDir::new("c03");
        let wal_dir = tmp.join("wal");
        let st_path = tmp.join("s.tbd");
        let mut model = Model::new();
        let mut fail: Option<Fail> = None;
        let mut slot: Option<MmapStorage> = None;

        // ------------------------------------------------------------------ history
        let mut wal = match Wal::create(&wal_dir) {
            Ok(w) => Some(w),
            Err(e) => {
                out.set_fail("C03|history|create_error", format!("{:#}", e));
                return out;
            }
        };
        let mut n_reopen = 0;
        let mut n_trunc = 0;
        let mut n_rot = 0;
        let mut fid_cycle = 0usize;
        // the live handle came from Wal::open while older segments held frames
        let mut handle_multi = false;
        'hist: for (oi, op) in case.ops.iter().enumerate() {
            let w = wal.as_ref().expect("open wal");
            let opname;
            let r: eyre::Result<()> = match op {
                Op::Write(f) => {
                    opname = "write_frame_with_file_id";
                    let m = model.mk(f, pages);
                    let r = w.write_frame_with_file_id(m.page, pages as u32, &m.data, m.file);
                    model.append(m);
                    // FULL flushes the writer (this frame and anything buffered before it)
                    model.buffered = model.mode != 0;
                    r
                }
                Op::Batch { frames, no_sync } => {
                    opname = if *no_sync { "write_frames_batch_no_sync" } else { "write_frames_batch" };
                    let ms: Vec<MFrame> = frames.iter().map(|f| model.mk(f, pages)).collect();
                    let it = ms.iter().map(|m| (m.page, pages as u32, m.data.as_slice(), m.file));
                    let r = if *no_sync { w.write_frames_batch_no_sync(it) } else { w.write_frames_batch(it) };
                    let any = !ms.is_empty();
                    for m in ms {
                        model.append(m);
                    }
                    if any {
                        model.buffered = *no_sync || model.mode != 0;
                    }
                    r
                }
                Op::Sync => {
                    opname = "sync";
                    model.buffered = false;
                    w.sync()
                }
                Op::Rotate => {
                    opname = "rotate_segment";
                    n_rot += 1;
                    let r = w.rotate_segment();
                    model.closed.push(model.cur);
                    model.cur += 1;
                    model.segs.insert(model.cur, MSeg::default());
                    model.buffered = false;
                    model.pending_reopen = false;
                    model.pending_truncate = false;
                    r
                }
                Op::Truncate => {
                    opname = "truncate";
                    n_trunc += 1;
                    let r = w.truncate();
                    let cur = model.cur;
                    let cur_had = !model.segs[&cur].frames.is_empty();
                    model.segs.retain(|k, _| *k == cur);
                    let s = model.segs.get_mut(&cur).unwrap();
                    s.frames.clear();
                    model.buffered = false;
                    model.pending_truncate = model.pending_truncate || cur_had;
                    model.pending_reopen = false;
                    handle_multi = false;
                    r
                }
                Op::CheckpointClosed => {
                    opname = "checkpoint_closed_segments";
                    n_rot += 1;
                    let mut r = w.rotate_segment();
                    model.closed.push(model.cur);
                    model.cur += 1;
                    model.segs.insert(model.cur, MSeg::default());
                    model.buffered = false;
                    model.pending_reopen = false;
                    model.pending_truncate = false;
                    if r.is_ok() {
                        let closed = w.get_closed_segments();
                        // what the closed segments should replay for one file id
                        let fid = FILE_IDS[fid_cycle % FILE_IDS.len()];
                        fid_cycle += 1;
                        let frames: Vec<&MFrame> = model
                            .closed
                            .iter()
                            .filter_map(|n| model.segs.get(n))
                            .flat_map(|s| s.frames.iter())
                            .filter(|f| f.file == fid)
                            .collect();
                        let st = fresh_storage(&mut slot, &st_path, case.fresh);
                        match Wal::replay_segments_to_storage(&closed, st, fid) {
                            Ok(n) => {
                                let ctxt = format!("op {} checkpoint of closed segments {:?}, file id {}", oi, model.closed, fid);
                                if let Err(f) = compare_storage("replay_segments_to_storage", st, (pages, case.fresh), &frames, &[], &model.all_written, "checkpoint", &ctxt) {
                                    fail = Some(f);
                                    break 'hist;
                                }
                                if n as usize != frames.len() {
                                    fail = Some(Fail {
                                        sig: "C03|replay_segments_to_storage|frame_count|checkpoint".into(),
                                        detail: format!("{}: {} frames applied, the closed segments hold {} frames of that file", ctxt, n, frames.len()),
                                    });
                                    break 'hist;
                                }
                            }
                            Err(e) => {
                                fail = Some(Fail { sig: "C03|replay_segments_to_storage|error|checkpoint".into(), detail: format!("op {}: {:#}", oi, e) });
                                break 'hist;
                            }
                        }
                        r = w.remove_closed_segments(&closed);
                        for n in std::mem::take(&mut model.closed) {
                            model.segs.remove(&n);
                        }
                    }
                    r
                }
                Op::Reopen => {
                    opname = "reopen";
                    n_reopen += 1;
                    wal = None; // drop: the buffered writer flushes
                    model.buffered = false;
                    model.mode = 0;
                    model.closed.clear();
                    model.pending_reopen = !model.segs[&model.cur].frames.is_empty();
                    // (a pending truncate stays pending: the cursor question is moot after reopen,
                    // but the segment was empty then, so reopen-then-append is the trivial kind)
                    model.pending_truncate = false;
                    handle_multi = model.segs.iter().any(|(k, s)| *k != model.cur && !s.frames.is_empty());
                    match Wal::open(&wal_dir) {
                        Ok(w2) => {
                            wal = Some(w2);
                            Ok(())
                        }
                        Err(e) => Err(e),
                    }
                }
                Op::Mode(m) => {
                    opname = "set_sync_mode";
                    let m = m % 3;
                    w.set_sync_mode(match m {
                        0 => SyncMode::Full,
                        1 => SyncMode::Normal,
                        _ => SyncMode::Off,
                    });
                    model.mode = m;
                    Ok(())
                }
            };
            if let Err(e) = r {
                fail = Some(Fail { sig: format!("C03|history|op_error|{}", opname), detail: format!("op {} {:?} failed: {:#}", oi, op, e) });
                break;
            }
            // read_page on the live handle, when every written frame has reached the file; not
            // after every single write (each call after a write maps the segment file again)
            let rp_point = !matches!(op, Op::Write(_) | Op::Batch { .. } | Op::Mode(_)) || oi + 1 == case.ops.len() || oi % 4 == 3;
            if rp_point && !model.buffered && (case.rp_multi || !handle_multi) {
                if let Some(w) = wal.as_ref() {
                    let vis: Vec<&MFrame> = model.log().into_iter().map(|x| x.2).collect();
                    let tag = if n_reopen > 0 { "live_after_reopen" } else { "live" };
                    if let Err(f) = do_read_page_checks(w, &vis, pages, &model.all_written, tag, &format!("after op {} ({})", oi, opname)) {
                        fail = Some(f);
                        break;
                    }
                }
            }
        }
        drop(wal);

        let total_frames: usize = model.segs.values().map(|s| s.frames.len()).sum();
        let nonempty_segs = model.segs.values().filter(|s| !s.frames.is_empty()).count();
        out.add_class(match total_frames {
            0 => "final_frames=0",
            1..=3 => "final_frames=1..3",
            4..=10 => "final_frames=4..10",
            _ => "final_frames>10",
        });
        out.add_class(format!("nonempty_segments={}", nonempty_segs.min(3)));
        if n_reopen > 0 {
            out.add_class("has_reopen");
        }
        if n_trunc > 0 {
            out.add_class("has_truncate");
        }
        if n_rot > 0 {
            out.add_class("has_rotate");
        }
        if model.strict_reopen_append {
            out.add_class("reopen_then_append(nonempty)");
        }
        if model.strict_truncate_append {
            out.add_class("truncate_then_append(nonempty)");
        }
        let mut nontrivial = model.strict_reopen_append || model.strict_truncate_append;

        if let Some(f) = fail {
            out.set_fail(f.sig, f.detail);
            return out;
        }

        // ------------------------------------------------------------------ the files
        let files = read_segments(&wal_dir);
        if let Err(f) = check_layout(&model, &files) {
            out.set_fail(f.sig, f.detail);
            return out;
        }

        // ------------------------------------------------------------------ faults
        let mut faults: Vec<Fault> = vec![Fault::None];
        faults.extend(case.faults.iter().copied());
        if let Some(sel) = &case.sweep {
            let si = match sel {
                SegSel::LastNonEmpty => files.iter().rposition(|(_, b)| b.len() >= FS),
                SegSel::Any(s) => {
                    if files.is_empty() {
                        None
                    } else {
                        Some(vcore::idx(*s, files.len()))
                    }
                }
            };
            if let Some(si) = si {
                let n = files[si].1.len() / FS;
                // frames swept: all when few, else first two, last two and two in the middle
                let mut fr: Vec<usize> = if n <= 6 { (0..n).collect() } else { vec![0, 1, n / 2 - 1, n / 2, n - 2, n - 1] };
                fr.dedup();
                // selectors that `resolve` maps back to frame i (of n, resp. n+1 boundaries)
                let selb = |i: usize| (((i << 16) + n) / (n + 1)) as u16;
                let self_ = |i: usize| (((i << 16) + n.max(1) - 1) / n.max(1)) as u16;
                let seg = match sel {
                    SegSel::LastNonEmpty => SegSel::LastNonEmpty,
                    SegSel::Any(s) => SegSel::Any(*s),
                };
                let mut bounds: Vec<usize> = fr.clone();
                bounds.push(n);
                for &i in &bounds {
                    for d in -1i8..=1 {
                        faults.push(Fault::Cut { seg, at: Pos { frame: selb(i), anchor: Anchor::Boundary, delta: d } });
                    }
                }
                for &i in &fr {
                    for d in -1i8..=1 {
                        faults.push(Fault::Cut { seg, at: Pos { frame: self_(i), anchor: Anchor::HeaderEnd, delta: d } });
                    }
                    faults.push(Fault::Flip { seg, at: Pos { frame: self_(i), anchor: Anchor::Interior(case.sweep_flip.0), delta: 0 }, mask: case.sweep_flip.1 });
                    faults.push(Fault::Flip { seg, at: Pos { frame: self_(i), anchor: Anchor::Header((case.sweep_flip.0 >> 3) as u8 ^ i as u8), delta: 0 }, mask: case.sweep_flip.1 });
                    faults.push(Fault::Zero { seg, from: Pos { frame: selb(i), anchor: Anchor::Boundary, delta: 0 }, len: ZLen::Frames(0) });
                }
                out.add_class("sweep");
            }
        }

        let fdir = tmp.join("f");
        std::fs::create_dir_all(&fdir).expect("fault dir");
        for (n, b) in &files {
            std::fs::write(seg_path(&fdir, *n), b).expect("write segment copy");
        }
        let all_paths: Vec<PathBuf> = files.iter().map(|(n, _)| seg_path(&fdir, *n)).collect();
        let hist_tag = if model.strict_truncate_append {
            "truncate_then_append"
        } else if model.strict_reopen_append {
            "reopen_then_append"
        } else {
            "plain"
        };

        let mut evals = 0u64;
        for (fi, fault) in faults.iter().enumerate() {
            let hit = apply_fault(fault, &files);
            if hit.is_none() && !matches!(fault, Fault::None) {
                out.add_class("fault_not_applicable");
                continue;
            }
            let ev = eval_fault(&model, &files, hit.as_ref().map(|h| (h.0, h.1.as_slice())));
            let desc = hit.as_ref().map(|h| h.2.clone()).unwrap_or_else(|| "no fault".into());
            if let Some((si, nb, _)) = &hit {
                std::fs::write(seg_path(&fdir, files[*si].0), nb).expect("write faulted segment");
            }
            evals += 1;
            let kind = fault_kind(fault);
            let tag = if matches!(fault, Fault::None) { format!("none|{}", hist_tag) } else { format!("{}|{}", kind, ev.place) };
            out.add_class(format!("fault:{}:{}", kind, ev.place));
            if ev.lands_in_nonfinal_frame {
                nontrivial = true;
                out.add_class("fault_in_nonfinal_frame");
            }
            if !ev.beyond.is_empty() {
                out.add_class("prefix_shorter_than_log");
            }
            let ctxt = format!("fault {} [{}]", fi, desc);
            // a storage smaller than the page space (grow path) cannot be reused once grown and
            // mapping files is what costs here: only the first three faults of a case use it
            let fresh_here = if fi < 3 { case.fresh } else { pages };

            let res: Result<(), Fail> = (|| {
                let wal = Wal::open(&fdir).map_err(|e| Fail { sig: format!("C03|open|error|{}", tag), detail: format!("{}: Wal::open failed: {:#}", ctxt, e) })?;
                // recover: every file id into one page space
                let st = fresh_storage(&mut slot, &st_path, fresh_here);
                let n = wal.recover(st).map_err(|e| Fail { sig: format!("C03|recover|error|{}", tag), detail: format!("{}: {:#}", ctxt, e) })?;
                compare_storage("recover", st, (pages, fresh_here), &ev.applied, &ev.beyond, &model.all_written, &tag, &ctxt)?;
                if n as usize != ev.applied.len() {
                    return Err(Fail {
                        sig: format!("C03|recover|frame_count|{}", tag),
                        detail: format!("{}: recover reports {} frames applied, the longest valid prefix has {} (log has {})", ctxt, n, ev.applied.len(), ev.applied.len() + ev.beyond.len()),
                    });
                }
                // one file id per fault through recover_for_file or replay_segments_to_storage
                let fid = FILE_IDS[(fi / 2) % FILE_IDS.len()];
                let app: Vec<&MFrame> = ev.applied.iter().copied().filter(|f| f.file == fid).collect();
                let bey: Vec<&MFrame> = ev.beyond.iter().copied().filter(|f| f.file == fid).collect();
                let st = fresh_storage(&mut slot, &st_path, fresh_here);
                let (api, r) = if fi % 2 == 0 { ("recover_for_file", wal.recover_for_file(st, fid)) } else { ("replay_segments_to_storage", Wal::replay_segments_to_storage(&all_paths, st, fid)) };
                let n = r.map_err(|e| Fail { sig: format!("C03|{}|error|{}", api, tag), detail: format!("{}: {:#}", ctxt, e) })?;
                let c2 = format!("{} file id {}", ctxt, fid);
                compare_storage(api, st, (pages, fresh_here), &app, &bey, &model.all_written, &tag, &c2)?;
                if n as usize != app.len() {
                    return Err(Fail {
                        sig: format!("C03|{}|frame_count|{}", api, tag),
                        detail: format!("{}: {} frames applied, the valid prefix holds {} frames of that file", c2, n, app.len()),
                    });
                }
                // read_page on the reopened handle
                let multi = model.segs.iter().any(|(k, s)| *k != model.cur && !s.frames.is_empty());
                if (fi % 16 == 5 || matches!(fault, Fault::None)) && (case.rp_multi || !multi) {
                    do_read_page_checks(&wal, &ev.applied, pages, &model.all_written, &format!("reopened|{}", tag), &ctxt)?;
                }
                Ok(())
            })();
            // restore the segment for the next fault
            if let Some((si, _, _)) = &hit {
                std::fs::write(seg_path(&fdir, files[*si].0), &files[*si].1).expect("restore segment");
            }
            if let Err(f) = res {
                out.set_fail(f.sig, f.detail);
                break;
            }
        }
        self.count(evals.saturating_sub(1));
        if nontrivial {
            out.nontrivial = Some(vcore::hash_of(&(&case.ops, &case.faults, &case.sweep, case.pages, case.fresh)));
        }
        out
    }
}

// -------------------------------------------------------------------------------- strategy

#[derive(Clone, Copy)]
pub struct Gates {
    /// faults may damage a frame of a segment that is followed by a non-empty segment
    pub damage_in_nonfinal_segment: bool,
    /// read_page is consulted on reopened handles of multi-segment logs
    pub read_page_multi_segment_reopen: bool,
}

fn fr_strategy() -> impl Strategy<Value = Fr> {
    (0u8..8, prop_oneof![3 => Just(0u8), 2 => Just(1u8), 1 => Just(2u8), 1 => Just(3u8)], prop::bool::weighted(0.08)).prop_map(|(page, file, zero)| Fr { page, file, zero })
}

fn op_strategy() -> impl Strategy<Value = Op> {
    prop_oneof![
        10 => fr_strategy().prop_map(Op::Write),
        12 => (proptest::collection::vec(fr_strategy(), 1..5), any::<bool>()).prop_map(|(frames, no_sync)| Op::Batch { frames, no_sync }),
        4 => Just(Op::Sync),
        6 => Just(Op::Rotate),
        3 => Just(Op::Truncate),
        2 => Just(Op::CheckpointClosed),
        6 => Just(Op::Reopen),
        2 => (0u8..3).prop_map(Op::Mode),
    ]
}

fn pos_strategy() -> impl Strategy<Value = Pos> {
    (
        any::<u16>(),
        prop_oneof![3 => Just(Anchor::Boundary), 2 => Just(Anchor::HeaderEnd), 2 => any::<u8>().prop_map(Anchor::Header), 3 => any::<u16>().prop_map(Anchor::Interior)],
        -1i8..=1,
    )
        .prop_map(|(frame, anchor, delta)| Pos { frame, anchor, delta })
}

fn zlen_strategy() -> impl Strategy<Value = ZLen> {
    prop_oneof![3 => any::<u16>().prop_map(ZLen::Bytes), 3 => (0u8..3).prop_map(ZLen::Frames), 1 => Just(ZLen::ToEnd)]
}

fn seg_strategy(g: Gates) -> BoxedStrategy<SegSel> {
    if g.damage_in_nonfinal_segment {
        prop_oneof![1 => Just(SegSel::LastNonEmpty), 2 => any::<u16>().prop_map(SegSel::Any)].boxed()
    } else {
        Just(SegSel::LastNonEmpty).boxed()
    }
}

fn fault_strategy(g: Gates) -> impl Strategy<Value = Fault> {
    // appending zero bytes damages no frame, so it may hit any segment whatever the gate
    let any_seg = prop_oneof![1 => Just(SegSel::LastNonEmpty), 2 => any::<u16>().prop_map(SegSel::Any)];
    prop_oneof![
        4 => (seg_strategy(g), pos_strategy()).prop_map(|(seg, at)| Fault::Cut { seg, at }),
        3 => (seg_strategy(g), pos_strategy(), 1u8..=255).prop_map(|(seg, at, mask)| Fault::Flip { seg, at, mask }),
        3 => (seg_strategy(g), pos_strategy(), zlen_strategy()).prop_map(|(seg, from, len)| Fault::Zero { seg, from, len }),
        1 => (any_seg, zlen_strategy()).prop_map(|(seg, len)| Fault::ZeroExtend { seg, len }),
    ]
}

pub fn strategy(g: Gates, max_ops: usize) -> BoxedStrategy<Case> {
    let ops = prop_oneof![
        3 => proptest::collection::vec(op_strategy(), 1..=max_ops.min(14)),
        1 => proptest::collection::vec(op_strategy(), 1..=max_ops),
    ];
    (
        4u8..=8,
        any::<u16>(),
        ops,
        proptest::collection::vec(fault_strategy(g), 2..10),
        prop_oneof![2 => Just(None), 3 => seg_strategy(g).prop_map(Some)],
        (any::<u16>(), 1u8..=255),
    )
        .prop_map(move |(pages, fresh_sel, ops, faults, sweep, sweep_flip)| {
            // fresh storage: the full page space in 7 of 8 cases, else smaller (grow path; a grown storage cannot be reused)
            let fresh = if fresh_sel & 7 != 0 { pages } else { 1 + (vcore::idx(fresh_sel, pages as usize) as u8) };
            Case { pages, fresh, ops, faults, sweep, sweep_flip, rp_multi: g.read_page_multi_segment_reopen }
        })
        .boxed()
}

pub fn main(tier: Tier, replay: Option<String>) -> i32 {
    if let Some(p) = replay {
        return vcore::replay_file("C03", &C03 { ctx: None }, &p);
    }
    let ctx = Ctx::new("C03", tier, "fault_enumeration");
    ctx.set_rule(
        "proptest-generated histories (1..40 ops over write_frame_with_file_id / write_frames_batch(_no_sync) / sync / set_sync_mode / rotate_segment / truncate / \
         closed-segment checkpoint (rotate + replay_segments_to_storage + remove_closed_segments) / drop+Wal::open; 4..8 pages, 4 file ids, 8% all-zero page images), the log is then \
         closed and each of: no fault, 2..9 generated faults (cut / xor one byte / zero-fill bytes, whole frames or to the end / append zero bytes; anchored at frame boundaries +-1, \
         header ends +-1, header bytes and interior offsets) and, in 60% of cases, the systematic sweep of one segment (every boundary and header-end cut +-1, an interior flip, a header \
         flip and a whole-frame zero-fill per frame; all frames when <= 6, else first/middle/last pairs) is applied to a copy of the segment files and recovered. Each (history, fault) \
         pair is one evaluation. Non-trivial = the history appends to a non-empty segment after a reopen, or appends after truncating a non-empty segment, or some fault's first \
         damaged frame is not the last frame of the log; distinct by hash of (ops, faults, sweep, page space).",
    );
    ctx.assume("a frame counts as damaged iff its bytes in the faulted file differ from (or are cut short of) the bytes the history left there; an undetected CRC-64 collision (2^-64) is ignored");
    ctx.assume("histories end with a clean drop of the Wal (the writer flushes), so every written frame is in the file before the fault; loss of unflushed frames at a kill is C01/C02's subject");
    ctx.assume("read_page is only consulted on a live handle when no written frame can still sit in the writer's buffer (after sync or a FULL-mode write)");
    let gates = Gates {
        damage_in_nonfinal_segment: !ctx.gate_closed("damage_in_nonfinal_segment"),
        read_page_multi_segment_reopen: !ctx.gate_closed("read_page_multi_segment_reopen"),
    };
    let check = C03 { ctx: Some(ctx.clone()) };
    let cases = tier.pick(2_400, 60_000);
    vcore::drive(&ctx, &check, || strategy(gates, 40), cases, 16);
    ctx.finish()
}
