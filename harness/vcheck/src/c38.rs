//! C38 Concurrent commits log page images in commit order.
//!
//! G: a child process runs 2..3 cloned handles on real threads (this property needs the
//! whole engine, so the schedule is not owned); every thread commits generated small
//! transactions / autocommit statements on overlapping pages of one indexed table with
//! wal=ON, synchronous=FULL, barrier-synchronised per round. After all commits returned the
//! child dumps the live observation and ends with `_exit` (no close, no checkpoint).
//! O: reopening the directory as left (kill model: recovery replays the WAL over the data
//! files) must give exactly the live observation at quiescence — every page must end with
//! the image of its most recent committed version, and every page a committed transaction
//! touched (table, index, overflow) must be covered.
//! A single-thread variant of the same workload is run as well: there the expectation holds
//! deterministically, and a failure is attributed to "page not logged before commit returned".

use std::path::PathBuf;
use std::process::{Command, Stdio};
use std::sync::{Arc, Barrier};
use std::time::{Duration, Instant};

use proptest::prelude::*;
use proptest::strategy::ValueTree;
use proptest::test_runner::{Config, TestRunner};
use serde::{Deserialize, Serialize};
use serde_json::json;
use vcore::{Check, Ctx, Failure, Outcome, Tier};

use crate::crash::{observe, Observed};
use crate::hist::{ColSpec, IndexSpec, Ty};
use crate::refdb::MTable;
use crate::world::{obs, Db, Obs};

#[derive(Debug, Clone, Serialize, Deserialize)]
pub enum Stmt {
    Insert(u16, u8),
    Update(u16, u8),
    Delete(u16),
    /// BEGIN; two updates; COMMIT
    Txn(u16, u16, u8),
    BigText(u16),
}

#[derive(Debug, Clone, Serialize, Deserialize)]
pub struct Case {
    pub threads: u8,
    pub rounds: Vec<Vec<Stmt>>, // rounds[r][t] = statement of thread t in round r (indexing modulo)
    pub power: bool,
}

pub struct C38;

fn table() -> MTable {
    let col = |n: &str, ty: Ty, pk: bool| ColSpec { name: n.into(), ty, pk, unique: false, not_null: false, auto_inc: false, default: None, check: None, fk: None };
    MTable { ever_had_rows: false, name: "t".into(), cols: vec![col("id", Ty::Int, true), col("v", Ty::Int, false), col("w", Ty::Text, false)], indexes: vec![IndexSpec { name: "t_v".into(), cols: vec![1], unique: false }], rows: vec![], auto_hwm: 0 }
}

#[derive(Serialize, Deserialize)]
struct ChildArgs {
    case: Case,
    dbdir: PathBuf,
    obsfile: PathBuf,
    shadow: Option<PathBuf>,
}

#[derive(Serialize, Deserialize)]
struct Live {
    obs: Obs,
    commits: usize,
    overlapping: usize,
    errors: Vec<String>,
}

pub fn child_main(args_path: &str) -> ! {
    let args: ChildArgs = serde_json::from_str(&std::fs::read_to_string(args_path).expect("args")).expect("args json");
    if args.shadow.is_some() {
        turdb::verif::arm(0, Some(args.dbdir.clone()), args.shadow.clone(), None);
    }
    let db = turdb::Database::create(&args.dbdir).expect("create");
    for s in ["PRAGMA wal=ON", "PRAGMA synchronous=FULL", "CREATE TABLE t (id INT PRIMARY KEY, v INT, w TEXT)", "CREATE INDEX t_v ON t (v)"] {
        db.execute(s).expect("setup");
    }
    let n = args.case.threads.clamp(1, 3) as usize;
    // thread k owns ids k*1000 .. k*1000+999, interleaved in the key space by construction of the row keys
    for k in 0..n {
        for j in 0..6 {
            db.execute(&format!("INSERT INTO t VALUES ({}, {}, 'seed')", k * 1000 + j, j)).expect("seed");
        }
    }
    let barrier = Arc::new(Barrier::new(n));
    let spans: Arc<std::sync::Mutex<Vec<(usize, Instant, Instant)>>> = Arc::new(std::sync::Mutex::new(Vec::new()));
    let errors: Arc<std::sync::Mutex<Vec<String>>> = Arc::new(std::sync::Mutex::new(Vec::new()));
    let rounds = Arc::new(args.case.rounds.clone());
    let mut hs = Vec::new();
    for k in 0..n {
        let h = db.clone();
        let (barrier, spans, errors, rounds) = (barrier.clone(), spans.clone(), errors.clone(), rounds.clone());
        hs.push(std::thread::spawn(move || {
            for round in rounds.iter() {
                barrier.wait();
                if round.is_empty() {
                    continue;
                }
                let st = &round[k % round.len()];
                let base = (k * 1000) as u32;
                let sqls: Vec<String> = match st {
                    Stmt::Insert(i, v) => vec![format!("INSERT INTO t VALUES ({}, {}, 'i')", base + 10 + (*i as u32 % 900), v)],
                    Stmt::Update(i, v) => vec![format!("UPDATE t SET v = {} WHERE id = {}", v, base + (*i as u32 % 16))],
                    Stmt::Delete(i) => vec![format!("DELETE FROM t WHERE id = {}", base + 10 + (*i as u32 % 900))],
                    Stmt::Txn(a, b, v) => vec!["BEGIN".into(), format!("UPDATE t SET v = {} WHERE id = {}", v, base + (*a as u32 % 6)), format!("UPDATE t SET w = 'x{}' WHERE id = {}", v, base + (*b as u32 % 6)), "COMMIT".into()],
                    Stmt::BigText(i) => vec![format!("UPDATE t SET w = '{}' WHERE id = {}", "z".repeat(600 + (*i as usize % 300)), base + (*i as u32 % 6))],
                };
                let t0 = Instant::now();
                for s in &sqls {
                    if let Err(e) = h.execute(s) {
                        let m = e.to_string();
                        // duplicate keys / missing rows are expected outcomes of generated statements
                        if !(m.contains("already exists") || m.contains("constraint")) {
                            errors.lock().unwrap().push(format!("{} -> {}", s.chars().take(60).collect::<String>(), m.chars().take(120).collect::<String>()));
                        }
                        if sqls.len() > 1 {
                            let _ = h.execute("ROLLBACK");
                        }
                        break;
                    }
                }
                spans.lock().unwrap().push((k, t0, Instant::now()));
            }
        }));
    }
    for h in hs {
        let _ = h.join();
    }
    let sp = spans.lock().unwrap().clone();
    let mut overlapping = 0;
    for (i, a) in sp.iter().enumerate() {
        if sp.iter().enumerate().any(|(j, b)| i != j && a.0 != b.0 && a.1 < b.2 && b.1 < a.2) {
            overlapping += 1;
        }
    }
    let wdb = Db { dir: vcore::tmp::TempDir::new("c38-child-unused"), path: args.dbdir.clone(), handle: Some(db) };
    let live = Live { obs: obs(&wdb, &[table()], true), commits: sp.len(), overlapping, errors: errors.lock().unwrap().clone() };
    std::fs::write(&args.obsfile, serde_json::to_string(&live).unwrap()).expect("obsfile");
    unsafe { libc::_exit(0) }
}

fn run_case(case: &Case) -> Outcome {
    let mut out = Outcome::ok();
    let scratch = vcore::tmp::TempDir::new("C38");
    let args = ChildArgs { case: case.clone(), dbdir: scratch.join("db"), obsfile: scratch.join("live.json"), shadow: if case.power { Some(scratch.join("shadow")) } else { None } };
    let ap = scratch.join("args.json");
    std::fs::write(&ap, serde_json::to_string(&args).unwrap()).unwrap();
    let errf = std::fs::File::create(scratch.join("stderr")).ok();
    let mut ch = match Command::new(std::env::current_exe().unwrap()).arg("--c38-child").arg(&ap).stdout(Stdio::null()).stderr(errf.map(Stdio::from).unwrap_or_else(Stdio::null)).spawn() {
        Ok(c) => c,
        Err(e) => return out.class(format!("spawn_failed:{}", e)),
    };
    let start = Instant::now();
    let status = loop {
        match ch.try_wait() {
            Ok(Some(s)) => break Some(s),
            Ok(None) => {
                if start.elapsed() > Duration::from_secs(120) {
                    let _ = ch.kill();
                    let _ = ch.wait();
                    break None;
                }
                std::thread::sleep(Duration::from_millis(3));
            }
            Err(_) => break None,
        }
    };
    let threads = case.threads.clamp(1, 3);
    let Some(status) = status else {
        return out.fail(format!("C38|threads{}|workload_hung", threads.min(2)), "the committing threads did not finish within 120 s (deadlock between concurrent committers?)".to_string());
    };
    let live: Option<Live> = std::fs::read_to_string(scratch.join("live.json")).ok().and_then(|t| serde_json::from_str(&t).ok());
    let Some(live) = live else {
        let err = std::fs::read_to_string(scratch.join("stderr")).unwrap_or_default();
        let last = err.lines().rev().find(|l| l.contains("panicked")).unwrap_or("").chars().take(200).collect::<String>();
        return out.fail(format!("C38|threads{}|workload_died|{}", threads.min(2), if last.is_empty() { "no_panic_message".to_string() } else { last.split(':').next().unwrap_or("").chars().filter(|c| !c.is_ascii_digit()).collect::<String>() }), format!("the child running the concurrent committers died (exit {:?}): {}", status.code(), last));
    };
    if let Some(e) = live.errors.first() {
        return out.fail(format!("C38|threads{}|statement_failed_under_concurrency", threads.min(2)), format!("{} statement(s) failed for a reason other than a duplicate key, first: {}", live.errors.len(), e));
    }
    let target = if case.power {
        let pd = scratch.join("power");
        if crate::crash::build_power_dir(&scratch.join("db"), &scratch.join("shadow"), &pd).is_err() {
            return out.class("power_dir_failed");
        }
        pd
    } else {
        scratch.join("db")
    };
    let model = if case.power { "power" } else { "kill" };
    match observe(&target, &[vec![table()]], scratch.path(), "c38") {
        Observed::Ok(v) => {
            if let Some((facet, d)) = crate::world::diff_obs(&live.obs, &v[0]) {
                out.set_fail(
                    format!("C38|{}|threads{}|recovered_differs_from_live|{}", model, if threads == 1 { "1" } else { "n" }, facet),
                    format!("{} model, {} thread(s), {} commits ({} overlapping in time): the database recovered from the files + WAL differs from the live database at quiescence: {}", model, threads, live.commits, live.overlapping, d.chars().take(600).collect::<String>()),
                );
            }
        }
        Observed::OpenFailed(e) => out.set_fail(format!("C38|{}|threads{}|open_failed", model, if threads == 1 { "1" } else { "n" }), format!("reopening after {} commits fails: {}", live.commits, e.chars().take(300).collect::<String>())),
        Observed::Died(e) if e.starts_with("TIMEOUT") => out.add_class("observer_timed_out"),
        Observed::Died(e) => out.set_fail(format!("C38|{}|threads{}|reopen_died", model, if threads == 1 { "1" } else { "n" }), format!("the process reopening the database died: {}", e)),
    }
    out.add_class(format!("threads:{}", threads));
    out.add_class(format!("model:{}", model));
    if live.overlapping > 0 {
        out.add_class("commits_overlapped_in_time");
    }
    if threads == 1 || live.overlapping > 0 {
        out.nontrivial = Some(vcore::hash_of(&format!("{:?}", case)));
    }
    out
}

impl Check for C38 {
    type Case = Case;
    fn run(&self, case: &Case) -> Outcome {
        run_case(case)
    }
}

fn strategy() -> BoxedStrategy<Case> {
    let stmt = prop_oneof![
        4 => (any::<u16>(), 0u8..50).prop_map(|(i, v)| Stmt::Insert(i, v)),
        4 => (any::<u16>(), 0u8..50).prop_map(|(i, v)| Stmt::Update(i, v)),
        1 => any::<u16>().prop_map(Stmt::Delete),
        2 => (any::<u16>(), any::<u16>(), 0u8..50).prop_map(|(a, b, v)| Stmt::Txn(a, b, v)),
        1 => any::<u16>().prop_map(Stmt::BigText),
    ];
    (prop_oneof![1 => Just(1u8), 3 => Just(2u8), 2 => Just(3u8)], proptest::collection::vec(proptest::collection::vec(stmt, 1..4), 5..60), prop_oneof![3 => Just(false), 1 => Just(true)]).prop_map(|(threads, rounds, power)| Case { threads, rounds, power }).boxed()
}

pub fn main(tier: Tier, replay: Option<String>) -> i32 {
    if let Some(p) = replay {
        return vcore::replay_file("C38", &C38, &p);
    }
    let ctx = Ctx::new("C38", tier, "exploration");
    ctx.set_rule(
        "proptest-generated per-round statement lists (INSERT/UPDATE/DELETE, two-statement transactions, 600-900-byte values) executed by 1-3 cloned handles on real OS threads with a barrier per \
         round, on one indexed table whose rows of all threads share pages, wal=ON synchronous=FULL; after the last commit returned the child dumps the live observation and _exits without \
         closing; the directory is reopened as left (kill model) and cut back to last-synced bytes (power-loss model). Non-trivial = single-thread case (deterministic expectation) or a \
         case in which commits of different threads overlapped in time (measured in the child); distinct by hash of the case.",
    );
    ctx.assume("real threads: the schedule is not owned by the harness, so detection of ordering races is probabilistic; the verdict itself (recovered == live at quiescence) is sound");
    ctx.assume("a verdict must reproduce on a second run of the same case before it is reported");
    vcore::replay_witnesses(&ctx, &C38);
    let cases = tier.pick(400, 8000);
    let config = Config { failure_persistence: None, ..Config::default() };
    let mut runner = TestRunner::new_with_rng(config, vcore::rng_from_seed(vcore::splitmix(ctx.seed ^ 0xC38)));
    let strat = strategy();
    let all: Vec<Case> = (0..cases).filter_map(|_| strat.new_tree(&mut runner).ok().map(|t| t.current())).collect();
    // the children are multi-threaded themselves: run 5 at a time
    let next = std::sync::atomic::AtomicUsize::new(0);
    let fails: std::sync::Mutex<Vec<(Failure, Case)>> = std::sync::Mutex::new(Vec::new());
    std::thread::scope(|sc| {
        for _ in 0..5 {
            sc.spawn(|| loop {
                let j = next.fetch_add(1, std::sync::atomic::Ordering::SeqCst);
                if j >= all.len() || ctx.stop.load(std::sync::atomic::Ordering::SeqCst) {
                    break;
                }
                let mut out = run_case(&all[j]);
                if let Some(f) = &out.failure {
                    if !ctx.is_known(&f.sig) {
                        let again = run_case(&all[j]);
                        if again.failure.as_ref().map(|g| g.sig != f.sig).unwrap_or(true) {
                            out.failure = None;
                            out.add_class("unreproducible_verdict_dropped");
                        }
                    }
                }
                ctx.count_eval(1);
                if out.classes.iter().any(|c| c == "observer_timed_out") {
                    ctx.inconclusive("a recovery observer hit the 120 s watchdog (hang or overloaded machine): no verdict for that case");
                }
                for c in &out.classes {
                    ctx.class(c, 1);
                }
                if let Some(h) = out.nontrivial {
                    ctx.count_nontrivial(h);
                    if ctx.want_sample() {
                        ctx.sample(json!({"threads": all[j].threads, "rounds": all[j].rounds.len(), "power": all[j].power, "first_round": all[j].rounds.first()}));
                    }
                }
                if let Some(f) = out.failure {
                    fails.lock().unwrap().push((f, all[j].clone()));
                }
            });
        }
    });
    for (f, case) in fails.into_inner().unwrap() {
        if vcore::survey_mode() && !ctx.is_known(&f.sig) {
            ctx.survey_record(&f);
        } else {
            ctx.record_failure(&f, &serde_json::to_value(&case).unwrap());
        }
    }
    ctx.finish()
}
