//! C15 ORDER BY, LIMIT, OFFSET and DISTINCT are exact.
//!
//! G: generated tables (NULLs, duplicates) and a query with a multi-key ORDER BY (ASC/DESC;
//! keys given as ordinals, as the select item's expression, as its alias, or as an expression
//! that is not in the select list), LIMIT / OFFSET (also 0 and beyond the end) and DISTINCT —
//! over a single table, over a GROUP BY query, over a two-table join and over a UNION. In
//! half of the ordered cases a unique tiebreak key (`id`) makes the order total.
//! O: a validity predicate (DESIGN.md C15), with bundled SQLite supplying the reference bag
//! and the reference key sequence: the output has the window's length, every output row is a
//! row of the reference bag (as a sub-multiset), the output's key sequence is sorted under the
//! property's comparator (NULL first ascending, last descending) and equals the reference key
//! sequence at positions offset.. (ties on the full key may be broken either way); without
//! LIMIT/OFFSET the bags are equal. SQLite's own order is cross-checked against the
//! comparator (disagreement = case dropped).

use std::collections::BTreeSet;

use proptest::prelude::*;
use serde::{Deserialize, Serialize};
use vcore::{Check, Ctx, Outcome, Tier};

use crate::equery::*;

#[derive(Debug, Clone, Serialize, Deserialize)]
pub struct Case {
    pub schema: Schema,
    pub q: Select,
}

pub struct C15 {
    pub gates: BTreeSet<String>,
    /// gates of C14 / C16 / C17 / C18 findings that the combined shapes inherit
    pub inherited: BTreeSet<String>,
    pub all_tags: bool,
}

pub const TRIGGERS: &[&str] = &[
    "order_by.select_star",
    "order_by.ordinal",
    "order_by.hidden_key",
    "order_by.non_column_select_item",
    "distinct.with_limit_or_offset",
    "over.join",
    "order_by.on_indexed_table",
];

fn key_cmp(a: &[Val], b: &[Val], desc: &[bool]) -> std::cmp::Ordering {
    for (i, (x, y)) in a.iter().zip(b.iter()).enumerate() {
        let mut o = val_cmp(x, y);
        if desc[i] {
            o = o.reverse();
        }
        if o != std::cmp::Ordering::Equal {
            return o;
        }
    }
    std::cmp::Ordering::Equal
}

impl C15 {
    fn go(&self, case: &Case, gates: &BTreeSet<String>, inherited: &BTreeSet<String>) -> Outcome {
        let mut out = Outcome::ok();
        let q = &case.q;
        let schema = &case.schema;
        let (sql, mut tags) = render(schema, q, Dialect::Turdb, false);
        let mut full = q.clone();
        full.limit = None;
        full.offset = None;
        let (lite_full, _) = render(schema, &full, Dialect::Sqlite, true);

        // ---- inherited trigger tags of the underlying query shape
        let mut inh: BTreeSet<&'static str> = BTreeSet::new();
        if !q.group_by.is_empty() || q.items.iter().any(|i| i.e.has_agg()) {
            let c = crate::c16::Case { table: schema.tables[0].clone(), q: q.clone() };
            let one = Schema { tables: vec![schema.tables[0].clone()] };
            crate::c16::agg_tags(&c, &one, &mut inh);
            tags.insert("over.group_by");
        }
        if q.from.len() > 1 {
            let c = crate::c17::Case { schema: schema.clone(), q: q.clone() };
            crate::c17::join_tags(&c, &mut inh);
            tags.insert("over.join");
        }
        if !q.setops.is_empty() {
            tags.insert("over.setop");
        }
        if schema.tables.iter().any(|t| t.long_text) {
            inh.insert("text.toasted_value");
        }
        if let Some(g) = inh.iter().find(|t| inherited.contains(**t)) {
            out.add_class(format!("gated_inherited:{}", g));
            return out;
        }

        let w = match World::setup("C15", schema) {
            Ok(w) => w,
            Err(_) => {
                out.add_class("setup_rejected");
                return out;
            }
        };
        let reference = match w.sqlite(&lite_full) {
            Ok(r) => norm_rows(&r),
            Err(e) => {
                out.add_class("oracle_rejected");
                if std::env::var("VERIF_DEV_ORACLE").is_ok() {
                    eprintln!("sqlite rejects: {} -> {}", lite_full, e);
                }
                return out;
            }
        };
        // ---- key positions
        let m = if q.items.is_empty() { q.out_classes(schema).len() } else { q.items.len() };
        let mut key_idx: Vec<usize> = Vec::new();
        let mut desc: Vec<bool> = Vec::new();
        let mut hidden = 0usize;
        for k in &q.order_by {
            match &k.kind {
                OKind::Ordinal(n) | OKind::ItemExpr(n) | OKind::Alias(n) => key_idx.push(*n as usize % m.max(1)),
                OKind::Hidden(_) => {
                    key_idx.push(m + hidden);
                    hidden += 1;
                }
            }
            desc.push(k.desc);
        }
        let ordered = !key_idx.is_empty();
        let ref_key = |r: &Row| -> Vec<Val> { key_idx.iter().map(|i| r.get(*i).cloned().unwrap_or(Val::Null)).collect() };
        // cross-check SQLite's order against the property's comparator
        if ordered && reference.windows(2).any(|p| key_cmp(&ref_key(&p[0]), &ref_key(&p[1]), &desc) == std::cmp::Ordering::Greater) {
            out.add_class("oracle_disagreement");
            return out;
        }
        // ---- data-dependent tags
        let n = reference.len();
        let mut nt = false;
        if ordered {
            let keys: Vec<Vec<Val>> = reference.iter().map(|r| ref_key(r)).collect();
            for c in 0..key_idx.len() {
                let col: Vec<&Val> = keys.iter().map(|k| &k[c]).collect();
                let has_null = col.iter().any(|v| v.is_null());
                let mut s: Vec<&&Val> = col.iter().filter(|v| !v.is_null()).collect();
                s.sort_by(|a, b| val_cmp(a, b));
                let has_dup = s.windows(2).any(|p| val_eq(p[0], p[1])) || col.iter().filter(|v| v.is_null()).count() > 1;
                if has_null {
                    tags.insert("order_by.null_key");
                }
                if has_dup {
                    tags.insert("order_by.duplicate_key");
                }
                if has_null && has_dup {
                    nt = true;
                }
                if col.iter().any(|v| matches!(v, Val::Text(_))) {
                    tags.insert("order_by.text_key");
                }
                if col.iter().any(|v| matches!(v, Val::Float(_))) {
                    tags.insert("order_by.double_key");
                }
            }
            if key_idx.len() > 1 {
                tags.insert("order_by.multi_key");
            }
            let total = keys.windows(2).all(|p| key_cmp(&p[0], &p[1], &desc) != std::cmp::Ordering::Equal);
            tags.insert(if total { "order_by.total" } else { "order_by.ties" });
        } else if q.limit.is_some() || q.offset.is_some() {
            tags.insert("limit.without_order_by");
        }
        if ordered && q.items.is_empty() {
            tags.insert("order_by.select_star");
        }
        if ordered {
            let sc = q.top_scope(schema);
            let plain = |e: &E| match e {
                E::NCol { .. } => true,
                E::TCol { sel, .. } => sc.pick(Cls::Text, *sel).is_some(),
                E::BCol { sel, .. } => sc.pick(Cls::Bool, *sel).is_some(),
                E::ICol { item, cls, sel } => sc.pick_in_item(*item, *cls, *sel).is_some(),
                _ => false,
            };
            if q.items.iter().any(|i| !plain(&i.e)) {
                tags.insert("order_by.non_column_select_item");
            }
        }
        if q.distinct && (q.limit.is_some() || q.offset.is_some()) {
            tags.insert("distinct.with_limit_or_offset");
        }
        if q.limit == Some(0) {
            tags.insert("limit.zero");
        }
        if let Some(o) = q.offset {
            if o as usize >= n {
                tags.insert("offset.beyond_end");
            }
        }
        if q.distinct {
            let mut full_nd = full.clone();
            full_nd.distinct = false;
            let (s_nd, _) = render(schema, &full_nd, Dialect::Sqlite, false);
            if let Ok(r) = w.sqlite(&s_nd) {
                if r.len() > n {
                    tags.insert("distinct.removes_rows");
                    nt = true;
                }
                if r.iter().any(|row| row.iter().any(|v| v.is_null())) {
                    tags.insert("distinct.null_values");
                }
            }
            if m > 1 {
                tags.insert("distinct.multi_column");
            }
        }
        if schema.tables.iter().any(|t| t.pk || t.index.is_some()) {
            tags.insert("table.indexed");
            if ordered {
                tags.insert("order_by.on_indexed_table");
            }
        }
        if let Some(g) = tags.iter().find(|t| gates.contains(**t)) {
            out.add_class(format!("gated:{}", g));
            return out;
        }
        let sigtags = tagstr(tags.iter().copied().filter(|t| self.all_tags || TRIGGERS.contains(t)));
        for t in &tags {
            out.add_class(format!("tag:{}", t));
        }

        // ---- TurDB
        let got = match w.turdb(&sql) {
            Ok(g) => norm_rows(&g),
            Err(e) => {
                out.add_class(format!("rejected:{}", construct_of(&tags)));
                if std::env::var("VERIF_DEV_REJECTS").is_ok() {
                    eprintln!("rejected: {} -> {}", sql, e);
                }
                return out;
            }
        };
        let offset = q.offset.unwrap_or(0) as usize;
        let avail = n.saturating_sub(offset);
        let want_len = match q.limit {
            Some(l) => avail.min(l as usize),
            None => avail,
        };
        let refrows: Vec<Row> = reference.iter().map(|r| r[..m.min(r.len())].to_vec()).collect();
        macro_rules! fail {
            ($facet:expr, $kind:expr, $d:expr) => {{
                out.set_fail(format!("C15|{}|{}|{}", $facet, $kind, sigtags), format!("{}\n  {}\n  reference (SQLite, no LIMIT/OFFSET): {}\n  got: {}", sql, $d, fmt_rows(&refrows), fmt_rows(&got)));
                return out;
            }};
        }
        if got.len() != want_len {
            fail!("window", "length", format!("expected {} rows (reference has {}, LIMIT {:?} OFFSET {:?}), got {}", want_len, n, q.limit, q.offset, got.len()));
        }
        if got.iter().any(|r| r.len() != m) {
            fail!("bag", "row_width", format!("expected {} columns", m));
        }
        // every output row is a reference row, as a sub-multiset
        let (_, extra) = bag_diff(&refrows, &got);
        if !extra.is_empty() {
            let facet = if q.distinct { "distinct" } else { "bag" };
            fail!(facet, "rows_not_in_reference", format!("rows not in the reference bag (or too often): {}", fmt_rows(&extra)));
        }
        if q.limit.is_none() && q.offset.is_none() {
            let (missing, _) = bag_diff(&refrows, &got);
            if !missing.is_empty() {
                let facet = if q.distinct { "distinct" } else { "bag" };
                fail!(facet, "rows_missing", format!("reference rows missing: {}", fmt_rows(&missing)));
            }
        }
        if ordered {
            // keys of the output rows
            let mut gkeys: Vec<Vec<Val>> = Vec::with_capacity(got.len());
            let mut ambiguous = false;
            for r in &got {
                if hidden == 0 {
                    gkeys.push(key_idx.iter().map(|i| r[*i].clone()).collect());
                } else {
                    let cands: Vec<&Row> = reference.iter().filter(|x| row_eq(&x[..m], r)).collect();
                    match cands.first() {
                        None => fail!("bag", "rows_not_in_reference", "row without reference"),
                        Some(c) => {
                            let k = ref_key(c);
                            if cands.iter().any(|x| !row_eq(&ref_key(x), &k)) {
                                ambiguous = true;
                            }
                            gkeys.push(k);
                        }
                    }
                }
            }
            if ambiguous {
                out.add_class("order_check_skipped:hidden_key_ambiguous");
            } else {
                if let Some(i) = gkeys.windows(2).position(|p| key_cmp(&p[0], &p[1], &desc) == std::cmp::Ordering::Greater) {
                    let involves_null = gkeys[i].iter().chain(gkeys[i + 1].iter()).any(|v| v.is_null());
                    fail!("order", if involves_null { "not_sorted_null_placement" } else { "not_sorted" }, format!("rows {} and {} are out of order: keys {:?} then {:?}", i, i + 1, gkeys[i], gkeys[i + 1]));
                }
                for (i, k) in gkeys.iter().enumerate() {
                    let rk = ref_key(&reference[offset + i]);
                    if !row_eq(k, &rk) {
                        fail!("window", "wrong_rows", format!("output row {} has key {:?}, the reference order has key {:?} at position {}", i, k, rk, offset + i));
                    }
                }
            }
            out.add_class("order:checked");
        }
        out.add_class("checked");
        if nt {
            out.add_class("nontrivial");
            out.nontrivial = Some(vcore::hash_of(&(sql, format!("{:?}", case.schema))));
        }
        out
    }
}

impl Check for C15 {
    type Case = Case;
    fn run(&self, case: &Case) -> Outcome {
        self.go(case, &self.gates, &self.inherited)
    }
    fn run_strict(&self, case: &Case) -> Outcome {
        // own gates open; the gates inherited from C14/C16/C17/C18 stay closed so that a
        // witness cannot trip over another property's listed defect
        self.go(case, &BTreeSet::new(), &self.inherited)
    }
}

fn okey_strategy(cfg: &GenCfg, allow_hidden: bool) -> BoxedStrategy<OKey> {
    let mut kinds: Vec<(u32, BoxedStrategy<OKind>)> = vec![(4, any::<u8>().prop_map(OKind::ItemExpr).boxed())];
    if cfg.on("order_by.ordinal") {
        kinds.push((2, any::<u8>().prop_map(OKind::Ordinal).boxed()));
    }
    if cfg.on("order_by.alias") {
        kinds.push((2, any::<u8>().prop_map(OKind::Alias).boxed()));
    }
    if allow_hidden && cfg.on("order_by.hidden_key") {
        kinds.push((3, prop_oneof![3 => any::<u8>().prop_map(|sel| E::NCol { up: 0, sel }), 2 => any::<u8>().prop_map(|sel| E::TCol { up: 0, sel }), 1 => (any::<u8>(), any::<i8>()).prop_map(|(sel, k)| E::Add(Box::new(E::NCol { up: 0, sel }), Box::new(E::ILit(k))))].prop_map(OKind::Hidden).boxed()));
    }
    let desc = if cfg.on("order_by.desc") { prop_oneof![3 => Just(false), 2 => Just(true)].boxed() } else { Just(false).boxed() };
    (proptest::strategy::Union::new_weighted(kinds), desc).prop_map(|(kind, desc)| OKey { kind, desc }).boxed()
}

fn limit_strategy(cfg: &GenCfg) -> BoxedStrategy<(Option<u8>, Option<u8>)> {
    let lim = if cfg.on("limit") { prop_oneof![3 => Just(None), 1 => Just(Some(0u8)), 5 => (1u8..12).prop_map(Some), 1 => Just(Some(100u8))].boxed() } else { Just(None).boxed() };
    let off = if cfg.on("offset") { prop_oneof![4 => Just(None), 1 => Just(Some(0u8)), 3 => (1u8..12).prop_map(Some), 1 => Just(Some(100u8))].boxed() } else { Just(None).boxed() };
    (lim, off).boxed()
}

fn item_strategy(cfg: &GenCfg) -> BoxedStrategy<E> {
    if !cfg.on("order_by.non_column_select_item") {
        return prop_oneof![5 => any::<u8>().prop_map(|sel| E::NCol { up: 0, sel }), 2 => any::<u8>().prop_map(|sel| E::TCol { up: 0, sel })].boxed();
    }
    prop_oneof![
        5 => any::<u8>().prop_map(|sel| E::NCol { up: 0, sel }),
        3 => any::<u8>().prop_map(|sel| E::TCol { up: 0, sel }),
        1 => any::<u8>().prop_map(|sel| E::BCol { up: 0, sel }),
        2 => (any::<u8>(), any::<i8>()).prop_map(|(sel, k)| E::Add(Box::new(E::NCol { up: 0, sel }), Box::new(E::ILit(k)))),
        1 => (any::<u8>(), any::<u8>()).prop_map(|(a, b)| E::Sub(Box::new(E::NCol { up: 0, sel: a }), Box::new(E::NCol { up: 0, sel: b }))),
    ]
    .boxed()
}

/// shape (a): single table
fn single_shape(cfg: &GenCfg) -> BoxedStrategy<Select> {
    let mut p = cfg.clone();
    p.depth = 1;
    let filter = prop_oneof![3 => Just(None), 1 => pred_strategy(&p).prop_map(Some)];
    let distinct = if cfg.on("distinct") { prop_oneof![3 => Just(false), 1 => Just(true)].boxed() } else { Just(false).boxed() };
    (
        proptest::collection::vec(item_strategy(cfg), 1..=3),
        distinct,
        proptest::collection::vec(okey_strategy(cfg, true), 0..=3),
        any::<bool>(),
        limit_strategy(cfg),
        filter,
        prop_oneof![4 => Just(false), 1 => Just(true)],
        any::<bool>(),
    )
        .prop_map(|(items, distinct, mut keys, tiebreak, (limit, offset), filter, star, alias_items)| {
            let mut q = Select::table(0);
            q.distinct = distinct;
            q.filter = filter;
            if distinct {
                // ORDER BY keys of a DISTINCT query must be select items
                for k in keys.iter_mut() {
                    if let OKind::Hidden(_) = k.kind {
                        k.kind = OKind::ItemExpr(0);
                    }
                }
            }
            let has_hidden = keys.iter().any(|k| matches!(k.kind, OKind::Hidden(_)));
            let want_id = !distinct && (has_hidden || tiebreak);
            if star && !distinct && !keys.iter().any(|k| matches!(k.kind, OKind::Alias(_))) {
                q.items = vec![];
            } else {
                let mut v: Vec<Item> = Vec::new();
                if want_id {
                    v.push(Item { e: E::NCol { up: 0, sel: 0 }, alias: alias_items });
                }
                v.extend(items.into_iter().map(|e| Item { e, alias: alias_items }));
                q.items = v;
            }
            // aliases are needed for ORDER BY alias
            if keys.iter().any(|k| matches!(k.kind, OKind::Alias(_))) {
                for it in q.items.iter_mut() {
                    it.alias = true;
                }
            }
            if tiebreak && !keys.is_empty() && !distinct {
                // unique tiebreak: id is item 0 (explicit list) or column 0 (star)
                keys.push(OKey { kind: OKind::ItemExpr(0), desc: false });
                if q.items.is_empty() {
                    let last = keys.len() - 1;
                    keys[last].kind = OKind::Ordinal(0);
                }
            }
            q.order_by = keys;
            q.limit = limit;
            q.offset = offset;
            q
        })
        .boxed()
}

/// shape (b): GROUP BY query ordered by its output columns
fn grouped_shape(cfg: &GenCfg) -> BoxedStrategy<Select> {
    let mut c16cfg = cfg.clone();
    for g in ["having", "where", "group_by.expression", "agg.count_distinct", "agg.arg_not_plain_column"] {
        c16cfg.off.insert(g.to_string());
    }
    (crate::c16::agg_select_strategy(&c16cfg), proptest::collection::vec((any::<u8>(), any::<bool>(), any::<bool>()), 1..=2), limit_strategy(cfg))
        .prop_map(|(mut q, keys, (limit, offset))| {
            q.order_by = keys.into_iter().map(|(n, ordinal, desc)| OKey { kind: if ordinal { OKind::Ordinal(n) } else { OKind::ItemExpr(n) }, desc }).collect();
            q.limit = limit;
            q.offset = offset;
            q
        })
        .boxed()
}

/// shape (c): inner equi-join of two tables ordered by selected columns
fn join_shape(cfg: &GenCfg) -> BoxedStrategy<Select> {
    (any::<u8>(), any::<u8>(), any::<u8>(), any::<u8>(), proptest::collection::vec((0u8..2, any::<u8>()), 0..=2), proptest::collection::vec((any::<u8>(), any::<bool>()), 1..=2), any::<bool>(), limit_strategy(cfg))
        .prop_map(|(t0, t1, s0, s1, cols, keys, tiebreak, (limit, offset))| {
            let mut q = Select::default();
            q.from.push(FromItem { src: Src::Table(t0), join: JoinKind::Comma, on: None });
            q.from.push(FromItem { src: Src::Table(t1), join: JoinKind::Inner, on: Some(E::Cmp(CmpOp::Eq, Box::new(E::ICol { item: 0, cls: Cls::Num, sel: s0 }), Box::new(E::ICol { item: 1, cls: Cls::Num, sel: s1 }))) });
            for i in 0..2 {
                q.items.push(Item { e: E::ICol { item: i, cls: Cls::Num, sel: 0 }, alias: false });
            }
            for (item, sel) in cols {
                q.items.push(Item { e: E::ICol { item, cls: Cls::Num, sel }, alias: false });
            }
            q.order_by = keys.into_iter().map(|(n, desc)| OKey { kind: OKind::ItemExpr(n), desc }).collect();
            if tiebreak {
                q.order_by.push(OKey { kind: OKind::ItemExpr(0), desc: false });
                q.order_by.push(OKey { kind: OKind::ItemExpr(1), desc: false });
            }
            q.limit = limit;
            q.offset = offset;
            q
        })
        .boxed()
}

/// shape (d): UNION [ALL] of two selects of the same column of one table, ordered by ordinal
fn setop_shape(cfg: &GenCfg) -> BoxedStrategy<Select> {
    let mut p = cfg.clone();
    p.depth = 1;
    let f = prop_oneof![2 => Just(None), 2 => pred_strategy(&p).prop_map(Some)];
    (any::<u8>(), any::<bool>(), f.clone(), f, any::<bool>(), any::<bool>(), limit_strategy(cfg))
        .prop_map(|(sel, text, f0, f1, all, desc, (limit, offset))| {
            let item = |sel: u8| Item { e: if text { E::TCol { up: 0, sel } } else { E::NCol { up: 0, sel } }, alias: false };
            let mut a = Select::table(0);
            a.items = vec![item(sel)];
            a.filter = f0;
            let mut b = Select::table(0);
            b.items = vec![item(sel)];
            b.filter = f1;
            a.setops.push((if all { SetOp::UnionAll } else { SetOp::Union }, b));
            a.order_by = vec![OKey { kind: OKind::Ordinal(0), desc }];
            a.limit = limit;
            a.offset = offset;
            a
        })
        .boxed()
}

pub fn strategy(gates: &BTreeSet<String>, max_rows: usize) -> BoxedStrategy<Case> {
    let mut cfg = GenCfg::new(1);
    cfg.off = gates.clone();
    let inherited = inherited_gates();
    let no_long = inherited.contains("text.toasted_value");
    let fix = move |mut s: Schema| {
        if no_long {
            for t in s.tables.iter_mut() {
                t.long_text = false;
            }
        }
        s
    };
    let one = schema_strategy(1, 1, max_rows, cfg.on("order_by.on_indexed_table")).prop_map(fix.clone()).boxed();
    let two = schema_strategy(2, 2, max_rows.min(20), false).prop_map(fix).boxed();
    let mut alts: Vec<(u32, BoxedStrategy<Case>)> = vec![(10, (one.clone(), single_shape(&cfg)).prop_map(|(schema, q)| Case { schema, q }).boxed())];
    if cfg.on("over.group_by") {
        alts.push((2, (one.clone(), grouped_shape(&cfg)).prop_map(|(schema, q)| Case { schema, q }).boxed()));
    }
    if cfg.on("over.join") {
        alts.push((2, (two, join_shape(&cfg)).prop_map(|(schema, q)| Case { schema, q }).boxed()));
    }
    if cfg.on("over.setop") {
        alts.push((2, (one, setop_shape(&cfg)).prop_map(|(schema, q)| Case { schema, q }).boxed()));
    }
    proptest::strategy::Union::new_weighted(alts).boxed()
}

pub fn inherited_gates() -> BTreeSet<String> {
    let f = vcore::Findings::load_default();
    let mut g = BTreeSet::new();
    for p in ["C14", "C16", "C17", "C18"] {
        g.extend(f.closed_gates(p));
    }
    g
}

pub fn main(tier: Tier, replay: Option<String>) -> i32 {
    let findings = vcore::Findings::load_default();
    let gates: BTreeSet<String> = findings.closed_gates("C15").into_iter().collect();
    let check = C15 { gates: gates.clone(), inherited: inherited_gates(), all_tags: std::env::var("VERIF_DEV_ALLTAGS").is_ok() };
    if let Some(p) = replay {
        return vcore::replay_file("C15", &check, &p);
    }
    let ctx = Ctx::new("C15", tier, "exploration");
    ctx.set_rule(
        "proptest-generated tables (0-40 rows, NULLs, duplicates) and one query: 10/16 single-table (1-3 select items or *, optional WHERE, DISTINCT in 1/4, 0-3 ORDER BY keys \
         given as ordinal / item expression / alias / expression outside the select list, ASC/DESC, unique tiebreak on id in half of the ordered cases, LIMIT in {none,0,1..11,100}, \
         OFFSET in {none,0,1..11,100}); 2/16 ORDER BY over a GROUP BY query; 2/16 over a two-table inner join; 2/16 over UNION [ALL]. Non-trivial = some sort key holds a NULL and a \
         duplicate value among the reference rows, or DISTINCT removed at least one row; distinct by hash of (SQL text, schema).",
    );
    ctx.assume("bundled SQLite supplies the reference bag and key sequence (NULLs first ascending, last descending; BINARY text order); its order is cross-checked against the property's comparator on every case");
    ctx.assume("combined shapes only use constructs outside the findings of C14 C16 C17 C18 (their gates are inherited); Bool is compared as 0/1");
    let cases = dev_cases(tier.pick(6000, 200_000));
    let g = gates.clone();
    vcore::drive(&ctx, &check, move || strategy(&g, 40), cases, 16);
    ctx.finish()
}
