//! C29 B-tree pages stay structurally valid.
//!
//! Same operation sequences as C28 (`btree_engine`). O: after every mutating step a walker
//! starts at the root and checks, from raw page bytes and the public PageHeader / LeafNode /
//! InteriorNode accessors only: page type; slot array inside [content_start, free_start);
//! free_start <= free_end <= PAGE_SIZE; every cell inside [free_end, PAGE_SIZE) and cells
//! pairwise disjoint; slot prefix = first four key bytes; keys strictly increasing within a
//! node; separators bound their subtrees; all leaves at equal depth; the next_leaf chain =
//! the in-order leaves exactly once, ending with 0; no page reachable twice.

use vcore::{Check, Ctx, Outcome, Tier};

use crate::btree_engine::{run_case, strategy, Case, GenCfg, Mode, RunCfg};

pub struct C29;

impl Check for C29 {
    type Case = Case;
    fn run(&self, case: &Case) -> Outcome {
        run_case("C29", case, &RunCfg { mode: Mode::Pages, reader: false })
    }
}

pub fn main(tier: Tier, replay: Option<String>) -> i32 {
    if let Some(p) = replay {
        return vcore::replay_file("C29", &C29, &p);
    }
    let ctx = Ctx::new("C29", tier, "exploration");
    ctx.set_rule(
        "the operation sequences of C28 (same generator: quick <= 400 executed steps, thorough <= 20000; six key shapes incl. 500-2000-byte keys that give \
         depth-3 trees within 400 steps; values 0-3000 bytes; cell <= 4096 bytes); the structural walker runs after every mutating step (reads cannot change \
         pages: they take the storage by shared reference). Non-trivial = the sequence caused >= 1 split and >= 1 successful delete; distinct by hash of the case.",
    );
    ctx.assume("empty leaves are legal (delete never merges, src/btree/tree.rs module doc); unreachable pages are not inspected; a case ends at the first answer that differs from the ordered-map model (that is C28's finding) because later steps' preconditions would be unsound");
    let g = GenCfg { max_steps: tier.pick(400, 20_000), max_top_ops: tier.pick(40, 400) };
    let cases = crate::btree_engine::case_count(tier.pick(60_000, 8_000));
    vcore::drive(&ctx, &C29, move || strategy(g), cases, 16);
    ctx.finish()
}
