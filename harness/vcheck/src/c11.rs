//! C11 Every stored value reads back unchanged.
//!
//! G: (column type, value, write path, read point). Values per type include i64 extremes,
//! +-0.0 / NaN / +-inf / subnormals, empty and large text/blob around the TOAST threshold
//! (999/1000/1001) and chunk size (3999/4000/4001/8001) up to MBs in thorough, blobs that
//! are valid UTF-8, Unicode incl. astral, dates/times/timestamps, UUIDs, JSON, vectors.
//! Write paths: INSERT literal, INSERT parameter, UPDATE literal, UPDATE parameter.
//! O: SELECT returns the same type and value (floats bitwise, any NaN for NaN; JSON by
//! value) right after the write and after close+reopen.

use proptest::prelude::*;
use serde::{Deserialize, Serialize};
use turdb::OwnedValue;
use vcore::{Check, Ctx, Outcome, Tier};

use crate::world::Db;

#[derive(Debug, Clone, Copy, PartialEq, Eq, Serialize, Deserialize)]
pub enum ColTy {
    SmallInt,
    Int,
    BigInt,
    Real,
    Double,
    Text,
    Blob,
    Boolean,
    Date,
    Time,
    Timestamp,
    Uuid,
    Jsonb,
    Vector,
}

#[derive(Debug, Clone, PartialEq, Serialize, Deserialize)]
pub enum CVal {
    Null,
    Int(i64),
    /// f64 bits
    Float(u64),
    /// text described compactly: (seed pattern, length in bytes) or literal
    Text(String),
    /// repeated pattern text of the given byte length
    BigText(u8, u32),
    Blob(Vec<u8>),
    BigBlob(u8, u32),
    Bool(bool),
    Date(i32),
    Time(i64),
    Timestamp(i64),
    Uuid([u8; 16]),
    Json(String),
    /// JSON text bound as a *Text* parameter to a JSONB column (instead of JSONB bytes)
    JsonTextParam(String),
    /// f32 bits
    Vector(Vec<u32>),
}

#[derive(Debug, Clone, Copy, PartialEq, Eq, Serialize, Deserialize)]
pub enum Path {
    InsertLiteral,
    InsertParam,
    UpdateLiteral,
    UpdateParam,
}

#[derive(Debug, Clone, Serialize, Deserialize)]
pub struct Case {
    pub ty: ColTy,
    pub val: CVal,
    pub path: Path,
    pub reopen: bool,
}

pub struct C11 {
    pub allow_toast_like_blob: bool,
    pub gates: std::collections::BTreeSet<String>,
}

/// trigger tags of a case (what the listed findings are keyed on)
fn case_tags(case: &Case) -> Vec<&'static str> {
    let mut t = Vec::new();
    if let CVal::BigBlob(p, n) = &case.val {
        if *n > 1000 && std::str::from_utf8(&big_blob(*p, *n)).is_ok() {
            t.push("toasted_blob_that_is_valid_utf8");
        }
    }
    if matches!(case.val, CVal::JsonTextParam(_)) && matches!(case.path, Path::InsertParam | Path::UpdateParam) {
        t.push("json_text_bound_to_jsonb_column");
    }
    if matches!(case.val, CVal::Int(i64::MIN)) && case.path == Path::UpdateLiteral {
        t.push("i64_min_literal_in_update");
    }
    t
}

fn big_text(p: u8, n: u32) -> String {
    let pat: &str = match p % 4 {
        0 => "x",
        1 => "ab",
        2 => "é",      // 2 bytes
        _ => "日本語", // 9 bytes
    };
    let mut s = String::with_capacity(n as usize + 9);
    while s.len() < n as usize {
        s.push_str(pat);
    }
    while s.len() > n as usize {
        s.pop();
    }
    s
}

fn big_blob(p: u8, n: u32) -> Vec<u8> {
    match p % 3 {
        0 => vec![0u8; n as usize],
        1 => (0..n).map(|i| (i % 251) as u8).collect(),
        _ => big_text(0, n).into_bytes(), // valid UTF-8 blob
    }
}

fn civil_from_days(z: i64) -> (i64, u32, u32) {
    let z = z + 719468;
    let era = z.div_euclid(146097);
    let doe = z.rem_euclid(146097);
    let yoe = (doe - doe / 1460 + doe / 36524 - doe / 146096) / 365;
    let y = yoe + era * 400;
    let doy = doe - (365 * yoe + yoe / 4 - yoe / 100);
    let mp = (5 * doy + 2) / 153;
    let d = (doy - (153 * mp + 2) / 5 + 1) as u32;
    let m = if mp < 10 { mp + 3 } else { mp - 9 } as u32;
    (if m <= 2 { y + 1 } else { y }, m, d)
}

fn time_text(micros: i64) -> String {
    let s = micros / 1_000_000;
    let f = micros % 1_000_000;
    let base = format!("{:02}:{:02}:{:02}", s / 3600, (s / 60) % 60, s % 60);
    if f == 0 {
        base
    } else {
        format!("{}.{:06}", base, f)
    }
}

fn sql_type(t: ColTy) -> &'static str {
    match t {
        ColTy::SmallInt => "SMALLINT",
        ColTy::Int => "INT",
        ColTy::BigInt => "BIGINT",
        ColTy::Real => "REAL",
        ColTy::Double => "DOUBLE",
        ColTy::Text => "TEXT",
        ColTy::Blob => "BLOB",
        ColTy::Boolean => "BOOLEAN",
        ColTy::Date => "DATE",
        ColTy::Time => "TIME",
        ColTy::Timestamp => "TIMESTAMP",
        ColTy::Uuid => "UUID",
        ColTy::Jsonb => "JSONB",
        ColTy::Vector => "VECTOR(4)",
    }
}

fn literal(v: &CVal) -> Option<String> {
    Some(match v {
        CVal::Null => "NULL".into(),
        CVal::Int(i) => i.to_string(),
        CVal::Float(b) => {
            let f = f64::from_bits(*b);
            if !f.is_finite() {
                return None; // no literal syntax
            }
            format!("{:?}", f)
        }
        CVal::Text(s) => format!("'{}'", s.replace('\'', "''")),
        CVal::BigText(p, n) => format!("'{}'", big_text(*p, *n)),
        CVal::Blob(b) => format!("x'{}'", b.iter().map(|x| format!("{:02X}", x)).collect::<String>()),
        CVal::BigBlob(p, n) => format!("x'{}'", big_blob(*p, *n).iter().map(|x| format!("{:02X}", x)).collect::<String>()),
        CVal::Bool(b) => if *b { "TRUE".into() } else { "FALSE".into() },
        CVal::Date(d) => {
            let (y, m, dd) = civil_from_days(*d as i64);
            format!("'{:04}-{:02}-{:02}'", y, m, dd)
        }
        CVal::Time(t) => format!("'{}'", time_text(*t)),
        CVal::Timestamp(t) => {
            let days = t.div_euclid(86_400_000_000);
            let rem = t.rem_euclid(86_400_000_000);
            let (y, m, dd) = civil_from_days(days);
            format!("'{:04}-{:02}-{:02} {}'", y, m, dd, time_text(rem))
        }
        CVal::Uuid(u) => {
            let h: String = u.iter().map(|x| format!("{:02x}", x)).collect();
            format!("'{}-{}-{}-{}-{}'", &h[0..8], &h[8..12], &h[12..16], &h[16..20], &h[20..32])
        }
        CVal::Json(s) | CVal::JsonTextParam(s) => format!("'{}'", s.replace('\'', "''")),
        CVal::Vector(v) => format!("'[{}]'", v.iter().map(|b| format!("{:?}", f32::from_bits(*b))).collect::<Vec<_>>().join(", ")),
    })
}

fn param(v: &CVal) -> OwnedValue {
    match v {
        CVal::Null => OwnedValue::Null,
        CVal::Int(i) => OwnedValue::Int(*i),
        CVal::Float(b) => OwnedValue::Float(f64::from_bits(*b)),
        CVal::Text(s) => OwnedValue::Text(s.clone()),
        CVal::BigText(p, n) => OwnedValue::Text(big_text(*p, *n)),
        CVal::Blob(b) => OwnedValue::Blob(b.clone()),
        CVal::BigBlob(p, n) => OwnedValue::Blob(big_blob(*p, *n)),
        CVal::Bool(b) => OwnedValue::Bool(*b),
        CVal::Date(d) => OwnedValue::Date(*d),
        CVal::Time(t) => OwnedValue::Time(*t),
        CVal::Timestamp(t) => OwnedValue::Timestamp(*t),
        CVal::Uuid(u) => OwnedValue::Uuid(*u),
        CVal::Json(s) => match turdb::parsing::parse_json(s) {
            Ok(r) => OwnedValue::Jsonb(r.value.to_jsonb_bytes()),
            Err(_) => OwnedValue::Text(s.clone()),
        },
        CVal::JsonTextParam(s) => OwnedValue::Text(s.clone()),
        CVal::Vector(v) => OwnedValue::Vector(v.iter().map(|b| f32::from_bits(*b)).collect()),
    }
}

/// Does the value read back equal the value written? Err(description) otherwise.
fn same(ty: ColTy, want: &CVal, got: &OwnedValue) -> Result<(), String> {
    let bad = |w: String| Err(format!("wrote {} read {}", w, short_owned(got)));
    match (want, got) {
        (CVal::Null, OwnedValue::Null) => Ok(()),
        (CVal::Int(a), OwnedValue::Int(b)) if a == b => Ok(()),
        (CVal::Float(a), OwnedValue::Float(b)) => {
            let fa = f64::from_bits(*a);
            let expect = if ty == ColTy::Real { fa as f32 as f64 } else { fa };
            if (expect.is_nan() && b.is_nan()) || expect.to_bits() == b.to_bits() {
                Ok(())
            } else {
                bad(format!("Float({:?}, bits {:016x})", expect, expect.to_bits()))
            }
        }
        (CVal::Text(a), OwnedValue::Text(b)) if a == b => Ok(()),
        (CVal::BigText(p, n), OwnedValue::Text(b)) if big_text(*p, *n) == *b => Ok(()),
        (CVal::Blob(a), OwnedValue::Blob(b)) if a == b => Ok(()),
        (CVal::BigBlob(p, n), OwnedValue::Blob(b)) if big_blob(*p, *n) == *b => Ok(()),
        (CVal::Bool(a), OwnedValue::Bool(b)) if a == b => Ok(()),
        (CVal::Date(a), OwnedValue::Date(b)) if a == b => Ok(()),
        (CVal::Time(a), OwnedValue::Time(b)) if a == b => Ok(()),
        (CVal::Timestamp(a), OwnedValue::Timestamp(b)) if a == b => Ok(()),
        (CVal::Uuid(a), OwnedValue::Uuid(b)) if a == b => Ok(()),
        (CVal::Vector(a), OwnedValue::Vector(b)) if a.len() == b.len() && a.iter().zip(b).all(|(x, y)| *x == y.to_bits() || (f32::from_bits(*x).is_nan() && y.is_nan())) => Ok(()),
        (CVal::Json(text), OwnedValue::Jsonb(bytes)) | (CVal::JsonTextParam(text), OwnedValue::Jsonb(bytes)) => {
            let view = turdb::records::jsonb::JsonbView::new(bytes).map_err(|e| format!("JSONB bytes do not decode: {}", e))?;
            let back = view.to_json_string().map_err(|e| format!("to_json_string failed: {}", e))?;
            let a: serde_json::Value = serde_json::from_str(text).map_err(|e| format!("harness JSON invalid: {}", e))?;
            let b: serde_json::Value = serde_json::from_str(&back).map_err(|e| format!("rendered JSON does not parse ({}): {}", e, back.chars().take(80).collect::<String>()))?;
            if json_eq(&a, &b) {
                Ok(())
            } else {
                Err(format!("wrote JSON {} read {}", text.chars().take(120).collect::<String>(), back.chars().take(120).collect::<String>()))
            }
        }
        (w, _) => bad(short_cval(w)),
    }
}

fn json_eq(a: &serde_json::Value, b: &serde_json::Value) -> bool {
    use serde_json::Value as V;
    match (a, b) {
        (V::Number(x), V::Number(y)) => x.as_f64() == y.as_f64(),
        (V::Array(x), V::Array(y)) => x.len() == y.len() && x.iter().zip(y).all(|(p, q)| json_eq(p, q)),
        (V::Object(x), V::Object(y)) => x.len() == y.len() && x.iter().all(|(k, v)| y.get(k).map(|w| json_eq(v, w)).unwrap_or(false)),
        _ => a == b,
    }
}

fn short_cval(v: &CVal) -> String {
    match v {
        CVal::BigText(p, n) => format!("Text(pattern {} x {} bytes)", p % 4, n),
        CVal::BigBlob(p, n) => format!("Blob(pattern {} x {} bytes)", p % 3, n),
        CVal::Text(s) if s.len() > 60 => format!("Text({} bytes)", s.len()),
        o => format!("{:?}", o),
    }
}

fn short_owned(v: &OwnedValue) -> String {
    match v {
        OwnedValue::Text(s) if s.len() > 60 => format!("Text({} bytes, starts {:?})", s.len(), s.chars().take(12).collect::<String>()),
        OwnedValue::Blob(b) if b.len() > 40 => format!("Blob({} bytes, starts {:02x?})", b.len(), &b[..8]),
        OwnedValue::Jsonb(b) => format!("Jsonb({} bytes)", b.len()),
        o => format!("{:?}", o).chars().take(120).collect(),
    }
}

fn value_class(v: &CVal) -> &'static str {
    match v {
        CVal::Null => "null",
        CVal::Int(i) if *i == i64::MIN || *i == i64::MAX => "int_extreme",
        CVal::Int(_) => "int",
        CVal::Float(b) => {
            let f = f64::from_bits(*b);
            if f.is_nan() {
                "nan"
            } else if f.is_infinite() {
                "inf"
            } else if f == 0.0 {
                "zero"
            } else if f.is_subnormal() {
                "subnormal"
            } else {
                "float"
            }
        }
        CVal::Text(s) if s.is_empty() => "empty_text",
        CVal::Text(s) if !s.is_ascii() => "unicode_text",
        CVal::Text(_) => "text",
        CVal::BigText(_, n) | CVal::BigBlob(_, n) if *n > 1000 => "above_toast_threshold",
        CVal::BigText(..) | CVal::BigBlob(..) => "near_toast_threshold",
        CVal::Blob(b) if b.is_empty() => "empty_blob",
        CVal::Blob(b) if std::str::from_utf8(b).is_ok() => "utf8_blob",
        CVal::Blob(_) => "blob",
        CVal::Bool(_) => "bool",
        CVal::Date(_) => "date",
        CVal::Time(_) => "time",
        CVal::Timestamp(_) => "timestamp",
        CVal::Uuid(_) => "uuid",
        CVal::Json(_) => "json",
        CVal::JsonTextParam(_) => "json_text_param",
        CVal::Vector(_) => "vector",
    }
}

impl Check for C11 {
    type Case = Case;
    fn run_strict(&self, case: &Case) -> Outcome {
        C11 { allow_toast_like_blob: false, gates: Default::default() }.run(case)
    }
    fn run(&self, case: &Case) -> Outcome {
        let mut out = Outcome::ok();
        // a 17-byte blob starting 0xFE is indistinguishable from a TOAST pointer in the record
        // format (listed under C31); reading it makes the library try to allocate ~5e17 bytes
        // and abort the process, so it is never executed in-process
        if let CVal::Blob(b) = &case.val {
            if b.len() == 17 && b[0] == 0xFE && !self.allow_toast_like_blob {
                return out.class("skipped:blob_like_toast_pointer");
            }
        }
        let tags = case_tags(case);
        if let Some(g) = tags.iter().find(|g| self.gates.contains(**g)) {
            return out.class(format!("gated:{}", g));
        }
        let tagstr = if tags.is_empty() { "-".to_string() } else { tags.join("+") };
        let tyname = format!("{:?}", case.ty);
        let pathname = format!("{:?}", case.path);
        let vclass = value_class(&case.val);
        let sig = |facet: &str| format!("C11|{}|{}|{}|{}|{}", tyname, pathname, facet, vclass, tagstr);
        let mut db = Db::create("C11");
        let create = format!("CREATE TABLE t (id INT PRIMARY KEY, v {})", sql_type(case.ty));
        if let Err(e) = db.h().execute(&create) {
            return out.fail(sig("create_table"), format!("{} -> {}", create, e));
        }
        let is_param = matches!(case.path, Path::InsertParam | Path::UpdateParam);
        let lit = if is_param { None } else { literal(&case.val) };
        if !is_param && lit.is_none() {
            return out.class("no_literal_syntax");
        }
        let is_update = matches!(case.path, Path::UpdateLiteral | Path::UpdateParam);
        let res = if is_update {
            if let Err(e) = db.h().execute("INSERT INTO t (id) VALUES (1)") {
                return out.fail(sig("seed_insert"), format!("{}", e));
            }
            if is_param {
                db.h().execute_with_params("UPDATE t SET v = ? WHERE id = 1", &[param(&case.val)])
            } else {
                db.h().execute(&format!("UPDATE t SET v = {} WHERE id = 1", lit.as_ref().unwrap()))
            }
        } else if is_param {
            db.h().execute_with_params("INSERT INTO t (id, v) VALUES (1, ?)", &[param(&case.val)])
        } else {
            db.h().execute(&format!("INSERT INTO t (id, v) VALUES (1, {})", lit.as_ref().unwrap()))
        };
        if let Err(e) = res {
            return out.fail(sig("write_rejected"), format!("writing {} into a {} column failed: {}", short_cval(&case.val), sql_type(case.ty), e));
        }
        let mut points = vec!["after_write"];
        if case.reopen {
            points.push("after_reopen");
        }
        for point in points {
            if point == "after_reopen" {
                if let Err(e) = db.reopen() {
                    return out.fail(sig("reopen_failed"), e);
                }
            }
            for q in ["SELECT v FROM t WHERE id = 1", "SELECT * FROM t"] {
                match db.h().query(q) {
                    Ok(rows) => {
                        let got = rows.first().and_then(|r| r.values.last().cloned());
                        match got {
                            Some(g) => {
                                if let Err(d) = same(case.ty, &case.val, &g) {
                                    return out.fail(sig(&format!("{}|value_changed", point)), format!("{} via {}: {}", sql_type(case.ty), q, d));
                                }
                            }
                            None => return out.fail(sig(&format!("{}|row_missing", point)), format!("{} returned no row", q)),
                        }
                    }
                    Err(e) => return out.fail(sig(&format!("{}|read_failed", point)), format!("{} -> {}", q, e)),
                }
            }
        }
        out.add_class(format!("type:{}", tyname));
        out.add_class(format!("path:{}", pathname));
        out.add_class(format!("value:{}", vclass));
        if matches!(vclass, "above_toast_threshold" | "near_toast_threshold" | "int_extreme" | "nan" | "inf" | "zero" | "subnormal" | "empty_text" | "empty_blob" | "utf8_blob") {
            out.nontrivial = Some(vcore::hash_of(&format!("{:?}", case)));
        }
        out
    }
}

fn sizes(max: u32) -> BoxedStrategy<u32> {
    prop_oneof![
        3 => prop_oneof![Just(999u32), Just(1000), Just(1001), Just(3999), Just(4000), Just(4001), Just(7999), Just(8000), Just(8001), Just(16_383), Just(16_384), Just(65_535), Just(65_536)],
        2 => 900u32..1100,
        2 => 1u32..9000,
        1 => 9000u32..max.max(9001),
    ]
    .prop_map(move |n| n.min(max))
    .boxed()
}

fn json_text() -> BoxedStrategy<String> {
    let leaf = prop_oneof![
        Just("null".to_string()),
        Just("true".to_string()),
        Just("false".to_string()),
        (-1000i64..1000).prop_map(|i| i.to_string()),
        (-8i32..8).prop_map(|i| format!("{:?}", i as f64 * 0.25)),
        "[a-zé ]{0,6}".prop_map(|s| format!("\"{}\"", s)),
    ];
    leaf.prop_recursive(3, 12, 4, |inner| {
        prop_oneof![
            proptest::collection::vec(inner.clone(), 0..4).prop_map(|v| format!("[{}]", v.join(", "))),
            proptest::collection::vec(("[a-d]{1,2}", inner), 0..3).prop_map(|v| {
                let mut seen = std::collections::BTreeSet::new();
                let items: Vec<String> = v.into_iter().filter(|(k, _)| seen.insert(k.clone())).map(|(k, x)| format!("\"{}\": {}", k, x)).collect();
                format!("{{{}}}", items.join(", "))
            }),
        ]
    })
    .boxed()
}

fn value_for(ty: ColTy, max_big: u32) -> BoxedStrategy<CVal> {
    let null = Just(CVal::Null);
    match ty {
        ColTy::SmallInt => prop_oneof![1 => null, 6 => prop_oneof![Just(i16::MIN as i64), Just(i16::MAX as i64), Just(0i64), -5i64..5, (i16::MIN as i64)..=(i16::MAX as i64)].prop_map(CVal::Int)].boxed(),
        ColTy::Int => prop_oneof![1 => null, 6 => prop_oneof![Just(i32::MIN as i64), Just(i32::MAX as i64), Just(0i64), -5i64..5, (i32::MIN as i64)..=(i32::MAX as i64)].prop_map(CVal::Int)].boxed(),
        ColTy::BigInt => prop_oneof![1 => null, 8 => prop_oneof![Just(i64::MIN), Just(i64::MAX), Just(i64::MIN + 1), Just(0i64), -5i64..5, any::<i64>()].prop_map(CVal::Int)].boxed(),
        ColTy::Real => prop_oneof![1 => null, 8 => prop_oneof![any::<u32>(), Just(0u32), Just(0x8000_0000), Just(f32::INFINITY.to_bits()), Just(f32::NEG_INFINITY.to_bits()), Just(f32::NAN.to_bits()), Just(1u32), Just(f32::MAX.to_bits())]
            .prop_map(|b| CVal::Float((f32::from_bits(b) as f64).to_bits()))]
        .boxed(),
        ColTy::Double => prop_oneof![1 => null, 8 => prop_oneof![any::<u64>(), Just(0u64), Just(0x8000_0000_0000_0000), Just(f64::INFINITY.to_bits()), Just(f64::NEG_INFINITY.to_bits()), Just(f64::NAN.to_bits()), Just(1u64), Just(f64::MAX.to_bits()), Just(f64::MIN_POSITIVE.to_bits()), (-8i32..8).prop_map(|i| (i as f64 * 0.5).to_bits())]
            .prop_map(CVal::Float)]
        .boxed(),
        ColTy::Text => prop_oneof![
            1 => null,
            3 => prop_oneof![Just(String::new()), Just("a".to_string()), Just("it's".to_string()), Just("日本語 😀 é".to_string()), Just("line\nbreak\ttab".to_string()), Just("--;/*".to_string()), "\\PC{0,12}"].prop_map(CVal::Text),
            5 => (any::<u8>(), sizes(max_big)).prop_map(|(p, n)| CVal::BigText(p, n)),
        ]
        .boxed(),
        ColTy::Blob => prop_oneof![
            1 => null,
            3 => prop_oneof![Just(vec![]), Just(vec![0u8]), Just(vec![0xFFu8; 3]), Just(b"valid utf8".to_vec()), proptest::collection::vec(any::<u8>(), 0..40)].prop_map(CVal::Blob),
            1 => proptest::collection::vec(any::<u8>(), 16).prop_map(|mut v| { v.insert(0, 0xFE); CVal::Blob(v) }),
            5 => (any::<u8>(), sizes(max_big)).prop_map(|(p, n)| CVal::BigBlob(p, n)),
        ]
        .boxed(),
        ColTy::Boolean => prop_oneof![1 => null, 4 => any::<bool>().prop_map(CVal::Bool)].boxed(),
        // years 1..9999
        ColTy::Date => prop_oneof![1 => null, 8 => prop_oneof![Just(-719162i32), Just(2932896), Just(0), Just(-1), Just(19782), -719162i32..=2932896].prop_map(CVal::Date)].boxed(),
        ColTy::Time => prop_oneof![1 => null, 8 => prop_oneof![Just(0i64), Just(86_399_000_000), Just(86_399_999_999), (0i64..86_400).prop_map(|s| s * 1_000_000), 0i64..86_400_000_000].prop_map(CVal::Time)].boxed(),
        ColTy::Timestamp => prop_oneof![1 => null, 8 => prop_oneof![Just(0i64), Just(-1_000_000), Just(1_709_210_096_000_000), (-62_135_596_800i64..253_402_300_800).prop_map(|s| s * 1_000_000), (-62_135_596_800i64..253_402_300_800, 0i64..1_000_000).prop_map(|(s, f)| s * 1_000_000 + f)].prop_map(CVal::Timestamp)].boxed(),
        ColTy::Uuid => prop_oneof![1 => null, 6 => prop_oneof![Just([0u8; 16]), Just([0xFFu8; 16]), proptest::array::uniform16(any::<u8>())].prop_map(CVal::Uuid)].boxed(),
        ColTy::Jsonb => prop_oneof![1 => null, 8 => json_text().prop_map(CVal::Json), 2 => json_text().prop_map(CVal::JsonTextParam)].boxed(),
        ColTy::Vector => prop_oneof![1 => null, 8 => proptest::collection::vec(prop_oneof![any::<u32>().prop_map(|b| if f32::from_bits(b).is_finite() { b } else { 0x3f80_0000 }), Just(0u32), Just(0x8000_0000), (-8i32..8).prop_map(|i| (i as f32 * 0.5).to_bits())], 4).prop_map(CVal::Vector)].boxed(),
    }
}

pub fn strategy(max_big: u32) -> BoxedStrategy<Case> {
    let ty = prop_oneof![
        1 => Just(ColTy::SmallInt), 1 => Just(ColTy::Int), 2 => Just(ColTy::BigInt), 1 => Just(ColTy::Real), 2 => Just(ColTy::Double),
        4 => Just(ColTy::Text), 4 => Just(ColTy::Blob), 1 => Just(ColTy::Boolean), 1 => Just(ColTy::Date), 1 => Just(ColTy::Time),
        1 => Just(ColTy::Timestamp), 1 => Just(ColTy::Uuid), 2 => Just(ColTy::Jsonb), 1 => Just(ColTy::Vector)
    ];
    let path = prop_oneof![Just(Path::InsertLiteral), Just(Path::InsertParam), Just(Path::UpdateLiteral), Just(Path::UpdateParam)];
    (ty, path, any::<bool>()).prop_flat_map(move |(ty, path, reopen)| value_for(ty, max_big).prop_map(move |val| Case { ty, val, path, reopen })).boxed()
}

pub fn main(tier: Tier, replay: Option<String>) -> i32 {
    let gates: std::collections::BTreeSet<String> = vcore::Findings::load_default().closed_gates("C11").into_iter().collect();
    let check = C11 { allow_toast_like_blob: false, gates };
    if let Some(p) = replay {
        return vcore::replay_file("C11", &check, &p);
    }
    let ctx = Ctx::new("C11", tier, "exploration");
    ctx.set_rule(
        "proptest (column type, value, write path, read point): SMALLINT/INT/BIGINT extremes, REAL/DOUBLE incl. +-0, NaN, +-inf, subnormals, TEXT and BLOB from empty through the TOAST \
         threshold (999/1000/1001 bytes) and chunk size (3999/4000/4001/8001) to 200 KB (quick) / 3 MB (thorough) incl. multi-byte text and UTF-8-valid blobs, BOOLEAN, DATE/TIME/TIMESTAMP \
         over years 1..9999, UUID, JSONB documents, VECTOR(4); written by INSERT or UPDATE, as literal or as bound parameter; read by SELECT v and SELECT * right after the write and after \
         close+reopen. Non-trivial = value at or above the TOAST threshold or a boundary value (integer extreme, NaN, inf, zero, subnormal, empty, UTF-8-valid blob); distinct by hash of the case.",
    );
    ctx.assume("a 17-byte BLOB starting with 0xFE (indistinguishable from a TOAST pointer; listed finding under C31) is never executed in-process because reading it aborts the process");
    ctx.assume("JSON is compared by value (numbers as f64, objects as key->value maps); NaN reads back as any NaN");
    let max_big = tier.pick(200_000, 3_000_000);
    let cases = tier.pick(3000, 200_000);
    vcore::drive(&ctx, &check, move || strategy(max_big), cases, 16);
    ctx.finish()
}
