//! C32 JSON documents round-trip through JSONB.
//!
//! G: JSON documents as an AST (nesting to depth 8; objects with duplicate, unsorted, empty
//! and Unicode keys; arrays; strings whose characters are emitted raw, as short escapes, or
//! as \uXXXX escapes in either hex case, non-BMP characters as surrogate-pair escapes;
//! number literals with signs, fractions and exponents; a low-frequency class of strings and
//! keys around the 65 535-byte limit of the nested-string length field), rendered to text
//! with generated whitespace between tokens. The same AST is also fed through the
//! `JsonbBuilder` API.
//! O: the AST is the ground truth (string = its characters, number = the literal parsed by
//! std). `serde_json` (independent implementation, `float_roundtrip` on) parses the generated
//! text and must agree with the AST — this guards the generator — and parses the text that
//! `JsonbView::to_json_string` produces, which must again equal the AST. Directly on the
//! JSONB bytes: root `as_value`, `object_len`/`array_len`, every key `get`, every index
//! `array_get` (and one past the end), `iter_object`/`iter_array`, absent keys, and for every
//! key path through nested objects `get_path` == stepwise `get`; the `OwnedValue::jsonb_get`
//! / `jsonb_get_path` / `jsonb_array_get` wrappers agree. For duplicate keys a lookup may
//! return any of that key's values (the property does not pick one).

use std::collections::BTreeMap;

use proptest::prelude::*;
use serde::{Deserialize, Serialize};
use serde_json::Value as SJ;
use turdb::parsing::{parse_json, JsonValue};
use turdb::records::jsonb::{JsonbBuilder, JsonbBuilderValue, JsonbValue, JsonbView};
use turdb::types::OwnedValue;
use vcore::{Check, Ctx, Outcome, Tier};

// ---------------------------------------------------------------- case model

/// a string: `chars` repeated `rep` times; each char carries how it is written in the text:
/// 0 raw (escaped only if JSON requires it), 1 short escape when one exists (else \u),
/// 2 \uXXXX lower-case hex, 3 \uXXXX upper-case hex (non-BMP: surrogate pair)
#[derive(Debug, Clone, Serialize, Deserialize, PartialEq, Eq, Hash)]
pub struct S {
    pub chars: Vec<(char, u8)>,
    pub rep: u32,
}

#[derive(Debug, Clone, Serialize, Deserialize, PartialEq, Eq, Hash)]
pub enum J {
    Null,
    Bool(bool),
    /// a JSON number literal
    Num(String),
    Str(S),
    Arr(Vec<J>),
    Obj(Vec<(S, J)>),
}

#[derive(Debug, Clone, Serialize, Deserialize)]
pub struct Case {
    pub doc: J,
    /// whitespace choice per token boundary (cycled)
    pub ws: Vec<u8>,
    /// keys probed that the document (probably) does not contain
    pub absent: Vec<S>,
}

pub struct C32;

impl S {
    fn value(&self) -> String {
        let one: String = self.chars.iter().map(|(c, _)| *c).collect();
        one.repeat(self.rep as usize)
    }
    fn byte_len(&self) -> usize {
        self.chars.iter().map(|(c, _)| c.len_utf8()).sum::<usize>() * self.rep as usize
    }
    fn has_surrogate_escape(&self) -> bool {
        self.rep > 0 && self.chars.iter().any(|(c, m)| (*c as u32) > 0xFFFF && *m >= 1)
    }
    fn render(&self, out: &mut String) {
        out.push('"');
        let mut one = String::new();
        for (c, m) in &self.chars {
            let must = *c == '"' || *c == '\\' || (*c as u32) < 0x20;
            let mode = if *m == 0 && must { 1 } else { *m };
            match mode {
                0 => one.push(*c),
                1 => match *c {
                    '"' => one.push_str("\\\""),
                    '\\' => one.push_str("\\\\"),
                    '/' => one.push_str("\\/"),
                    '\u{8}' => one.push_str("\\b"),
                    '\u{c}' => one.push_str("\\f"),
                    '\n' => one.push_str("\\n"),
                    '\r' => one.push_str("\\r"),
                    '\t' => one.push_str("\\t"),
                    c => push_u_escape(&mut one, c, false),
                },
                2 => push_u_escape(&mut one, *c, false),
                _ => push_u_escape(&mut one, *c, true),
            }
        }
        for _ in 0..self.rep {
            out.push_str(&one);
        }
        out.push('"');
    }
}

fn push_u_escape(out: &mut String, c: char, upper: bool) {
    let mut units = [0u16; 2];
    for u in c.encode_utf16(&mut units) {
        if upper {
            out.push_str(&format!("\\u{:04X}", u));
        } else {
            out.push_str(&format!("\\u{:04x}", u));
        }
    }
}

const WS: [&str; 6] = ["", "", " ", "\n", "\t", " \r\n  "];

struct Wsp<'a> {
    ws: &'a [u8],
    i: usize,
}

impl Wsp<'_> {
    fn next(&mut self, out: &mut String) {
        if self.ws.is_empty() {
            return;
        }
        let w = self.ws[self.i % self.ws.len()];
        self.i += 1;
        out.push_str(WS[w as usize % WS.len()]);
    }
}

fn render(j: &J, w: &mut Wsp<'_>, out: &mut String) {
    match j {
        J::Null => out.push_str("null"),
        J::Bool(true) => out.push_str("true"),
        J::Bool(false) => out.push_str("false"),
        J::Num(l) => out.push_str(l),
        J::Str(s) => s.render(out),
        J::Arr(items) => {
            out.push('[');
            w.next(out);
            for (i, it) in items.iter().enumerate() {
                if i > 0 {
                    out.push(',');
                    w.next(out);
                }
                render(it, w, out);
                w.next(out);
            }
            out.push(']');
        }
        J::Obj(pairs) => {
            out.push('{');
            w.next(out);
            for (i, (k, v)) in pairs.iter().enumerate() {
                if i > 0 {
                    out.push(',');
                    w.next(out);
                }
                k.render(out);
                w.next(out);
                out.push(':');
                w.next(out);
                render(v, w, out);
                w.next(out);
            }
            out.push('}');
        }
    }
}

fn depth(j: &J) -> usize {
    match j {
        J::Arr(a) => 1 + a.iter().map(depth).max().unwrap_or(0),
        J::Obj(o) => 1 + o.iter().map(|(_, v)| depth(v)).max().unwrap_or(0),
        _ => 0,
    }
}

fn num_value(l: &str) -> Option<f64> {
    l.parse::<f64>().ok().filter(|f| f.is_finite())
}

/// is `l` a number literal of the JSON grammar
fn is_json_number(l: &str) -> bool {
    let b = l.as_bytes();
    let mut i = 0;
    if i < b.len() && b[i] == b'-' {
        i += 1;
    }
    if i >= b.len() {
        return false;
    }
    if b[i] == b'0' {
        i += 1;
    } else if b[i].is_ascii_digit() {
        while i < b.len() && b[i].is_ascii_digit() {
            i += 1;
        }
    } else {
        return false;
    }
    if i < b.len() && b[i] == b'.' {
        i += 1;
        let s = i;
        while i < b.len() && b[i].is_ascii_digit() {
            i += 1;
        }
        if i == s {
            return false;
        }
    }
    if i < b.len() && (b[i] == b'e' || b[i] == b'E') {
        i += 1;
        if i < b.len() && (b[i] == b'+' || b[i] == b'-') {
            i += 1;
        }
        let s = i;
        while i < b.len() && b[i].is_ascii_digit() {
            i += 1;
        }
        if i == s {
            return false;
        }
    }
    i == b.len()
}

fn well_formed(j: &J) -> bool {
    match j {
        J::Num(l) => is_json_number(l) && num_value(l).is_some(),
        J::Arr(a) => a.iter().all(well_formed),
        J::Obj(o) => o.iter().all(|(_, v)| well_formed(v)),
        _ => true,
    }
}

// ---------------------------------------------------------------- oracle side

/// AST vs serde_json value. serde keeps the last of duplicate keys: the serde object must
/// have exactly the AST's distinct keys, each mapped to one of that key's AST values.
fn ast_eq_serde(a: &J, v: &SJ) -> bool {
    match (a, v) {
        (J::Null, SJ::Null) => true,
        (J::Bool(x), SJ::Bool(y)) => x == y,
        (J::Num(l), SJ::Number(n)) => match (num_value(l), n.as_f64()) {
            (Some(x), Some(y)) => x == y,
            _ => false,
        },
        (J::Str(s), SJ::String(t)) => s.value() == *t,
        (J::Arr(items), SJ::Array(vs)) => items.len() == vs.len() && items.iter().zip(vs).all(|(a, v)| ast_eq_serde(a, v)),
        (J::Obj(pairs), SJ::Object(m)) => {
            let mut keys: BTreeMap<String, Vec<&J>> = BTreeMap::new();
            for (k, v) in pairs {
                keys.entry(k.value()).or_default().push(v);
            }
            keys.len() == m.len() && keys.iter().all(|(k, cands)| m.get(k).map(|v| cands.iter().any(|c| ast_eq_serde(c, v))).unwrap_or(false))
        }
        _ => false,
    }
}

type Diff = (String, String);

fn kind_of(v: &JsonbValue<'_>) -> &'static str {
    match v {
        JsonbValue::Null => "null",
        JsonbValue::Bool(_) => "bool",
        JsonbValue::Number(_) => "number",
        JsonbValue::String(_) => "string",
        JsonbValue::Array(_) => "array",
        JsonbValue::Object(_) => "object",
    }
}

fn akind(a: &J) -> &'static str {
    match a {
        J::Null => "null",
        J::Bool(_) => "bool",
        J::Num(_) => "number",
        J::Str(_) => "string",
        J::Arr(_) => "array",
        J::Obj(_) => "object",
    }
}

fn brief(s: &str) -> String {
    if s.len() > 80 {
        format!("{:?}… ({} bytes)", s.chars().take(30).collect::<String>(), s.len())
    } else {
        format!("{:?}", s)
    }
}

macro_rules! tri {
    ($e:expr, $what:expr, $at:expr) => {
        match $e {
            Ok(v) => v,
            Err(e) => return Err((format!("{}_err", $what), format!("at {}: {} failed: {}", $at, $what, e))),
        }
    };
}

/// walk the JSONB value against the AST: nothing lost, nothing invented
fn check_value(a: &J, v: &JsonbValue<'_>, at: &str) -> Result<(), Diff> {
    match (a, v) {
        (J::Null, JsonbValue::Null) => Ok(()),
        (J::Bool(x), JsonbValue::Bool(y)) if x == y => Ok(()),
        (J::Bool(x), JsonbValue::Bool(y)) => Err(("bool_value".into(), format!("at {}: wrote {} read {}", at, x, y))),
        (J::Num(l), JsonbValue::Number(n)) => {
            if num_value(l) == Some(*n) {
                Ok(())
            } else {
                Err(("number_value".into(), format!("at {}: literal {} read back as {:?}", at, l, n)))
            }
        }
        (J::Str(s), JsonbValue::String(t)) => {
            let want = s.value();
            if want == *t {
                Ok(())
            } else {
                let tag = if s.byte_len() > 65_535 { "string_value|over_65535_bytes" } else { "string_value" };
                Err((tag.into(), format!("at {}: wrote string {} read {}", at, brief(&want), brief(t))))
            }
        }
        (J::Arr(items), JsonbValue::Array(view)) => {
            let n = tri!(view.array_len(), "array_len", at);
            if n != items.len() {
                return Err(("array_len".into(), format!("at {}: {} elements written, array_len {}", at, items.len(), n)));
            }
            for (i, it) in items.iter().enumerate() {
                let got = tri!(view.array_get(i), "array_get", at);
                let Some(got) = got else {
                    return Err(("array_get_none".into(), format!("at {}: array_get({}) of {} elements is None", at, i, n)));
                };
                check_value(it, &got, &format!("{}[{}]", at, i))?;
            }
            if tri!(view.array_get(items.len()), "array_get", at).is_some() {
                return Err(("array_get_past_end".into(), format!("at {}: array_get({}) one past the end returned a value", at, items.len())));
            }
            let mut k = 0usize;
            for got in tri!(view.iter_array(), "iter_array", at) {
                let got = tri!(got, "iter_array_item", at);
                let Some(it) = items.get(k) else {
                    return Err(("iter_array_extra".into(), format!("at {}: iter_array yields more than {} elements", at, items.len())));
                };
                check_value(it, &got, &format!("{}[iter {}]", at, k))?;
                k += 1;
            }
            if k != items.len() {
                return Err(("iter_array_short".into(), format!("at {}: iter_array yields {} of {} elements", at, k, items.len())));
            }
            Ok(())
        }
        (J::Obj(pairs), JsonbValue::Object(view)) => {
            let n = tri!(view.object_len(), "object_len", at);
            if n != pairs.len() {
                return Err(("object_len".into(), format!("at {}: {} pairs written, object_len {}", at, pairs.len(), n)));
            }
            let mut keys: BTreeMap<String, Vec<&J>> = BTreeMap::new();
            for (k, v) in pairs {
                keys.entry(k.value()).or_default().push(v);
            }
            let long_key = pairs.iter().any(|(k, _)| k.byte_len() > 65_535);
            let kt = if long_key { "|key_over_65535_bytes" } else { "" };
            for (k, cands) in &keys {
                let got = tri!(view.get(k), "get", at);
                let Some(got) = got else {
                    return Err((format!("key_not_found{}", kt), format!("at {}: get({}) is None but the key was written ({} keys)", at, brief(k), pairs.len())));
                };
                let mut last = None;
                if !cands.iter().any(|c| match check_value(c, &got, &format!("{}.{}", at, brief(k))) {
                    Ok(()) => true,
                    Err(e) => {
                        last = Some(e);
                        false
                    }
                }) {
                    let (kind, detail) = last.unwrap();
                    return Err((kind, format!("{} (none of the {} value(s) written for this key matches)", detail, cands.len())));
                }
            }
            // iteration: same multiset of keys, every pair is a written pair
            let mut seen: BTreeMap<String, usize> = BTreeMap::new();
            for item in tri!(view.iter_object(), "iter_object", at) {
                let (k, got) = tri!(item, "iter_object_item", at);
                let Some(cands) = keys.get(k) else {
                    return Err((format!("iter_object_invented_key{}", kt), format!("at {}: iter_object yields key {} that was not written", at, brief(k))));
                };
                if !cands.iter().any(|c| check_value(c, &got, at).is_ok()) {
                    return Err(("iter_object_value".into(), format!("at {}: iter_object yields a value for key {} that was not written for it", at, brief(k))));
                }
                *seen.entry(k.to_string()).or_insert(0) += 1;
            }
            for (k, cands) in &keys {
                if seen.get(k).copied().unwrap_or(0) != cands.len() {
                    return Err(("iter_object_key_count".into(), format!("at {}: key {} written {} time(s), iterated {} time(s)", at, brief(k), cands.len(), seen.get(k).copied().unwrap_or(0))));
                }
            }
            Ok(())
        }
        _ => Err(("type_changed".into(), format!("at {}: wrote a JSON {} read a {}", at, akind(a), kind_of(v)))),
    }
}

/// every key path through nested objects (bounded), as owned strings
fn key_paths(j: &J, cur: &mut Vec<String>, out: &mut Vec<Vec<String>>) {
    if out.len() >= 48 {
        return;
    }
    if let J::Obj(pairs) = j {
        for (k, v) in pairs {
            if k.byte_len() > 200 {
                continue;
            }
            cur.push(k.value());
            out.push(cur.clone());
            key_paths(v, cur, out);
            cur.pop();
        }
    }
}

fn owned_matches(a_cands: &[&J], ov: &OwnedValue) -> bool {
    a_cands.iter().any(|a| match (a, ov) {
        (J::Null, OwnedValue::Null) => true,
        (J::Bool(x), OwnedValue::Bool(y)) => x == y,
        (J::Num(l), OwnedValue::Float(f)) => num_value(l) == Some(*f),
        (J::Str(s), OwnedValue::Text(t)) => s.value() == *t,
        (J::Arr(_) | J::Obj(_), OwnedValue::Jsonb(b)) => JsonbView::new(b).ok().and_then(|v| v.as_value().ok().map(|val| check_value(a, &val, "$").is_ok())).unwrap_or(false),
        _ => false,
    })
}

/// all checks on one JSONB encoding of the document
fn check_bytes(ast: &J, bytes: &[u8], absent: &[S]) -> Result<(), Diff> {
    let view = tri!(JsonbView::new(bytes), "JsonbView::new", "$");
    let root = tri!(view.as_value(), "as_value", "$");
    check_value(ast, &root, "$")?;

    // text out, parsed by the independent parser
    let text = tri!(view.to_json_string(), "to_json_string", "$");
    match serde_json::from_str::<SJ>(&text) {
        Err(e) => return Err(("to_json_string_invalid".into(), format!("to_json_string produced text serde_json rejects ({}): {}", e, brief(&text)))),
        Ok(v) => {
            if !ast_eq_serde(ast, &v) {
                return Err(("to_json_string_value".into(), format!("to_json_string text {} parses to a different value than the document written", brief(&text))));
            }
        }
    }

    let owned = OwnedValue::Jsonb(bytes.to_vec());
    match ast {
        J::Obj(pairs) => {
            // absent keys
            for k in absent {
                let k = k.value();
                if pairs.iter().any(|(p, _)| p.value() == k) {
                    continue;
                }
                if tri!(view.get(&k), "get", "$").is_some() {
                    return Err(("absent_key_found".into(), format!("get({}) returned a value for a key that was not written", brief(&k))));
                }
                if tri!(owned.jsonb_get(&k), "jsonb_get", "$").is_some() {
                    return Err(("absent_key_found".into(), format!("OwnedValue::jsonb_get({}) returned a value for a key that was not written", brief(&k))));
                }
            }
            // OwnedValue::jsonb_get on every root key
            for (k, _) in pairs {
                if k.byte_len() > 65_535 {
                    continue;
                }
                let ks = k.value();
                let cands: Vec<&J> = pairs.iter().filter(|(p, _)| p.value() == ks).map(|(_, v)| v).collect();
                match tri!(owned.jsonb_get(&ks), "jsonb_get", "$") {
                    None => return Err(("owned_get_none".into(), format!("OwnedValue::jsonb_get({}) is None for a written key", brief(&ks)))),
                    Some(ov) => {
                        if !owned_matches(&cands, &ov) {
                            return Err(("owned_get_value".into(), format!("OwnedValue::jsonb_get({}) returned {:?}, not a value written for that key", brief(&ks), ov)));
                        }
                    }
                }
            }
            // get_path == stepwise get, for every key path, an absent extension and the empty path
            let mut paths = Vec::new();
            key_paths(ast, &mut Vec::new(), &mut paths);
            let mut extra = Vec::new();
            for p in paths.iter().take(8) {
                let mut q = p.clone();
                q.push("\u{1}no such key".to_string());
                extra.push(q);
            }
            paths.extend(extra);
            for p in &paths {
                let refs: Vec<&str> = p.iter().map(|s| s.as_str()).collect();
                let by_path = tri!(view.get_path(&refs), "get_path", "$");
                let mut cur: Option<JsonbValue<'_>> = Some(root.clone());
                for k in &refs {
                    cur = match cur {
                        Some(JsonbValue::Object(v)) => tri!(v.get(k), "get", "$"),
                        _ => None,
                    };
                }
                if by_path != cur {
                    return Err(("get_path_vs_stepwise".into(), format!("path {:?}: get_path gives {:?}, stepwise get gives {:?}", p, by_path.as_ref().map(kind_of), cur.as_ref().map(kind_of))));
                }
                let ov = tri!(owned.jsonb_get_path(&refs), "jsonb_get_path", "$");
                if ov.is_some() != cur.is_some() {
                    return Err(("owned_get_path".into(), format!("path {:?}: OwnedValue::jsonb_get_path is_some={} but stepwise is_some={}", p, ov.is_some(), cur.is_some())));
                }
            }
            let empty: [&str; 0] = [];
            if tri!(view.get_path(&empty), "get_path", "$") != Some(root.clone()) {
                return Err(("get_path_empty".into(), "get_path(&[]) is not the document itself".into()));
            }
        }
        J::Arr(items) => {
            for (i, it) in items.iter().enumerate() {
                match tri!(owned.jsonb_array_get(i), "jsonb_array_get", "$") {
                    None => return Err(("owned_array_get_none".into(), format!("OwnedValue::jsonb_array_get({}) is None, {} elements written", i, items.len()))),
                    Some(ov) => {
                        if !owned_matches(&[it], &ov) {
                            return Err(("owned_array_get_value".into(), format!("OwnedValue::jsonb_array_get({}) returned {:?}", i, ov)));
                        }
                    }
                }
            }
            if tri!(owned.jsonb_array_get(items.len()), "jsonb_array_get", "$").is_some() {
                return Err(("owned_array_get_past_end".into(), "jsonb_array_get(len) returned a value".into()));
            }
        }
        _ => {}
    }
    Ok(())
}

fn to_builder_value(j: &J) -> JsonbBuilderValue {
    match j {
        J::Null => JsonbBuilderValue::Null,
        J::Bool(b) => JsonbBuilderValue::Bool(*b),
        J::Num(l) => JsonbBuilderValue::Number(num_value(l).unwrap_or(0.0)),
        J::Str(s) => JsonbBuilderValue::String(s.value()),
        J::Arr(a) => JsonbBuilderValue::Array(a.iter().map(to_builder_value).collect()),
        J::Obj(o) => JsonbBuilderValue::Object(o.iter().map(|(k, v)| (k.value(), to_builder_value(v))).collect()),
    }
}

fn build_with_builder(j: &J) -> Vec<u8> {
    match j {
        J::Null => JsonbBuilder::new_null().build(),
        J::Bool(b) => JsonbBuilder::new_bool(*b).build(),
        J::Num(l) => JsonbBuilder::new_number(num_value(l).unwrap_or(0.0)).build(),
        J::Str(s) => JsonbBuilder::new_string(s.value()).build(),
        J::Arr(a) => {
            let mut b = JsonbBuilder::new_array();
            for e in a {
                b.push(to_builder_value(e));
            }
            b.build()
        }
        J::Obj(o) => {
            let mut b = JsonbBuilder::new_object();
            for (k, v) in o {
                b.set(k.value(), to_builder_value(v));
            }
            b.build()
        }
    }
}

fn parsed_eq_ast(a: &J, v: &JsonValue) -> bool {
    match (a, v) {
        (J::Null, JsonValue::Null) => true,
        (J::Bool(x), JsonValue::Bool(y)) => x == y,
        (J::Num(l), JsonValue::Number(n)) => num_value(l.as_str()) == Some(*n),
        (J::Str(s), JsonValue::String(t)) => s.value() == *t,
        (J::Arr(x), JsonValue::Array(y)) => x.len() == y.len() && x.iter().zip(y).all(|(a, v)| parsed_eq_ast(a, v)),
        // the parser keeps pairs in document order, duplicates included
        (J::Obj(x), JsonValue::Object(y)) => x.len() == y.len() && x.iter().zip(y).all(|((k, a), (k2, v))| k.value() == *k2 && parsed_eq_ast(a, v)),
        _ => false,
    }
}

#[derive(Default)]
struct Feat {
    surrogate: bool,
    long_nested: bool,
    near_limit_nested: bool,
    dup_keys: bool,
    empty_key: bool,
    escapes: bool,
    exponent: bool,
    max_keys: usize,
}

fn features(j: &J, nested: bool, f: &mut Feat) {
    let s_feat = |s: &S, nested: bool, f: &mut Feat| {
        f.surrogate |= s.has_surrogate_escape();
        f.long_nested |= nested && s.byte_len() > 65_535;
        f.near_limit_nested |= nested && (65_000..=65_535).contains(&s.byte_len());
        f.escapes |= s.rep > 0 && s.chars.iter().any(|(c, m)| *m > 0 || *c == '"' || *c == '\\' || (*c as u32) < 0x20);
    };
    match j {
        J::Str(s) => s_feat(s, nested, f),
        J::Num(l) => f.exponent |= l.contains(['e', 'E']),
        J::Arr(a) => a.iter().for_each(|x| features(x, true, f)),
        J::Obj(o) => {
            f.max_keys = f.max_keys.max(o.len());
            let mut seen = std::collections::BTreeSet::new();
            for (k, v) in o {
                s_feat(k, true, f);
                f.empty_key |= k.byte_len() == 0;
                if !seen.insert(k.value()) {
                    f.dup_keys = true;
                }
                features(v, true, f);
            }
        }
        _ => {}
    }
}

impl Check for C32 {
    type Case = Case;
    fn run(&self, case: &Case) -> Outcome {
        let mut out = Outcome::ok();
        let d = depth(&case.doc);
        if !well_formed(&case.doc) || d > 8 {
            out.add_class("ill_formed_case_skipped");
            return out;
        }
        let mut ft = Feat::default();
        features(&case.doc, false, &mut ft);
        let mut tags = String::new();
        if ft.surrogate {
            tags.push_str("|surrogate_pair_escape");
        }
        if ft.long_nested {
            tags.push_str("|nested_string_over_65535");
        }

        let mut text = String::new();
        {
            let mut w = Wsp { ws: &case.ws, i: 0 };
            w.next(&mut text);
            render(&case.doc, &mut w, &mut text);
            w.next(&mut text);
        }
        // guard the generator with the independent parser
        match serde_json::from_str::<SJ>(&text) {
            Ok(v) if ast_eq_serde(&case.doc, &v) => {}
            Ok(_) => {
                out.set_fail("C32|harness|generator_text_differs_from_ast", format!("serde_json reads {} differently from the AST {:?}", brief(&text), case.doc));
                return out;
            }
            Err(e) => {
                out.set_fail("C32|harness|generator_text_invalid", format!("serde_json rejects generated text {}: {}", brief(&text), e));
                return out;
            }
        }

        // ---- text -> JsonValue -> JSONB
        let parsed = match parse_json(&text) {
            Ok(p) => p,
            Err(e) => {
                out.set_fail(format!("C32|parse|valid_document_rejected{}", tags), format!("parse_json rejects {} (valid per serde_json): {}", brief(&text), e));
                return out;
            }
        };
        if !parsed_eq_ast(&case.doc, &parsed.value) {
            out.set_fail(format!("C32|parse|parsed_value_differs{}", tags), format!("parse_json reads {} as a different value", brief(&text)));
            return out;
        }
        let bytes = parsed.value.to_jsonb_bytes();
        if let Err((kind, detail)) = check_bytes(&case.doc, &bytes, &case.absent) {
            out.set_fail(format!("C32|parsed|{}{}", kind, if ft.long_nested { "|nested_string_over_65535" } else { "" }), format!("{} [document text {}]", detail, brief(&text)));
            return out;
        }

        // ---- the JsonbBuilder API on the same document
        let bbytes = build_with_builder(&case.doc);
        if let Err((kind, detail)) = check_bytes(&case.doc, &bbytes, &case.absent) {
            out.set_fail(format!("C32|builder|{}{}", kind, if ft.long_nested { "|nested_string_over_65535" } else { "" }), format!("{} [document text {}]", detail, brief(&text)));
            return out;
        }

        out.add_class(format!("depth={}", d));
        out.add_class(akind(&case.doc).to_string() + "_root");
        if ft.dup_keys {
            out.add_class("duplicate_keys");
        }
        if ft.empty_key {
            out.add_class("empty_key");
        }
        if ft.escapes {
            out.add_class("escaped_chars");
        }
        if ft.surrogate {
            out.add_class("surrogate_pair_escape");
        }
        if ft.exponent {
            out.add_class("number_with_exponent");
        }
        if ft.long_nested {
            out.add_class("nested_string_over_65535");
        }
        if ft.near_limit_nested {
            out.add_class("nested_string_65000..65535");
        }
        if d >= 2 && ft.max_keys >= 2 {
            out.add_class("nontrivial");
            out.nontrivial = Some(vcore::hash_of(&case.doc));
        }
        out
    }
}

// ---------------------------------------------------------------- generators

#[derive(Clone, Copy)]
pub struct Gates {
    /// nested strings / keys longer than 65 535 bytes
    pub long_nested: bool,
    /// non-BMP characters written as a pair of \\uD83D\\uDE00-style escapes
    pub surrogate_escape: bool,
}

fn ch() -> impl Strategy<Value = (char, u8)> {
    let c = prop_oneof![
        6 => prop_oneof![Just('a'), Just('b'), Just('k'), Just('z'), Just('0')],
        2 => prop_oneof![Just('"'), Just('\\'), Just('/'), Just('\n'), Just('\r'), Just('\t'), Just('\u{8}'), Just('\u{c}')],
        1 => prop_oneof![Just('\0'), Just('\u{1}'), Just('\u{1f}'), Just('\u{7f}'), Just('\u{80}'), Just('\u{9f}')],
        2 => prop_oneof![Just('é'), Just('ß'), Just('中'), Just('\u{ffff}'), Just('\u{fffd}'), Just('\u{2028}')],
        2 => prop_oneof![Just('😀'), Just('\u{10000}'), Just('\u{10ffff}'), Just('𝄞')],
        2 => any::<char>(),
    ];
    (c, prop_oneof![5 => Just(0u8), 2 => Just(1u8), 2 => Just(2u8), 1 => Just(3u8)])
}

fn s_small() -> impl Strategy<Value = S> {
    prop_oneof![
        1 => Just(S { chars: vec![], rep: 1 }),
        8 => proptest::collection::vec(ch(), 0..7).prop_map(|chars| S { chars, rep: 1 }),
        1 => (proptest::collection::vec(ch(), 1..4), 2u32..200).prop_map(|(chars, rep)| S { chars, rep }),
    ]
}

/// strings whose byte length sits around the u16 limit of the nested length field
fn s_long() -> impl Strategy<Value = S> {
    prop_oneof![Just(65_535u32), Just(65_536), Just(65_534), Just(65_537), Just(70_000), Just(131_072)].prop_map(|rep| S { chars: vec![('x', 0)], rep })
}

fn s_key() -> impl Strategy<Value = S> {
    prop_oneof![
        // few distinct short keys: duplicates and shared prefixes are common
        6 => prop_oneof![Just("a"), Just("b"), Just("ab"), Just("abc"), Just(""), Just("B"), Just("é"), Just("z")].prop_map(|k| S { chars: k.chars().map(|c| (c, 0)).collect(), rep: 1 }),
        5 => s_small(),
    ]
}

fn num() -> impl Strategy<Value = String> {
    let int = prop_oneof![
        3 => Just("0".to_string()),
        4 => (1u32..10, proptest::collection::vec(0u32..10, 0..4)).prop_map(|(h, t)| format!("{}{}", h, t.iter().map(|d| d.to_string()).collect::<String>())),
        1 => (1u32..10, proptest::collection::vec(0u32..10, 14..22)).prop_map(|(h, t)| format!("{}{}", h, t.iter().map(|d| d.to_string()).collect::<String>())),
        1 => prop_oneof![Just("9223372036854775807".to_string()), Just("9223372036854775808".to_string()), Just("18446744073709551615".to_string()), Just("18446744073709551616".to_string()), Just("9007199254740993".to_string())],
    ];
    let frac = prop_oneof![
        4 => Just(String::new()),
        3 => proptest::collection::vec(0u32..10, 1..5).prop_map(|t| format!(".{}", t.iter().map(|d| d.to_string()).collect::<String>())),
        1 => proptest::collection::vec(0u32..10, 15..20).prop_map(|t| format!(".{}", t.iter().map(|d| d.to_string()).collect::<String>())),
    ];
    let exp = prop_oneof![
        5 => Just(String::new()),
        3 => (prop_oneof![Just("e"), Just("E")], prop_oneof![Just(""), Just("+"), Just("-")], 0u32..40).prop_map(|(e, s, n)| format!("{}{}{}", e, s, n)),
        1 => (prop_oneof![Just("e"), Just("E")], prop_oneof![Just("-"), Just("")], prop_oneof![Just(280u32), Just(300), Just(7), Just(0)]).prop_map(|(e, s, n)| format!("{}{}{:02}", e, s, n)),
    ];
    (proptest::bool::weighted(0.35), int, frac, exp).prop_map(|(neg, i, f, e)| format!("{}{}{}{}", if neg { "-" } else { "" }, i, f, e)).prop_filter("finite", |l| num_value(l).is_some())
}

fn leaf() -> impl Strategy<Value = J> {
    prop_oneof![
        1 => Just(J::Null),
        1 => any::<bool>().prop_map(J::Bool),
        3 => num().prop_map(J::Num),
        3 => s_small().prop_map(J::Str),
    ]
}

fn doc() -> impl Strategy<Value = J> {
    let tree = leaf().prop_recursive(6, 40, 5, |inner| {
        prop_oneof![
            2 => proptest::collection::vec(inner.clone(), 0..5).prop_map(J::Arr),
            3 => proptest::collection::vec((s_key(), inner), 0..6).prop_map(J::Obj),
        ]
    });
    // a chain that reaches a chosen depth 1..=8 around a small tree
    let chain = (1usize..=8, proptest::collection::vec((any::<bool>(), s_key(), leaf()), 8), leaf()).prop_map(|(d, levels, core)| {
        let mut cur = core;
        for (is_obj, key, sibling) in levels.into_iter().take(d) {
            cur = if is_obj { J::Obj(vec![(S { chars: vec![('s', 0)], rep: 1 }, sibling), (key, cur)]) } else { J::Arr(vec![sibling, cur]) };
        }
        cur
    });
    prop_oneof![6 => tree, 2 => chain]
}

/// put one long string / key somewhere at nesting level >= 1
fn with_long(j: J, long: S, as_key: bool) -> J {
    match j {
        J::Arr(mut a) => {
            if as_key {
                a.push(J::Obj(vec![(long, J::Num("1".into()))]));
            } else {
                a.push(J::Str(long));
            }
            J::Arr(a)
        }
        J::Obj(mut o) => {
            if as_key {
                o.push((long, J::Bool(true)));
            } else {
                o.push((S { chars: vec![('L', 0)], rep: 1 }, J::Str(long)));
            }
            J::Obj(o)
        }
        other => J::Arr(vec![other, J::Str(long)]),
    }
}

fn cap_long(j: &mut J, nested: bool) {
    let cap = |s: &mut S| {
        if s.byte_len() > 65_535 {
            let per = s.chars.iter().map(|(c, _)| c.len_utf8()).sum::<usize>().max(1);
            s.rep = (65_535 / per) as u32;
        }
    };
    match j {
        J::Str(s) if nested => cap(s),
        J::Arr(a) => a.iter_mut().for_each(|x| cap_long(x, true)),
        J::Obj(o) => o.iter_mut().for_each(|(k, v)| {
            cap(k);
            cap_long(v, true)
        }),
        _ => {}
    }
}

fn no_surrogate(j: &mut J) {
    let fix = |s: &mut S| s.chars.iter_mut().for_each(|(c, m)| if (*c as u32) > 0xFFFF { *m = 0 });
    match j {
        J::Str(s) => fix(s),
        J::Arr(a) => a.iter_mut().for_each(no_surrogate),
        J::Obj(o) => o.iter_mut().for_each(|(k, v)| {
            fix(k);
            no_surrogate(v)
        }),
        _ => {}
    }
}

pub fn strategy(g: Gates) -> BoxedStrategy<Case> {
    let d = prop_oneof![
        60 => doc(),
        // top-level long string (length lives in the 28-bit root header, not the u16 field)
        1 => s_long().prop_map(J::Str),
        2 => (doc(), s_long(), any::<bool>()).prop_map(|(j, l, k)| with_long(j, l, k)),
    ];
    (d, proptest::collection::vec(0u8..6, 0..12), proptest::collection::vec(s_key(), 0..3))
        .prop_map(move |(mut doc, ws, absent)| {
            if !g.long_nested {
                cap_long(&mut doc, false);
            }
            if !g.surrogate_escape {
                no_surrogate(&mut doc);
            }
            Case { doc, ws, absent }
        })
        .boxed()
}

pub fn main(tier: Tier, replay: Option<String>) -> i32 {
    if let Some(p) = replay {
        return vcore::replay_file("C32", &C32, &p);
    }
    let ctx = Ctx::new("C32", tier, "exploration");
    ctx.set_rule(
        "proptest-generated JSON ASTs (nesting 0..8 with a dedicated chain generator reaching each depth; objects with duplicate / unsorted / empty / Unicode keys drawn from a small pool; arrays; \
         strings with raw, short-escaped and \\uXXXX-escaped characters incl. controls, U+2028, non-BMP characters as surrogate-pair escapes; number literals with sign, up to 22 integer digits, fractions, \
         exponents e/E +/-; ~5% documents with a string or key of 65 534..131 072 bytes) rendered with generated whitespace; each case checks the parsed text's JSONB and the JsonbBuilder's JSONB. \
         Non-trivial = nesting depth >= 2 and some object with >= 2 pairs; distinct by hash of the AST.",
    );
    ctx.assume("serde_json 1.x with float_roundtrip is a correct JSON parser; a generated text it rejects or reads differently from the AST is reported as a harness failure, not a TurDB one");
    ctx.assume("numbers compare as f64 (-0 == 0); for duplicate keys a lookup may return any value written for that key");
    let g = Gates { long_nested: !ctx.gate_closed("nested_string_over_65535"), surrogate_escape: !ctx.gate_closed("surrogate_pair_escape") };
    let cases = tier.pick(120_000, 4_000_000);
    vcore::drive(&ctx, &C32, move || strategy(g), cases, 16);
    ctx.finish()
}
